"""C08 correspondence harness — runs inside the implementation environment (EasyFEA importable).

stdin : JSON list of cases,  stdout : JSON {"results": [...], "tables": {...}}
Each result: {"case": i, "key": violation key, "cls": non-trivial class, "ok": bool, "what": text,
              "observed": ..., "expected": ...}
`replay(case)` re-runs one case, prints observed vs expected and returns 1 iff something fails.
All randomness comes from the `seed` stored in the case."""
import json
import sys
import warnings

import numpy as np

TOL = 1e-10          # relative, affine / direct quantities
TOL_ITER = 1e-7      # relative, values obtained through scipy least_squares (default xtol/ftol 1e-8)

PARENT = {"SEG": "SEG2", "TRI": "TRI3", "QUAD": "QUAD4", "TETRA": "TETRA4", "HEXA": "HEXA8", "PRISM": "PRISM6"}


def _imports():
    from EasyFEA import Mesher, ElemType
    from EasyFEA.Geoms import Points, Point
    from EasyFEA.FEM import Mesh, MatrixType
    from EasyFEA.FEM._group_elem import GroupElemFactory
    return Mesher, ElemType, Points, Point, Mesh, MatrixType, GroupElemFactory


def parent_of(name):
    return [v for k, v in PARENT.items() if name.startswith(k)][0]


def blank_group(name):
    Mesher, ElemType, Points, Point, Mesh, MatrixType, F = _imports()
    et = getattr(ElemType, name)
    gid, nPe, dim = F.DICT_ELEMTYPE[et][:3]
    return F.GROUP_CLASS_MAP[et](gid, np.arange(nPe).reshape(1, -1), np.zeros((nPe, 3))), et


def dump_tables():
    Mesher, ElemType, Points, Point, Mesh, MatrixType, F = _imports()
    out = {}
    for et in ElemType:
        if et.name == "POINT":
            continue
        g, _ = blank_group(et.name)
        rec = {}
        for p in ("surfaces", "faces", "segments", "triangles", "origin"):
            try:
                v = getattr(g, p)
                if v is None:
                    v = []
                v = [list(map(int, r)) for r in v] if (hasattr(v, "__len__") and len(v) and hasattr(v[0], "__len__")) else [int(x) for x in v]
            except Exception as ex:  # noqa
                v = "raises %s" % type(ex).__name__
            rec[p] = v
        out[et.name] = rec
    return out


# ------------------------------------------------------------------ exact polygon formulas
def shoelace(P):
    P = np.asarray(P, float)
    x, y = P[:, 0], P[:, 1]
    xn, yn = np.roll(x, -1), np.roll(y, -1)
    cr = x * yn - xn * y
    A = cr.sum() / 2
    cx = ((x + xn) * cr).sum() / (6 * A)
    cy = ((y + yn) * cr).sum() / (6 * A)
    return A, np.array([cx, cy])


def rotmat(axis, th):
    x, y, z = np.asarray(axis, float) / np.linalg.norm(axis)
    c, s, C = np.cos(th), np.sin(th), 1 - np.cos(th)
    return np.array([[x * x * C + c, x * y * C - z * s, x * z * C + y * s],
                     [y * x * C + z * s, y * y * C + c, y * z * C - x * s],
                     [z * x * C - y * s, z * y * C + x * s, z * z * C + c]])


def apply_motion(mesh, mo, pts):
    """apply a motion to the mesh through the library and to reference points independently."""
    pts = np.asarray(pts, float)
    if mo["t"] == "translate":
        mesh.Translate(*mo["d"])
        return pts + np.array(mo["d"])
    if mo["t"] == "rotate":
        mesh.Rotate(mo["theta"], mo["center"], mo["dir"])
        R = rotmat(mo["dir"], mo["theta"] * np.pi / 180)
        c = np.array(mo["center"], float)
        return (pts - c) @ R.T + c
    if mo["t"] == "symmetry":
        mesh.Symmetry(mo["point"], mo["n"])
        n = np.array(mo["n"], float) / np.linalg.norm(mo["n"])
        p = np.array(mo["point"], float)
        return pts - 2 * ((pts - p) @ n)[:, None] * n
    raise ValueError(mo)


def build_mesh(case):
    Mesher, ElemType, Points, Point, Mesh, MatrixType, F = _imports()
    et = getattr(ElemType, case["elem"])
    contour = Points([Point(float(x), float(y)) for x, y in case["poly"]], case["h"])
    dim = F.DICT_ELEMTYPE[et][2]
    if dim == 2:
        return Mesher().Mesh_2D(contour, [], et, isOrganised=False), 2
    return Mesher().Mesh_Extrude(contour, [], [0, 0, case["ext"]], [case["layers"]], et), 3


def main_groups(mesh):
    """element groups of the main dimension (several for mixed meshes, e.g. QUAD4 + a few TRI3)."""
    return list(mesh.Get_list_groupElem(mesh.dim))


def mixed_tag(mesh):
    gs = main_groups(mesh)
    return "" if len(gs) == 1 else ":mixed(" + "+".join(g.elemType.name for g in gs) + ")"


def measure_of(mesh, dim):
    return mesh.area if dim == 2 else mesh.volume


def boundary_integrals(mesh, dim):
    Mesher, ElemType, Points, Point, Mesh, MatrixType, F = _imports()
    N = np.zeros(3)
    flux = 0.0
    per = []
    for g in mesh.Get_list_groupElem(dim - 1):
        n = np.asarray(g.Get_normals_e_pg(MatrixType.mass, normalize=False))
        w = g.Get_weight_pg(MatrixType.mass)
        xg = np.asarray(g.Get_GaussCoordinates_e_pg(MatrixType.mass))
        Ng = np.einsum("epd,p->d", n, w)
        fg = float(np.einsum("epd,epd,p->", n, xg, w))
        per.append((g.elemType.name, int(g.Ne), Ng.tolist(), fg))
        N += Ng
        flux += fg
    return N, flux, per


def res(out, i, key, cls, ok, what, observed=None, expected=None):
    out.append({"case": i, "key": key, "cls": cls, "ok": bool(ok), "what": what, "observed": observed, "expected": expected})


def rel(a, b, scale):
    return float(np.max(np.abs(np.asarray(a, float) - np.asarray(b, float))) / scale)


# ------------------------------------------------------------------ case: geometry
def case_geom(i, case, out):
    mesh, dim = build_mesh(case)
    A, c2 = shoelace(case["poly"])
    orient = "ccw" if A > 0 else "cw"
    if dim == 2:
        meas, cen = abs(A), np.array([c2[0], c2[1], 0.0])
    else:
        meas, cen = abs(A) * case["ext"], np.array([c2[0], c2[1], case["ext"] / 2])
    L = float(np.max(np.abs(np.asarray(case["poly"])))) + 1.0
    el = case["elem"]
    stage = "initial"
    cenref = cen[None, :]
    nsym = 0
    for mo in [None] + case["motions"]:
        if mo is not None:
            cenref = apply_motion(mesh, mo, cenref)
            stage = "after-" + mo["t"]
            nsym += mo["t"] == "symmetry"
        m = measure_of(mesh, dim)
        res(out, i, "measure:%s:%s" % (el, stage), "measure:%s:%s" % (el, stage), abs(m - meas) <= TOL * meas,
            "%s mesh (%d elements) %s: measure %.15g, exact %.15g" % (el, mesh.Ne, stage, m, meas), m, meas)
        c = np.asarray(mesh.center, float)
        res(out, i, "center:%s:%s" % (el, stage), "center:%s:%s" % (el, stage), rel(c, cenref[0], L) <= TOL,
            "%s mesh %s: center %s, exact %s" % (el, stage, c.tolist(), cenref[0].tolist()), c.tolist(), cenref[0].tolist())
        if dim == 2:
            # the element frame of _Get_sysCoord_e against its model (C08_frame.v): i = unit(X1 - X0), k = unit(i x (Xn - X0)),
            # j = k x i with n = 2 (TRI) / 3 (QUAD); third frame coordinate constant on each (planar) element
            Xc = np.asarray(mesh.coord)
            for g in main_groups(mesh):
                conn = np.asarray(g.connect)
                n2 = 2 if g.elemType.name.startswith("TRI") else 3
                unit = lambda v: v / np.linalg.norm(v, axis=1)[:, None]
                im = unit(Xc[conn[:, 1]] - Xc[conn[:, 0]])
                km = unit(np.cross(im, unit(Xc[conn[:, n2]] - Xc[conn[:, 0]])))
                jm = np.cross(km, im)
                P = np.asarray(g._Get_sysCoord_e())
                dfr = float(max(np.abs(P[:, :, 0] - im).max(), np.abs(P[:, :, 1] - jm).max(), np.abs(P[:, :, 2] - km).max()))
                proj = np.einsum("end,edc->enc", Xc[conn], P)
                dz = float(np.abs(proj[:, :, 2] - proj[:, :1, 2]).max()) / L
                res(out, i, "syscoord-frame:%s" % g.elemType.name, "frame:%s:%s" % (g.elemType.name, stage), dfr <= 1e-12 and dz <= 1e-12,
                    "%s %s: element frame of _Get_sysCoord_e vs the model (i, k x i, k): max difference %.2e; third frame coordinate varies by %.2e (relative) inside an element" % (
                        g.elemType.name, stage, dfr, dz), [dfr, dz], [0, 0])
        inplane = dim == 3 or (mo is None) or all(abs(float(z)) < 1e-13 for z in np.asarray(mesh.coord)[:, 2])
        if dim == 2:
            # the element normal field integrates to the area (embedded Jacobian consistent)
            from EasyFEA.FEM import MatrixType
            Nvec = np.zeros(3)
            for g in main_groups(mesh):
                n = np.asarray(g.Get_normals_e_pg(MatrixType.mass, normalize=False))
                Nvec += np.einsum("epd,p->d", n, g.Get_weight_pg(MatrixType.mass))
            Nn = np.linalg.norm(Nvec)
            res(out, i, "surface-normal-integral:%s:%s" % (el, stage), "surfnormal:%s:%s" % (el, stage), abs(Nn - meas) <= TOL * meas,
                "%s %s: |sum of integrated element normals| %.15g, area %.15g" % (el, stage, Nn, meas), Nn, meas)
        if inplane:
            N, flux, per = boundary_integrals(mesh, dim)
            kind = "%dD:%s-contour%s" % (dim, orient, ":mirrored" if nsym % 2 else "")
            scale = meas / L
            res(out, i, "normals-open:" + kind, "closed:%s:%s:%s" % (el, kind, stage), np.max(np.abs(N)) <= 1e-9 * max(scale, 1.0),
                "%s %s boundary groups %s: integral of the normal over the whole boundary = %s (must vanish)" % (el, kind, [p[:2] for p in per], N.tolist()),
                N.tolist(), [0, 0, 0])
            res(out, i, "normals-flux:" + kind, "fluxabs:%s:%s:%s" % (el, kind, stage), abs(abs(flux) - dim * meas) <= 1e-9 * dim * meas,
                "%s %s: |flux of x through the boundary| = %.15g, dim*measure = %.15g" % (el, kind, abs(flux), dim * meas), flux, dim * meas)
            res(out, i, "normals-inward:" + kind, "fluxsign:%s:%s" % (el, kind), flux > 0,
                "%s %s: flux of x through the boundary = %.15g; outward normals give +%.15g" % (el, kind, flux, dim * meas), flux, dim * meas)
    if dim == 3 and case.get("reconstruct", True):
        from EasyFEA.Utilities import MeshIO
        from EasyFEA.FEM import Mesh
        m2 = MeshIO.Surface_reconstruction(Mesh({g3.elemType: g3 for g3 in main_groups(mesh)}))
        N, flux, per = boundary_integrals(m2, 3)
        V = m2.volume
        kind = "3D:reconstructed%s" % (":mirrored" if nsym % 2 else "")
        res(out, i, "normals-open:" + kind, "closed:%s:%s" % (el, kind), np.max(np.abs(N)) <= 1e-9 * max(V / L, 1.0),
            "%s Surface_reconstruction %s: integral of the normal = %s" % (el, stage, N.tolist()), N.tolist(), [0, 0, 0])
        res(out, i, "normals-flux:" + kind, "fluxabs:%s:%s" % (el, kind), abs(abs(flux) - 3 * V) <= 1e-9 * 3 * V,
            "%s Surface_reconstruction %s: |flux| %.15g vs 3V %.15g" % (el, stage, abs(flux), 3 * V), flux, 3 * V)
        res(out, i, "normals-inward:" + kind, "fluxsign:%s:%s" % (el, kind), flux > 0,
            "%s Surface_reconstruction %s (%d reflections applied): flux %.15g, outward gives +%.15g" % (el, stage, nsym, flux, 3 * V), flux, 3 * V)


# ------------------------------------------------------------------ polynomial fields
def poly_field(coefs):
    """coefs: list of (c, (a, b, c)) exponents."""
    def f(P):
        P = np.asarray(P, float)
        v = np.zeros(len(P))
        for c, e in coefs:
            v += c * P[:, 0] ** e[0] * P[:, 1] ** e[1] * P[:, 2] ** e[2]
        return v
    return f


def evaluate(mesh, f, pts, tol, scale):
    u = f(mesh.coord)
    try:
        with warnings.catch_warnings():
            warnings.simplefilter("ignore")
            r = np.asarray(mesh.Evaluate_dofsValues_at_coordinates(np.asarray(pts, float), u)).ravel()
    except Exception as ex:
        return False, "raises %s: %s" % (type(ex).__name__, str(ex)[:120]), None
    ex = f(pts)
    err = float(np.max(np.abs(r - ex)) / scale)
    k = int(np.argmax(np.abs(r - ex)))
    return err <= tol, "max error %.3e (relative to %.3g) at point %s: got %.12g, exact %.12g" % (err, scale, np.asarray(pts)[k].tolist(), r[k], ex[k]), err


def query_pool(mesh, rng, n):
    """interior points (convex combinations of the vertices of random elements), mesh nodes,
    edge midpoints — all inside the closed mesh by construction."""
    gs = main_groups(mesh)
    X = np.asarray(mesh.coord)
    inter, nodes, edges = [], [], []
    for _ in range(n):
        g = gs[int(rng.integers(0, len(gs)))]
        conn = np.asarray(g.connect)
        nv = g.Nvertex
        seg = np.asarray(g.segments)
        e = int(rng.integers(0, g.Ne))
        w = rng.dirichlet(np.ones(nv))
        if g.elemType.name.startswith(("QUAD", "HEXA", "PRISM")):
            # stay well inside: convex combination of vertices is inside a convex element
            w = 0.5 * w + 0.5 / nv
        inter.append(w @ X[conn[e, :nv]])
        nodes.append(X[conn[e, int(rng.integers(0, g.nPe))]])
        sg = seg[int(rng.integers(0, len(seg)))]
        edges.append(0.5 * (X[conn[e, sg[0]]] + X[conn[e, sg[-1]]]))
    return np.array(inter), np.array(nodes), np.array(edges)


def run_batches(i, out, mesh, f, pools, el, tag, tol, dim, rng, sizes):
    scale = max(1.0, float(np.max(np.abs(f(mesh.coord)))))
    for pname, pool in pools.items():
        for k in sizes:
            idx = rng.choice(len(pool), size=min(k, len(pool)), replace=False)
            ok, what, err = evaluate(mesh, f, pool[idx], tol, scale)
            kind = "crash" if what.startswith("raises") else "value"
            res(out, i, "locate-%s:%s:%s" % (kind, el, tag), "locate:%s:%s:%s:%d" % (el, tag, pname, k), ok,
                "%s %s, %d %s point(s): %s" % (el, tag, k, pname, what), err, 0)


def case_locate_gmsh(i, case, out):
    rng = np.random.default_rng(case["seed"])
    mesh, dim = build_mesh(case)
    if mixed_tag(mesh):
        res(out, i, "info", "mixed-mesh:%s%s" % (case["elem"], mixed_tag(mesh)), True, "gmsh produced a mixed mesh %s for %s" % (mixed_tag(mesh), case["elem"]))
    f = poly_field(case["field"])
    el = case["elem"]
    tol = TOL_ITER if case["iterative"] else TOL
    pts = None
    for mo in [None] + case["motions"]:
        tag = "gmsh:" + ("initial" if mo is None else "after-" + mo["t"])
        if mo is not None:
            apply_motion(mesh, mo, np.zeros((1, 3)))
        inter, nodes, edges = query_pool(mesh, rng, 60)
        run_batches(i, out, mesh, f, {"interior": inter, "node": nodes, "edge": edges}, el, tag, tol, dim, rng, case["sizes"])


def place_nodes(name, verts):
    """nodes of a straight-sided element of type `name` on the vertices `verts` of its linear parent."""
    g, et = blank_group(name)
    gp, _ = blank_group(parent_of(name))
    loc = np.asarray(g.Get_Local_Coords(), float)
    Np = np.asarray(gp._N(), dtype=object)
    V = np.asarray(verts, float)
    X = np.zeros((len(loc), 3))
    for k, xi in enumerate(loc):
        w = np.array([Np[j, 0](*xi) for j in range(len(V))], float)
        X[k] = w @ V
    return X, et, g.dim


def case_locate_single(i, case, out):
    Mesher, ElemType, Points, Point, Mesh, MatrixType, F = _imports()
    rng = np.random.default_rng(case["seed"])
    el = case["elem"]
    X, et, dim = place_nodes(el, case["verts"])
    mesh = Mesh({et: F.Create(et, np.arange(len(X)).reshape(1, -1), X)})
    f = poly_field(case["field"])
    tag = case["shape"]
    if case.get("mirror"):
        mesh.Symmetry(case["mirror"]["point"], case["mirror"]["n"])
        tag += ":mirrored"
    for mo in case.get("embed", []):
        # rotation about a non-z axis / reflection through a skew plane: the 2-D element leaves the plane z = 0
        apply_motion(mesh, mo, np.zeros((1, 3)))
        tag += ":embedded-" + mo["t"]
    nv = mesh.groupElem.Nvertex
    Xv = np.asarray(mesh.coord)[:nv]
    W = rng.dirichlet(np.ones(nv), size=60) * 0.6 + 0.4 / nv
    inter = W @ Xv
    nodes = np.asarray(mesh.coord)[rng.integers(0, len(X), 60)]
    seg = np.asarray(mesh.groupElem.segments)
    ss = seg[rng.integers(0, len(seg), 60)]
    edges = 0.5 * (np.asarray(mesh.coord)[ss[:, 0]] + np.asarray(mesh.coord)[ss[:, -1]])
    tol = TOL_ITER if case["iterative"] else TOL
    run_batches(i, out, mesh, f, {"interior": inter, "node": nodes, "edge": edges}, el, tag, tol, dim, rng, case["sizes"])


def case_outside(i, case, out):
    """points outside a single (rotated) element but inside its bounding box must not be located."""
    Mesher, ElemType, Points, Point, Mesh, MatrixType, F = _imports()
    rng = np.random.default_rng(case["seed"])
    el = case["elem"]
    X, et, dim = place_nodes(el, case["verts"])
    mesh = Mesh({et: F.Create(et, np.arange(len(X)).reshape(1, -1), X)})
    g = mesh.groupElem
    gp, _ = blank_group(parent_of(el))
    Np = np.asarray(gp._N(), dtype=object)
    V = np.asarray(case["verts"], float)
    bad = []
    pts = []
    for xi in case["xi_out"]:
        w = np.array([Np[j, 0](*xi) for j in range(len(V))], float)
        pts.append(w @ V)
    pts = np.array(pts)
    lo, hi = np.asarray(g.coord).min(0), np.asarray(g.coord).max(0)
    inbox = np.all((pts >= lo - 1e-12) & (pts <= hi + 1e-12), axis=1)
    idx = g.Get_pointsInElem(pts, 0)
    for k in idx:
        bad.append((case["xi_out"][int(k)], pts[int(k)].tolist()))
    res(out, i, "pointin-accepts-outside:%s" % el, "outside:%s" % el, len(bad) == 0,
        "%s: %d of %d points OUTSIDE the element (reference coordinates %s ...) accepted by Get_pointsInElem (%d of them inside the bounding box)" % (
            el, len(bad), len(pts), [b[0] for b in bad[:2]], int(inbox.sum())), [b[0] for b in bad[:4]], [])


# ------------------------------------------------------------------ purity of the geometry queries
def _snap(mesh):
    return mesh.coord.copy(), {et.name: np.array(g.coord, copy=True) for et, g in mesh.dict_groupElem.items()}


def _same(a, b):
    if isinstance(a, (tuple, list)):
        return len(a) == len(b) and all(_same(x, y) for x, y in zip(a, b))
    if a is None or b is None:
        return a is b
    a, b = np.asarray(a), np.asarray(b)
    if (a.dtype == object or b.dtype == object) and (a.ndim == 0 or b.ndim == 0):
        return a.shape == b.shape and bool(a.item() == b.item())
    if a.dtype == object or b.dtype == object:
        return a.shape == b.shape and all(_same(x, y) for x, y in zip(a.ravel(), b.ravel()))
    return a.shape == b.shape and np.array_equal(a, b, equal_nan=True)


def _coords_changed(mesh, snap):
    bad = []
    if not np.array_equal(mesh.coord, snap[0]):
        bad.append("mesh.coord (max |d| %.3e)" % float(np.abs(mesh.coord - snap[0]).max()))
    for et, g in mesh.dict_groupElem.items():
        if not np.array_equal(np.asarray(g.coord), snap[1][et.name]):
            bad.append("%s.coord (max |d| %.3e)" % (et.name, float(np.abs(np.asarray(g.coord) - snap[1][et.name]).max())))
    return bad


def deformation(mesh, seed):
    """smooth, non-affine displacement field of moderate size, (Nn, 3); in-plane for planar meshes"""
    rng = np.random.default_rng(seed)
    X = np.asarray(mesh.coord)
    a = rng.uniform(-0.05, 0.05, size=(3, 3))
    b = rng.uniform(0.02, 0.06, size=3)
    U = X @ a.T + np.stack([b[0] * np.sin(X[:, 1]), b[1] * np.cos(X[:, 0]), b[2] * np.sin(X[:, 0] + X[:, 1])], axis=1)
    if mesh.inDim == 2:
        U[:, 2] = 0.0
    return U


def query_families(mesh, U, pts, field_values):
    """(name, thunk) for every geometry query family exercised by this harness, with and without the
    deformed-configuration option."""
    Mesher, ElemType, Points, Point, Mesh, MatrixType, F = _imports()
    dim = mesh.dim
    mains = main_groups(mesh)
    qs = []
    mt = MatrixType.mass
    groups = [(g.elemType.name, g) for g in mains] + [(b.elemType.name, b) for b in mesh.Get_list_groupElem(dim - 1)]
    for nm, gr in groups:
        if gr.dim in (1, 2):
            qs.append(("Get_normals_e_pg:%s" % nm, lambda gr=gr: gr.Get_normals_e_pg(mt)))
            qs.append(("Get_normals_e_pg:displacementMatrix:%s" % nm, lambda gr=gr: gr.Get_normals_e_pg(mt, U)))
            qs.append(("Get_normals_e_pg:displacementMatrix:raw:%s" % nm, lambda gr=gr: gr.Get_normals_e_pg(mt, U, normalize=False)))
            qs.append(("_Get_sysCoord_e:%s" % nm, lambda gr=gr: gr._Get_sysCoord_e()))
            qs.append(("_Get_sysCoord_e:displacementMatrix:%s" % nm, lambda gr=gr: gr._Get_sysCoord_e(U)))
        qs.append(("Get_GaussCoordinates_e_pg:%s" % nm, lambda gr=gr: gr.Get_GaussCoordinates_e_pg(mt)))
        qs.append(("Get_GaussCoordinates_e_pg:displacementMatrix:%s" % nm, lambda gr=gr: gr.Get_GaussCoordinates_e_pg(mt, displacementMatrix=U)))
        qs.append(("jacobian/F/invF:%s" % nm, lambda gr=gr: (gr.Get_jacobian_e_pg(mt), gr.Get_F_e_pg(mt), gr.Get_invF_e_pg(mt))))
        qs.append(("Integrate_e:%s" % nm, lambda gr=gr: gr.Integrate_e(lambda x, y, z: x + 2 * y - z, mt)))
    qs.append(("Mesh.Get_normals", lambda: mesh.Get_normals()))
    qs.append(("Mesh.Get_normals:displacementMatrix", lambda: mesh.Get_normals(displacementMatrix=U)))
    qs.append(("measure/center", lambda: ((mesh.area if dim == 2 else mesh.volume), mesh.center, [g.center for g in mains])))
    qs.append(("Get_Mapping", lambda: [g.Get_Mapping(pts, needCoordinates=True) for g in mains]))
    qs.append(("Evaluate_dofsValues_at_coordinates", lambda: mesh.Evaluate_dofsValues_at_coordinates(pts, field_values)))
    return qs


def case_purity(i, case, out):
    rng = np.random.default_rng(case["seed"])
    mesh, dim = build_mesh(case)
    el = case["elem"]
    U = deformation(mesh, case["seed"])
    inter, nodes, edges = query_pool(mesh, rng, 6)
    pts = np.vstack([inter, nodes[:2], edges[:2]])
    X0 = mesh.coord.copy()
    fv = 1 + X0[:, 0] - 2 * X0[:, 1] + 0.5 * X0[:, 2]
    snap = _snap(mesh)
    meas0 = measure_of(mesh, dim)
    for name, q in query_families(mesh, U, pts, fv):
        fam = name.rsplit(":", 1)[0] if name.split(":")[-1].isupper() or name.split(":")[-1][:3] in ("SEG", "TRI", "QUA", "TET", "HEX", "PRI") else name
        try:
            with warnings.catch_warnings():
                warnings.simplefilter("ignore")
                r1 = q()
                ch1 = _coords_changed(mesh, snap)
                r2 = q()
                ch2 = _coords_changed(mesh, snap)
        except Exception as ex:
            res(out, i, "purity:raises:%s" % fam, "purity:%s:%s" % (el, name), False, "%s mesh, query %s raises %s: %s" % (el, name, type(ex).__name__, str(ex)[:150]))
            continue
        ch = ch1 or ch2
        res(out, i, "purity:coordinates-changed:%s" % fam, "purity:%s:%s" % (el, name), not ch,
            "%s mesh: after the read-only query %s the stored coordinates %s" % (el, name, "differ: " + "; ".join(ch) if ch else "are bit-identical"),
            ch, [])
        rep = _same(r1, r2)
        res(out, i, "purity:not-repeatable:%s" % fam, "repeat:%s:%s" % (el, name), rep,
            "%s mesh: the query %s repeated on the same mesh returns %s" % (el, name, "the same values" if rep else "DIFFERENT values"))
        if ch:   # restore, so that the next query family is judged on its own
            for gg in mesh.dict_groupElem.values():
                gg.coord = snap[0].copy()
    m1 = measure_of(mesh, dim)
    res(out, i, "purity:measure-after-queries", "purity-measure:%s" % el, abs(m1 - meas0) <= TOL * meas0,
        "%s mesh: measure after all queries %.15g, before %.15g" % (el, m1, meas0), m1, meas0)


def explicit_copy(mesh, Xnew):
    Mesher, ElemType, Points, Point, Mesh, MatrixType, F = _imports()
    return Mesh({et: F.Create(et, np.asarray(g.connect), np.asarray(Xnew, float).copy()) for et, g in mesh.dict_groupElem.items()})


def case_deformed(i, case, out):
    """the deformed-configuration option (displacementMatrix = U) against the same query on a mesh
    whose coordinates were explicitly set to X + U; each query is issued twice."""
    Mesher, ElemType, Points, Point, Mesh, MatrixType, F = _imports()
    mesh, dim = build_mesh(case)
    el = case["elem"]
    U = deformation(mesh, case["seed"])
    X = mesh.coord.copy()
    ref = explicit_copy(mesh, X + U)
    mt = MatrixType.mass
    L = float(np.abs(X).max()) + 1.0
    groups = [(g.elemType, g) for g in main_groups(mesh) + list(mesh.Get_list_groupElem(dim - 1))]
    for et, g in groups:
        g2 = ref.dict_groupElem[et]
        qs = [("Get_GaussCoordinates_e_pg", lambda: g.Get_GaussCoordinates_e_pg(mt, displacementMatrix=U), lambda: g2.Get_GaussCoordinates_e_pg(mt), L)]
        if g.dim in (1, 2) and (g.dim == 2 or mesh.inDim == 2):
            qs += [("Get_normals_e_pg", lambda: g.Get_normals_e_pg(mt, U), lambda: g2.Get_normals_e_pg(mt), 1.0),
                   ("Get_normals_e_pg:raw", lambda: g.Get_normals_e_pg(mt, U, normalize=False), lambda: g2.Get_normals_e_pg(mt, normalize=False), L),
                   ("_Get_sysCoord_e", lambda: g._Get_sysCoord_e(U), lambda: g2._Get_sysCoord_e(), 1.0)]
        for name, q, qref, scale in qs:
            expv = np.asarray(qref())
            for call in ("first", "second"):
                v = np.asarray(q())
                err = float(np.abs(v - expv).max() / scale)
                res(out, i, "deformed:%s:%s-call" % (name, call), "deformed:%s:%s:%s:%s" % (el, et.name, name, call), err <= TOL,
                    "%s mesh, group %s: %s with displacementMatrix=U (%s call) vs the same query on the mesh with coordinates X+U: max difference %.3e" % (el, et.name, name, call, err),
                    err, 0)
    n_ref, nodes_ref = ref.Get_normals()
    for call in ("first", "second"):
        n, nodes = mesh.Get_normals(displacementMatrix=U)
        ok = np.array_equal(nodes, nodes_ref) and float(np.abs(n - n_ref).max()) <= TOL
        res(out, i, "deformed:Mesh.Get_normals:%s-call" % call, "deformed:%s:Mesh.Get_normals:%s" % (el, call), ok,
            "%s mesh: Mesh.Get_normals(displacementMatrix=U) (%s call) vs Get_normals() of the mesh with coordinates X+U: max difference %.3e" % (
                el, call, float(np.abs(n - n_ref).max()) if n.shape == n_ref.shape else float("nan")))
    ch = float(np.abs(mesh.coord - X).max())
    res(out, i, "purity:coordinates-changed:displacementMatrix-queries", "deformed-pure:%s" % el, ch == 0.0,
        "%s mesh: after the deformed-configuration queries mesh.coord moved by %.3e" % (el, ch), ch, 0)


# ------------------------------------------------------------------ orientation of the `faces` tables
FACE_TYPE = {3: "TRI3", 6: "TRI6", 4: "QUAD4", 8: "QUAD8", 9: "QUAD9"}


def face_table_checks(i, out, mesh, el, stage):
    Mesher, ElemType, Points, Point, Mesh, MatrixType, F = _imports()
    from EasyFEA.Utilities import MeshIO
    X = np.asarray(mesh.coord)
    mt = MatrixType.mass
    for g in main_groups(mesh):
        gel = g.elemType.name
        conn = np.asarray(g.connect)
        sdet = np.sign(np.asarray(g.Get_jacobian_e_pg(mt, absoluteValues=False))[:, 0])
        cen_e = X[conn].mean(1)
        bad = []
        for k, row in enumerate(g.faces):
            row = [int(a) for a in row]
            gf = F.Create(getattr(ElemType, FACE_TYPE[len(row)]), conn[:, row], X)
            n = np.einsum("epd,p->ed", np.asarray(gf.Get_normals_e_pg(mt, normalize=False)), gf.Get_weight_pg(mt))
            outv = X[conn[:, row]].mean(1) - cen_e
            sg = np.sign(np.einsum("ed,ed->e", n, outv))
            if np.any(sg * sdet <= 0):
                bad.append((k, row))
        res(out, i, "faces-table-orientation:%s" % gel, "facesorient:%s:%s" % (gel, stage), not bad,
            "%s (%s, %d element(s), det J %s): right-hand-rule normal of the `faces` rows %s points %s" % (
                gel, stage, g.Ne, "> 0" if sdet[0] > 0 else "< 0", [b[1] for b in bad] if bad else "all",
                "INTO the element while the other rows point out (for det J > 0)" if bad else "out of the element for det J > 0 (into it for det J < 0), consistently"),
            [b[0] for b in bad], [])
    m2 = MeshIO.Surface_reconstruction(Mesh({g.elemType: g for g in main_groups(mesh)}))
    # conformity predicate of C08_conform.v (mesh_interior_faces_cancel): the oriented corner cycles of
    # all element faces, written smallest vertex first, contain no duplicate; the faces without
    # reversed partner are exactly the boundary elements Surface_reconstruction creates
    def canon(c):
        k = c.index(min(c))
        return tuple(c[k:] + c[:k])
    def rev(c):
        return (c[0],) + tuple(reversed(c[1:]))
    F = []
    for g in main_groups(mesh):
        conn = np.asarray(g.connect)
        for row in g.faces:
            nc = 3 if len(row) in (3, 6) else 4
            for e in range(g.Ne):
                F.append(canon([int(conn[e, int(a)]) for a in list(row)[:nc]]))
    S = set(F)
    dup = len(F) - len(S)
    bndF = set(tuple(sorted(f)) for f in S if rev(f) not in S)
    recon = set()
    for gb in m2.Get_list_groupElem(2):
        nv = gb.Nvertex
        for r in np.asarray(gb.connect):
            recon.add(tuple(sorted(int(a) for a in r[:nv])))
    res(out, i, "mesh-conformity:%s" % el, "conform:%s:%s" % (el, stage), dup == 0 and bndF == recon,
        "%s (%s): %d oriented element faces, %d duplicated (conformity needs 0); faces without reversed partner %d, boundary elements of Surface_reconstruction %d, same sets: %s" % (
            el, stage, len(F), dup, len(bndF), len(recon), bndF == recon), [dup, len(bndF)], [0, len(recon)])
    N, flux, per = boundary_integrals(m2, 3)
    V = mesh.volume
    L = float(np.abs(X).max()) + 1.0
    ok = np.max(np.abs(N)) <= 1e-9 * max(V / L, 1e-3) and abs(abs(flux) - 3 * V) <= 1e-9 * 3 * V
    res(out, i, "faces-table-closure:%s" % el, "facesclosed:%s:%s" % (el, stage), ok,
        "%s (%s): boundary rebuilt by Surface_reconstruction from the `faces` table: integral of the normal %s (must vanish), |flux of x| %.12g vs 3*volume %.12g" % (
            el, stage, np.round(N, 12).tolist(), abs(flux), 3 * V), [N.tolist(), flux], [[0, 0, 0], 3 * V])


def case_faces(i, case, out):
    Mesher, ElemType, Points, Point, Mesh, MatrixType, F = _imports()
    el = case["elem"]
    if case.get("gmsh"):
        mesh, dim = build_mesh(case)
    else:
        X, et, dim = place_nodes(el, case["verts"])
        n = len(X)
        # two copies of the element, the second translated: element 1 is not element 0
        X2 = np.vstack([X, X + np.array(case.get("shift", [5.0, 1.0, 0.5]))])
        mesh = Mesh({et: F.Create(et, np.vstack([np.arange(n), np.arange(n) + n]), X2)})
    face_table_checks(i, out, mesh, el, "as-built")
    for mo in case["motions"]:
        apply_motion(mesh, mo, np.zeros((1, 3)))
        face_table_checks(i, out, mesh, el, "after-" + mo["t"])


# ------------------------------------------------------------------ query / move / query sequences
def transform_points(mo, pts):
    pts = np.asarray(pts, float)
    if mo["t"] == "translate":
        return pts + np.array(mo["d"], float)
    if mo["t"] == "rotate":
        R = rotmat(mo["dir"], mo["theta"] * np.pi / 180)
        c = np.array(mo["center"], float)
        return (pts - c) @ R.T + c
    if mo["t"] == "symmetry":
        n = np.array(mo["n"], float) / np.linalg.norm(mo["n"])
        p = np.array(mo["point"], float)
        return pts - 2 * ((pts - p) @ n)[:, None] * n
    raise ValueError(mo)


def case_sequence(i, case, out):
    """locate -> move the SAME mesh object -> locate again, ...; each time compared with the exact
    field and with a freshly built mesh at the moved coordinates.  Steps: translate / rotate /
    symmetry through the Mesh methods, `setcoord` (mesh.coord = transformed array) and `deepcopy`
    (the copy is moved and queried, the original is queried again where it was)."""
    import copy
    Mesher, ElemType, Points, Point, Mesh, MatrixType, F = _imports()
    rng = np.random.default_rng(case["seed"])
    el = case["elem"]
    if case.get("verts") is not None:
        X, et, dim = place_nodes(el, case["verts"])
        n = len(X)
        X2 = np.vstack([X, X + np.array([5.0, 1.0, 0.5 if dim == 3 else 0.0])])
        mesh = Mesh({et: F.Create(et, np.vstack([np.arange(n), np.arange(n) + n]), X2)})
    else:
        mesh, dim = build_mesh(case)
    tol = TOL_ITER if case["iterative"] else TOL
    fcoef = case["field"]
    nsym = 0

    def probe(m, tag, key):
        f = poly_field(fcoef)
        inter, nodes, edges = query_pool(m, rng, 6)
        pts = np.vstack([inter, nodes[:3], edges[:3]])
        scale = max(1.0, float(np.max(np.abs(f(m.coord)))))
        ok, what, err = evaluate(m, f, pts, tol, scale)
        res(out, i, key, "seq:%s:%s" % (el, tag), ok, "%s, same mesh object, %s: %s" % (el, tag, what), err, 0)
        fresh = explicit_copy(m, m.coord)
        try:
            with warnings.catch_warnings():
                warnings.simplefilter("ignore")
                a = np.asarray(m.Evaluate_dofsValues_at_coordinates(pts, f(m.coord))).ravel()
                b = np.asarray(fresh.Evaluate_dofsValues_at_coordinates(pts, f(fresh.coord))).ravel()
            d = float(np.max(np.abs(a - b)) / scale)
            k = int(np.argmax(np.abs(a - b)))
            res(out, i, key.replace("locate-after-move", "locate-vs-fresh-mesh"), "seqfresh:%s:%s" % (el, tag), d <= 10 * tol,
                "%s, %s: Evaluate on the moved mesh object vs on a freshly built mesh with the same coordinates: max difference %.3e at %s (moved object %.12g, fresh %.12g)" % (
                    el, tag, d, pts[k].tolist(), a[k], b[k]), d, 0)
        except Exception as ex:
            res(out, i, key.replace("locate-after-move", "locate-vs-fresh-mesh"), "seqfresh:%s:%s" % (el, tag), False, "%s, %s: raises %s: %s" % (el, tag, type(ex).__name__, str(ex)[:120]))

    probe(mesh, "step 0 (as built)", "locate-after-move:%s:initial" % el)
    for k, mo in enumerate(case["steps"]):
        kind = mo["t"]
        if kind == "setcoord":
            inner = mo["via"]
            nsym += inner["t"] == "symmetry"
            mesh.coord = transform_points(inner, mesh.coord)
            label = "mesh.coord=(%s)" % inner["t"]
        elif kind == "deepcopy":
            inner = mo["via"]
            cp = copy.deepcopy(mesh)
            apply_motion(cp, inner, np.zeros((1, 3)))
            par = (nsym + (inner["t"] == "symmetry")) % 2
            probe(cp, "step %d deepcopy then %s (copy, %s reflections)" % (k + 1, inner["t"], "odd" if par else "even"),
                  "locate-after-move:%s:deepcopy-%s:%s" % (el, inner["t"], "odd" if par else "even"))
            label = "deepcopy-original"
        else:
            nsym += kind == "symmetry"
            apply_motion(mesh, mo, np.zeros((1, 3)))
            label = kind
        par = "odd" if nsym % 2 else "even"
        probe(mesh, "step %d after %s (%s number of reflections so far)" % (k + 1, label, par), "locate-after-move:%s:%s:%s" % (el, label, par))


# ------------------------------------------------------------------ group-local row != global node id
SPLIT = {"QUAD4": ("TRI3", [[0, 1, 2], [0, 2, 3]]),
         "HEXA8": ("PRISM6", [[0, 1, 2, 4, 5, 6], [0, 2, 3, 4, 6, 7]])}


def renumbered_mesh(mesh, rng, variant):
    """a mesh with the same geometry whose groups do NOT use the coordinate rows 0..n-1 in order:
       'orphans'  : unused coordinate rows prepended / interspersed + random permutation of the numbering
       'permuted' : random permutation of the node numbering only
       'mixed'    : every other QUAD4 (HEXA8) split into two TRI3 (PRISM6): two groups of the main
                    dimension, each using a subset of the rows; plus orphans + permutation"""
    Mesher, ElemType, Points, Point, Mesh, MatrixType, F = _imports()
    X = np.asarray(mesh.coord)
    N = len(X)
    groups = {g.elemType.name: np.asarray(g.connect) for g in main_groups(mesh)}
    if variant == "mixed":
        out = {}
        for nm, conn in groups.items():
            if nm in SPLIT:
                tnm, rows = SPLIT[nm]
                sel = np.arange(len(conn)) % 2 == 0
                if sel.all():
                    sel[-1] = False
                parts = [conn[sel][:, r] for r in rows]
                out[tnm] = np.vstack([out[tnm]] + parts) if tnm in out else np.vstack(parts)
                if (~sel).any():
                    out[nm] = conn[~sel]
            else:
                out[nm] = np.vstack([out[nm], conn]) if nm in out else conn
        groups = out
    n_orph = 0 if variant == "permuted" else N // 3 + 3
    M = N + n_orph
    perm = rng.permutation(M)
    new_id = perm[:N]
    Xn = np.zeros((M, 3))
    lo, hi = X.min(0), X.max(0)
    Xn[perm[N:]] = lo + rng.random((n_orph, 3)) * (hi - lo)      # orphan rows lie INSIDE the bounding box
    Xn[new_id] = X
    return Mesh({getattr(ElemType, nm): F.Create(getattr(ElemType, nm), new_id[conn], Xn) for nm, conn in groups.items()})


def case_renumber(i, case, out):
    rng = np.random.default_rng(case["seed"])
    base, dim = build_mesh(case)
    el = case["elem"]
    f = poly_field(case["field"])
    tol = TOL_ITER if case["iterative"] else TOL
    for variant in case["variants"]:
        mesh = renumbered_mesh(base, rng, variant)
        tag = "%s%s" % (variant, mixed_tag(mesh))
        ident = all(np.array_equal(np.asarray(g.nodes), np.arange(len(np.asarray(g.nodes)))) for g in main_groups(mesh))
        scale = max(1.0, float(np.max(np.abs(f(mesh.coord)))))
        inter, nodes, edges = query_pool(mesh, rng, 8)
        pools = {"interior": inter, "node": nodes, "edge": edges}
        def ev(m, P):
            with warnings.catch_warnings():
                warnings.simplefilter("ignore")
                return np.asarray(m.Evaluate_dofsValues_at_coordinates(np.asarray(P, float), f(m.coord))).ravel()
        for pname, pts in pools.items():
            # reference = the SAME geometry with the original numbering (same elements or, for `mixed`,
            # the unsplit ones: the fields used there are linear): the answers must not depend on the numbering.
            # Single-point queries away from nodes are compared only between meshes with identical groups
            # (the candidate search of the library — nearest node — is a known, listed limitation).
            try:
                b0, bR = ev(base, pts), ev(mesh, pts)
                singles = pname == "node" or variant != "mixed"
                if singles:
                    s0 = np.array([ev(base, pts[k:k + 1])[0] for k in range(len(pts))])
                    sR = np.array([ev(mesh, pts[k:k + 1])[0] for k in range(len(pts))])
                else:
                    s0 = sR = np.zeros(0)
            except Exception as ex:
                res(out, i, "locate-renumbered:%s:%s" % (variant, el), "renum:%s:%s:%s" % (el, tag, pname), False,
                    "%s, numbering variant %s, %s points: raises %s: %s" % (el, tag, pname, type(ex).__name__, str(ex)[:150]))
                continue
            exact = f(pts)
            d = max(float(np.max(np.abs(bR - b0))), float(np.max(np.abs(sR - s0))) if len(sR) else 0.0) / scale
            if len(sR) and float(np.max(np.abs(sR - s0))) >= float(np.max(np.abs(bR - b0))):
                k = int(np.argmax(np.abs(sR - s0))); how = "queried alone"; vR, v0 = sR[k], s0[k]
            else:
                k = int(np.argmax(np.abs(bR - b0))); how = "in a batch of %d" % len(pts); vR, v0 = bR[k], b0[k]
            res(out, i, "locate-renumbered:%s:%s" % (variant, el), "renum:%s:%s:%s:%s" % (el, tag, pname, "id" if ident else "nonid"), d <= 10 * tol,
                "%s, numbering variant %s (group rows %s global ids), %s points: max difference to the same geometry with the original numbering %.3e at %s %s: got %.12g, original numbering %.12g, exact %.12g" % (
                    el, tag, "==" if ident else "!=", pname, d, pts[k].tolist(), how, vR, v0, exact[k]), d, 0)
            if len(sR):
                wrong = [k for k in range(len(pts)) if sR[k] != 0.0 and abs(sR[k] - bR[k]) > 10 * tol * scale]
                res(out, i, "locate-single-vs-batch:%s:%s" % (variant, el), "renum1:%s:%s:%s" % (el, tag, pname), not wrong,
                    "%s, variant %s, %s points: a located point gets %s value alone and inside a batch%s" % (
                        el, tag, pname, "the same" if not wrong else "a DIFFERENT",
                        "" if not wrong else " at %s (alone %.12g, in batch %.12g, exact %.12g)" % (pts[wrong[0]].tolist(), sR[wrong[0]], bR[wrong[0]], exact[wrong[0]])))
        # measure is a matter of geometry only
        m0, m1 = measure_of(base, dim), measure_of(mesh, dim)
        res(out, i, "measure-renumbered:%s:%s" % (variant, el), "renumM:%s:%s" % (el, tag), abs(m0 - m1) <= TOL * m0,
            "%s, variant %s: measure %.15g, same geometry with the original numbering %.15g" % (el, tag, m1, m0), m1, m0)


# ------------------------------------------------------------------ order independence
def observations(mesh):
    """measures / integrals / normals / centre of every group, through the public queries."""
    Mesher, ElemType, Points, Point, Mesh, MatrixType, F = _imports()
    dim = mesh.dim
    obs = {}
    for g in main_groups(mesh) + list(mesh.Get_list_groupElem(dim - 1)):
        nm = g.elemType.name
        for mt in (MatrixType.mass, MatrixType.rigi):
            obs["Integrate_e(1):%s:%s" % (nm, mt.name)] = np.asarray(g.Integrate_e(lambda x, y, z: 1, mt))
            obs["weightedJacobian:%s:%s" % (nm, mt.name)] = np.asarray(g.Get_weightedJacobian_e_pg(mt))
        obs["Integrate_e(x+2y-z):%s" % nm] = np.asarray(g.Integrate_e(lambda x, y, z: x + 2 * y - z, MatrixType.mass))
        obs["center:%s" % nm] = np.asarray(g.center)
        if g.dim in (1, 2):
            obs["normals:%s" % nm] = np.asarray(g.Get_normals_e_pg(MatrixType.mass))
    obs["measure"] = np.asarray(mesh.area if dim == 2 else mesh.volume)
    obs["center"] = np.asarray(mesh.center)
    return obs


def location_calls(mesh, rng):
    inter, nodes, edges = query_pool(mesh, rng, 4)
    pts = np.vstack([inter, nodes[:2], edges[:2]])
    X = np.asarray(mesh.coord)
    u = 1 + X[:, 0] - 2 * X[:, 1] + 0.5 * X[:, 2]
    with warnings.catch_warnings():
        warnings.simplefilter("ignore")
        for g in main_groups(mesh):
            g.Get_Mapping(pts, needCoordinates=True)
            g.Get_Mapping(pts[:1], needCoordinates=False)
        mesh.Evaluate_dofsValues_at_coordinates(pts, u)


def case_order(i, case, out):
    """the same observations (measures, integrals, centres, normals) (A) on a fresh mesh object and (B) on
    an identical fresh object AFTER point-location / mapping calls, and (C) on the object that went
    through the moves, after location calls: identical results required, on the plain, moved and
    mirrored configuration."""
    rng = np.random.default_rng(case["seed"])
    el = case["elem"]
    if case.get("verts") is not None:
        Mesher, ElemType, Points, Point, Mesh, MatrixType, F = _imports()
        X, et, dim = place_nodes(el, case["verts"])
        n = len(X)
        X2 = np.vstack([X, X + np.array([5.0, 1.0, 0.5 if dim == 3 else 0.0])])
        base = Mesh({et: F.Create(et, np.vstack([np.arange(n), np.arange(n) + n]), X2)})
    else:
        base, dim = build_mesh(case)
    nsym = 0
    for mo in [None] + case["motions"]:
        if mo is not None:
            apply_motion(base, mo, np.zeros((1, 3)))
            nsym += mo["t"] == "symmetry"
        stage = ("initial" if mo is None else "after-" + mo["t"]) + (":mirrored" if nsym % 2 else "")
        A = explicit_copy(base, base.coord)
        B = explicit_copy(base, base.coord)
        obsA = observations(A)
        location_calls(B, rng)
        obsB = observations(B)
        location_calls(base, rng)
        obsC = observations(base)
        for label, ob, how in (("locate-then-integrate", obsB, "a fresh mesh object on which points were located first"),
                               ("moved-object", obsC, "the mesh object that was moved through the Mesh methods, after point location")):
            bad = [(k, float(np.max(np.abs(ob[k] - obsA[k])))) for k in obsA if not (ob[k].shape == obsA[k].shape and np.array_equal(ob[k], obsA[k]))]
            # the moved object may differ by round-off of the incremental moves: compare it with tolerance
            if label == "moved-object":
                sc = float(np.max(np.abs(np.asarray(base.coord)))) + 1.0
                bad = [(k, d) for k, d in bad if d > 1e-9 * sc ** 3]
            res(out, i, "order-dependence:%s:%s" % (label, el), "order:%s:%s:%s" % (el, stage, label), not bad,
                "%s, %s: observations on %s vs the same observations on a fresh object (integrate first): %s" % (
                    el, stage, how, "identical" if not bad else "DIFFER: " + "; ".join("%s by %.3e (e.g. %s vs %s)" % (k, d, np.ravel(ob[k])[:1].tolist(), np.ravel(obsA[k])[:1].tolist()) for k, d in bad[:4])),
                [k for k, _ in bad], [])
        meas = float(obsB["measure"])
        res(out, i, "order-dependence:negative-measure:%s" % el, "orderpos:%s:%s" % (el, stage), meas > 0 and all(np.all(v > 0) for k, v in obsB.items() if k.startswith("Integrate_e(1)")),
            "%s, %s: measure after locate-then-integrate %.12g (element integrals of 1 must be positive)" % (el, stage, meas), meas, float(obsA["measure"]))


# ------------------------------------------------------------------ scaled twins (change of length unit)
def case_scaled(i, case, out):
    """the same scenario with all lengths multiplied by s: every observable must be the predicted power
    of s times the unit-scale observable, to a RELATIVE tolerance; unit normals stay unit normals."""
    Mesher, ElemType, Points, Point, Mesh, MatrixType, F = _imports()
    rng = np.random.default_rng(case["seed"])
    el = case["elem"]
    if case.get("verts") is not None:
        X, et, dim = place_nodes(el, case["verts"])
        n = len(X)
        X2 = np.vstack([X, X + np.array([5.0, 1.0, 0.5 if dim == 3 else 0.0])])
        base = Mesh({et: F.Create(et, np.vstack([np.arange(n), np.arange(n) + n]), X2)})
    else:
        base, dim = build_mesh(case)
    for mo in case.get("motions", []):
        apply_motion(base, mo, np.zeros((1, 3)))
    X0 = np.asarray(base.coord).copy()
    Lb = float(np.abs(X0).max())
    mt = MatrixType.mass
    tol = TOL_ITER if case["iterative"] else TOL
    fc = case["field"]
    inter, nodes, edges = query_pool(base, rng, 8)
    pools = {"interior": inter, "node": nodes, "edge": edges}

    def observe(m, s):
        ob = {"measure": (measure_of(m, dim), dim), "center": (np.asarray(m.center, float), 1)}
        N = np.zeros(3); flux = 0.0; unit = 0.0
        for g in m.Get_list_groupElem(dim - 1) if (dim == 3 or m.inDim == 2) else []:
            nrm = np.asarray(g.Get_normals_e_pg(mt))
            unit = max(unit, float(np.abs(np.linalg.norm(nrm, axis=2) - 1).max()))
            wJ = np.asarray(g.Get_weightedJacobian_e_pg(mt))
            xg = np.asarray(g.Get_GaussCoordinates_e_pg(mt))
            N += np.einsum("epd,ep->d", nrm, wJ)
            flux += float(np.einsum("epd,epd,ep->", nrm, xg, wJ))
        if dim == 2:
            for g in main_groups(m):
                nrm = np.asarray(g.Get_normals_e_pg(mt))
                unit = max(unit, float(np.abs(np.linalg.norm(nrm, axis=2) - 1).max()))
        ob["integrated-normal"] = (N, dim - 1)
        ob["flux"] = (flux, dim)
        ob["unit"] = unit
        vals = {}
        f = lambda P: poly_field(fc)(np.asarray(P, float) / s)      # the field in the scaled unit of length
        for pname, pts in pools.items():
            with warnings.catch_warnings():
                warnings.simplefilter("ignore")
                u = f(m.coord)
                b = np.asarray(m.Evaluate_dofsValues_at_coordinates(pts * s, u)).ravel()
                sg = np.array([float(np.asarray(m.Evaluate_dofsValues_at_coordinates(pts[k:k + 1] * s, u)).ravel()[0]) for k in range(3)])
            vals[pname] = (b, sg)
        ob["values"] = vals
        return ob
    ob0 = observe(base, 1.0)
    fscale = max(float(np.max(np.abs(poly_field(fc)(X0)))), 1e-300)
    for s in case["scales"]:
        cls = "small" if s < 1 else "large"
        for how in ("fresh", "setter"):
            if how == "fresh":
                m = explicit_copy(base, X0 * s)
            else:
                import copy
                m = copy.deepcopy(base)
                m.coord = X0 * s
            try:
                ob = observe(m, s)
            except Exception as ex:
                kind, where = classify_exception(ex)
                res(out, i, "scaled:raises:%s:%s" % (cls, el), "scaled:%s:%g:%s" % (el, s, how), False,
                    "%s, lengths x %g (%s): raises %s: %s (at %s)" % (el, s, how, type(ex).__name__, str(ex)[:120], where))
                if kind != "impl":
                    out[-1]["harness_error"] = True
                continue
            for name in ("measure", "center", "integrated-normal", "flux"):
                v0, pw = ob0[name]
                v = ob[name][0]
                ref = np.asarray(v0, float) * s ** pw
                nat = (Lb * s) ** pw if name != "measure" else abs(float(ob0["measure"][0])) * s ** pw     # natural magnitude of the quantity
                if name in ("integrated-normal", "flux"):
                    nat = abs(float(ob0["measure"][0])) / Lb * (Lb * s) ** pw / Lb ** (pw - (dim - 1)) if False else (Lb * s) ** pw
                d = float(np.max(np.abs(np.asarray(v, float) - ref))) / nat
                res(out, i, "scaled:%s:%s:%s" % (name, cls, el), "scaled:%s:%s:%g:%s" % (el, name, s, how), d <= 1e-9,
                    "%s, lengths x %g (%s): %s = %s, unit-scale value x s^%d = %s (relative difference %.2e)" % (
                        el, s, how, name, np.round(np.asarray(v, float) / s ** pw, 12).tolist(), pw, np.round(np.asarray(v0, float), 12).tolist(), d), d, 0)
            res(out, i, "scaled:unit-normals:%s:%s" % (cls, el), "scaled:%s:unit:%g:%s" % (el, s, how), ob["unit"] <= 1e-12,
                "%s, lengths x %g (%s): max over all Gauss points of | |n| - 1 | = %.3e for the normals of Get_normals_e_pg" % (el, s, how, ob["unit"]), ob["unit"], 0)
            for pname in pools:
                b0, s0 = ob0["values"][pname]
                b, sg = ob["values"][pname]
                d = max(float(np.max(np.abs(b - b0))), float(np.max(np.abs(sg - s0)))) / fscale
                k = int(np.argmax(np.abs(b - b0)))
                res(out, i, ("scaled:locate:large:membership-slack" if (cls == "large" and float(np.min(np.abs(np.concatenate([b, sg])))) == 0.0 and d > 10 * tol) else
                             ("scaled:locate:%s:iterative-inverse-map" % cls) if case["iterative"] else "scaled:locate:%s:affine:%s" % (cls, el)), "scaled:%s:loc:%s:%g:%s" % (el, pname, s, how), d <= 10 * tol,
                    "%s, lengths x %g (%s), %s points (batch of %d and 3 single queries), field f(x/s): max difference to the unit-scale answers %.3e (relative to max|f|) e.g. at %s: %.12g vs %.12g" % (
                        el, s, how, pname, len(b), d, (pools[pname][k] * s).tolist(), b[k], b0[k]), d, 0)


CASES = {"scaled": case_scaled, "renumber": case_renumber, "order": case_order, "sequence": case_sequence, "purity": case_purity, "deformed": case_deformed, "faces": case_faces, "geom": case_geom, "locate_gmsh": case_locate_gmsh, "locate_single": case_locate_single, "outside": case_outside}


def classify_exception(ex):
    """'impl' when the exception was raised inside an EasyFEA call issued by the harness with valid
    arguments (the innermost frames are EasyFEA / its dependencies), 'harness' when it was raised by
    the harness's own code (innermost frame in this file, or a library called directly from it) or is
    an API-misuse error of the harness (AmbiguousGroupError: `mesh.groupElem` on a mixed mesh)."""
    import traceback
    frames = traceback.extract_tb(ex.__traceback__)
    here = __file__.replace(".pyc", ".py")
    last_h = max((k for k, f in enumerate(frames) if f.filename == here), default=-1)
    below = frames[last_h + 1:]
    where = "%s:%d in %s" % (frames[-1].filename.split("/")[-1], frames[-1].lineno, frames[-1].name)
    if type(ex).__name__ == "AmbiguousGroupError":
        return "harness", where
    if below and "EasyFEA" in below[0].filename:
        return "impl", where
    return "harness", where


def run_cases(cases):
    out = []
    for i, c in enumerate(cases):
        try:
            CASES[c["kind"]](i, c, out)
        except Exception as ex:
            import traceback
            kind, where = classify_exception(ex)
            key = ("impl-exception:%s:%s:%s" if kind == "impl" else "harness-error:%s:%s:%s") % (c["kind"], c.get("elem"), type(ex).__name__)
            res(out, i, key, None, False,
                "case raised %s: %s (%s; raised at %s) | %s" % (type(ex).__name__, str(ex)[:200],
                    "inside an EasyFEA call" if kind == "impl" else "in the harness's own code — not a statement about the library", where,
                    traceback.format_exc().strip().splitlines()[-3:]))
            out[-1]["harness_error"] = kind != "impl"
    return out


def replay(case, key=None):
    out = run_cases([case])
    bad = [r for r in out if not r["ok"] and (key is None or r["key"] == key)]
    for r in (bad or out)[:12]:
        print(("FAIL " if not r["ok"] else "ok   ") + r["key"] + " :: " + r["what"])
    print("%d checks, %d failing%s" % (len(out), len(bad), "" if key is None else " with key " + key))
    return 1 if bad else 0


if __name__ == "__main__":
    req = json.load(sys.stdin)
    resp = {}
    if req.get("tables"):
        resp["tables"] = dump_tables()
    resp["results"] = run_cases(req.get("cases", []))
    json.dump(resp, sys.stdout)
