"""C09 — run in the implementation's environment.

stdin : JSON {"cases": [...]}     stdout: "@@C09JSON@@" + JSON {"cases": [...]}

Each case builds a mesh (gmsh through Mesher, organised or not), a simulation (Elastic / Thermal /
Beam), selects nodes, applies ONE load and returns: node coordinates (exact float repr), the
connectivity of every element group, the selected nodes, the elements Get_Elements_Nodes(nodes,
exclusively=True/False) returns per group, and the vector simu.Bc_vector_Neumann().
The exact reference integrals are computed by the driver (python Fractions), not here.
"""
import contextlib
import io
import json
import sys

import numpy as np

_MESH_CACHE = {}
_BEAMS = {}


def build_mesh(m):
    key = json.dumps(m, sort_keys=True)
    if key in _MESH_CACHE:
        return _MESH_CACHE[key]
    from EasyFEA import Mesher, ElemType
    from EasyFEA.Geoms import Domain, Point, Line

    et = getattr(ElemType, m["elemType"])
    mesher = Mesher(openGmsh=False, verbosity=False)
    if m["kind"] == "2d":
        dom = Domain(Point(), Point(m["L"], m["H"]), m["ms"])
        mesh = mesher.Mesh_2D(dom, [], et, isOrganised=bool(m.get("organised", True)))
    elif m["kind"] == "3d":
        dom = Domain(Point(), Point(m["L"], m["H"]), m["ms"])
        mesh = mesher.Mesh_Extrude(dom, [], [0, 0, m["T"]], [m["layers"]], et, isOrganised=bool(m.get("organised", True)))
    elif m["kind"] == "poly2d":
        from EasyFEA.Geoms import Points
        contour = Points([Point(*p) for p in m["points"]], m["ms"])
        mesh = mesher.Mesh_2D(contour, [], et, isOrganised=False)
    elif m["kind"] == "beam":
        end = m.get("end", [m["L"], 0, 0])
        line = Line(Point(), Point(*end), m["ms"])
        beam = _beam_of(m, line)
        mesh = mesher.Mesh_Beams([beam], et)
        _BEAMS[key] = beam
    else:
        raise ValueError(m["kind"])
    _MESH_CACHE[key] = mesh
    return mesh


def _beam_of(m, line):
    from EasyFEA import Models
    from EasyFEA.Geoms import Domain, Point

    from EasyFEA import Mesher, ElemType
    sect = Mesher(openGmsh=False, verbosity=False).Mesh_2D(Domain(Point(-0.05, -0.05), Point(0.05, 0.05), 0.05), [], ElemType.TRI3)
    return Models.Beam.Isotropic(m.get("beamDim", 2), line, sect, 210e9, 0.3)


def poly_fun(coeffs):
    terms = [(tuple(int(v) for v in k.split(",")), float(c)) for k, c in coeffs.items()]

    def f(x, y, z):
        r = 0.0 * x
        for (a, b, c), v in terms:
            r = r + v * x ** a * y ** b * z ** c
        return r
    return f


def select_nodes(mesh, sel):
    nodes = np.asarray(_select_nodes(mesh, sel), dtype=int)
    d = sel.get("dup")
    if d and nodes.size:
        # the selection is a set of ids: repeat some ids and shuffle the order
        rng = np.random.default_rng(d["seed"])
        extra = rng.choice(nodes, size=int(d["n"])) if d["n"] else np.zeros(0, dtype=int)
        nodes = np.concatenate([nodes, extra]).astype(int)
        rng.shuffle(nodes)
    return nodes


def _select_nodes(mesh, sel):
    coord = mesh.coord
    t = sel["type"]
    # tolerance relative to the size of the mesh (the scenarios are run at length scales 1e-9 .. 1e3)
    used = coord[mesh.nodes]
    tol = 1e-9 * float(np.max(used.max(axis=0) - used.min(axis=0)))
    if t == "concat":
        # np.concatenate([nodes_a, nodes_b]) as users write it: shared nodes appear twice
        return np.concatenate([np.asarray(_select_nodes(mesh, s), dtype=int) for s in sel["parts"]])
    if t == "all":
        return mesh.nodes
    if t == "face":
        return np.where(np.abs(coord[:, sel["axis"]] - sel["value"]) < tol)[0]
    if t == "partial":
        on = np.abs(coord[:, sel["axis"]] - sel["value"]) < tol
        return np.where(on & (coord[:, sel["axis2"]] <= sel["max2"] + tol) & (coord[:, sel["axis2"]] >= sel.get("min2", -1e30) - tol))[0]
    if t == "box":
        ok = np.ones(coord.shape[0], dtype=bool)
        for a in range(3):
            ok &= (coord[:, a] >= sel["lo"][a] - tol) & (coord[:, a] <= sel["hi"][a] + tol)
        return np.where(ok)[0]
    if t == "random":
        rng = np.random.default_rng(sel["seed"])
        base = _select_nodes(mesh, sel["within"]) if "within" in sel else mesh.nodes
        keep = rng.random(base.size) < sel["frac"]
        return base[keep]
    raise ValueError(t)


def run_case(c):
    from EasyFEA import Models, Simulations

    with contextlib.redirect_stdout(io.StringIO()):
        mesh = build_mesh(c["mesh"])
    dim = mesh.dim
    t = float(c.get("thickness", 1.0))
    kind = c["simu"]
    with contextlib.redirect_stdout(io.StringIO()):
        if kind == "Elastic":
            mat = Models.Elastic.Isotropic(dim, E=10.0, v=0.25, planeStress=True, thickness=t) if dim == 2 else Models.Elastic.Isotropic(3, E=10.0, v=0.25)
            simu = Simulations.Elastic(mesh, mat)
        elif kind == "Thermal":
            simu = Simulations.Thermal(mesh, Models.Thermal(k=2.0, c=0.0, thickness=t))
        elif kind == "Beam":
            beam = _BEAMS[json.dumps(c["mesh"], sort_keys=True)]
            structure = Models.Beam.BeamStructure([beam])
            simu = Simulations.Beam(mesh, structure)
        else:
            raise ValueError(kind)
    nodes = np.asarray(select_nodes(mesh, c["selection"]), dtype=int)
    res = {"id": c["id"], "Nn": int(mesh.Nn), "dim": int(dim), "inDim": int(mesh.inDim),
           "coords": [[float(v).hex() for v in row] for row in mesh.coord],
           "nodes": [int(n) for n in nodes]}
    groups = []
    for et, g in mesh.dict_groupElem.items():
        d = {"type": et.name, "dim": int(g.dim), "order": int(g.order), "connect": [[int(v) for v in row] for row in g.connect]}
        if nodes.size:
            d["excl"] = sorted(int(e) for e in g.Get_Elements_Nodes(nodes.copy(), exclusively=True))
            d["touch"] = sorted(int(e) for e in g.Get_Elements_Nodes(nodes.copy(), exclusively=False))
        else:
            d["excl"], d["touch"] = [], []
        groups.append(d)
    res["groups"] = groups
    if nodes.size == 0:
        res["empty"] = True
        return res
    unknowns = c["unknowns"]
    values = []
    coord = mesh.coord
    for v in c["values"]:
        if v["kind"] == "const":
            values.append(float(v["v"]))
        elif v["kind"] == "poly":
            values.append(poly_fun(v["coeffs"]))
        elif v["kind"] == "nodal":
            f = poly_fun(v["coeffs"])
            values.append(np.asarray(f(coord[nodes, 0], coord[nodes, 1], coord[nodes, 2]), dtype=float))
        else:
            raise ValueError(v["kind"])
    load = c["load"]
    try:
        _apply(simu, load, nodes, values, unknowns, c)
    except Exception as ex:
        import traceback
        res["error"] = "%s: %s" % (type(ex).__name__, ex)
        res["traceback"] = traceback.format_exc()[-1500:]
        return res
    return _finish(simu, mesh, coord, c, res)


def _apply(simu, load, nodes, values, unknowns, c):
    with contextlib.redirect_stdout(io.StringIO()):
        if load == "line":
            simu.add_lineLoad(nodes, values, unknowns)
        elif load == "surf":
            simu.add_surfLoad(nodes, values, unknowns)
        elif load == "volume":
            simu.add_volumeLoad(nodes, values, unknowns)
        elif load == "pressure":
            simu.add_pressureLoad(nodes, float(c["magnitude"]))
        elif load == "point":
            simu.add_neumann(nodes, values, unknowns)
        else:
            raise ValueError(load)


def _finish(simu, mesh, coord, c, res):
    F = simu.Bc_vector_Neumann()
    dof_n = int(simu.Get_dof_n())
    res["dof_n"] = dof_n
    res["all_unknowns"] = list(simu.Get_unknowns())
    res["F"] = [[float(v) for v in row] for row in F.reshape(-1, dof_n)]
    if c.get("expose") and c["load"] in ("line", "surf", "volume"):
        # the implementation's own quadrature data on the loaded elements, for the in-Coq run of the
        # rational instance of the integration model (floats are exact dyadic rationals)
        from EasyFEA.FEM._utils import MatrixType
        kdim = {"line": 1, "surf": mesh.dim - 1, "volume": mesh.dim}[c["load"]]
        nodes = np.asarray(res["nodes"], dtype=int)
        exp = []
        for g in mesh.Get_list_groupElem(kdim):
            els = np.asarray(sorted(int(e) for e in g.Get_Elements_Nodes(nodes.copy(), exclusively=True)), dtype=int)
            if els.size == 0:
                continue
            wJ = np.asarray(g.Get_weightedJacobian_e_pg(MatrixType.mass))[els]
            N = np.asarray(g.Get_N_pg(MatrixType.mass))[:, 0, :]
            xg = np.asarray(g.Get_GaussCoordinates_e_pg(MatrixType.mass, els))
            fvals = []
            for v in c["values"]:
                if v["kind"] == "const":
                    fvals.append(np.full(wJ.shape, float(v["v"])))
                else:
                    fvals.append(np.asarray(poly_fun(v["coeffs"])(xg[..., 0], xg[..., 1], xg[..., 2]), dtype=float))
            exp.append({"type": g.elemType.name, "connect": [[int(n) for n in row] for row in g.connect[els]],
                        "wJ": [[float(x).hex() for x in row] for row in wJ],
                        "N": [[float(x).hex() for x in row] for row in N],
                        "f": [[[float(x).hex() for x in row] for row in fv] for fv in fvals]})
        res["exposed"] = exp
    if c.get("solve_thermal_patch"):
        # T = 0 at x = 0, flux on x = L: exact solution T(L) = q L / k whatever the thickness
        with contextlib.redirect_stdout(io.StringIO()):
            n0 = mesh.Nodes_Conditions(lambda x, y, z: x == 0)
            simu.add_dirichlet(n0, [0.0], ["t"])
            T = simu.Solve()
        nL = np.where(np.abs(coord[:, 0] - c["mesh"]["L"]) < 1e-9)[0]
        res["T_at_L"] = [float(v) for v in np.asarray(T)[nL]]
    return res


# --------------------------------------------------------------------------------------
# load SEQUENCES on one simulation object (in-place mesh moves, Bc_Init, mesh replacement)
# --------------------------------------------------------------------------------------
def _values_of(vals, coord, nodes):
    values = []
    for v in vals:
        if v["kind"] == "const":
            values.append(float(v["v"]))
        elif v["kind"] == "poly":
            values.append(poly_fun(v["coeffs"]))
        else:
            f = poly_fun(v["coeffs"])
            values.append(np.asarray(f(coord[nodes, 0], coord[nodes, 1], coord[nodes, 2]), dtype=float))
    return values


def _groups_of(mesh):
    return [{"type": et.name, "dim": int(g.dim), "order": int(g.order), "connect": [[int(v) for v in row] for row in g.connect]}
            for et, g in mesh.dict_groupElem.items()]


def run_sequence(c):
    from EasyFEA import Models, Simulations

    with contextlib.redirect_stdout(io.StringIO()):
        mesh = build_mesh(c["mesh"]).copy()       # moved in place below: never touch the cached one
    dim = mesh.dim
    t = float(c.get("thickness", 1.0))
    with contextlib.redirect_stdout(io.StringIO()):
        if c["simu"] == "Elastic":
            mat = Models.Elastic.Isotropic(dim, E=10.0, v=0.25, planeStress=True, thickness=t) if dim == 2 else Models.Elastic.Isotropic(3, E=10.0, v=0.25)
            simu = Simulations.Elastic(mesh, mat)
        else:
            simu = Simulations.Thermal(mesh, Models.Thermal(k=2.0, c=0.0, thickness=t))
    res = {"id": c["id"], "dim": int(dim), "meshes": [_groups_of(mesh)], "snapshots": [], "checkpoints": [], "ops_done": 0}

    def snapshot():
        cur = [[float(v).hex() for v in row] for row in simu.mesh.coord]
        if not res["snapshots"] or res["snapshots"][-1] != cur:
            res["snapshots"].append(cur)
        return len(res["snapshots"]) - 1

    active = []      # loads applied since the last Bc_Init: (op index, nodes, snapshot, mesh index)
    imesh = 0
    for k, op in enumerate(c["sequence"]):
        kind = op["op"]
        try:
            with contextlib.redirect_stdout(io.StringIO()):
                if kind == "load":
                    m = simu.mesh
                    nodes = np.asarray(select_nodes(m, op["selection"]), dtype=int)
                    snap = snapshot()
                    if nodes.size:
                        _apply(simu, op["load"], nodes, _values_of(op["values"], m.coord, nodes), op["unknowns"], op)
                    active.append({"op": k, "nodes": [int(n) for n in nodes], "snapshot": snap, "mesh": imesh})
                elif kind == "bc_init":
                    simu.Bc_Init()
                    active = []
                elif kind == "translate":
                    simu.mesh.Translate(*op["d"])
                elif kind == "set_coord":
                    m = simu.mesh
                    m.coord = m.coord * float(op["scale"]) + np.asarray(op["shift"], dtype=float)
                elif kind == "symmetry":
                    simu.mesh.Symmetry(tuple(op["point"]), tuple(op["n"]))
                elif kind == "query":
                    # otherwise independent public calls on the same mesh/simulation objects: point location and
                    # evaluation, measures, normals, assembly.  Their own results belong to other properties;
                    # here only their side effects on later loads matter.
                    m = simu.mesh
                    used = m.coord[m.nodes]
                    lo, hi = used.min(axis=0), used.max(axis=0)
                    pts = np.array([lo + (hi - lo) * np.array(w) for w in ((0.5, 0.5, 0.5), (0.25, 0.6, 0.5), (0.8, 0.3, 0.5))])
                    for q in op.get("what", ["evaluate", "measure", "normals", "assemble"]):
                        try:
                            if q == "evaluate":
                                m.Evaluate_dofsValues_at_coordinates(pts, np.zeros(m.Nn))
                            elif q == "measure":
                                _ = m.area if m.dim == 2 else m.volume
                            elif q == "normals":
                                m.Get_normals(m.nodes)
                            elif q == "assemble":
                                simu.Get_K_C_M_F()
                        except Exception as qe:
                            res.setdefault("query_errors", []).append("%s: %s" % (q, type(qe).__name__))
                elif kind == "set_mesh":
                    other = build_mesh(op["mesh"]).copy()
                    if op.get("translate"):
                        other.Translate(*op["translate"])      # e.g. a moved copy with the SAME topology
                    simu.mesh = other             # the setter re-initialises the boundary conditions
                    res["meshes"].append(_groups_of(other))
                    imesh += 1
                    active = []
                elif kind == "check":
                    F = simu.Bc_vector_Neumann()
                    dof_n = int(simu.Get_dof_n())
                    cp = {"op": k, "snapshot": snapshot(), "mesh": imesh, "active": [dict(a) for a in active], "Nn": int(simu.mesh.Nn),
                          "all_unknowns": list(simu.Get_unknowns()), "F": [[float(v) for v in row] for row in F.reshape(-1, dof_n)]}
                    if op.get("fresh") and active and all(a["snapshot"] == cp["snapshot"] and a["mesh"] == imesh for a in active):
                        # the same loads on a FRESH simulation built on (a copy of) the current mesh
                        m2 = simu.mesh.copy()
                        if c["simu"] == "Elastic":
                            s2 = Simulations.Elastic(m2, mat)
                        else:
                            s2 = Simulations.Thermal(m2, Models.Thermal(k=2.0, c=0.0, thickness=t))
                        for a in active:
                            o = c["sequence"][a["op"]]
                            nd = np.asarray(a["nodes"], dtype=int)
                            if nd.size:
                                _apply(s2, o["load"], nd, _values_of(o["values"], m2.coord, nd), o["unknowns"], o)
                        F2 = s2.Bc_vector_Neumann()
                        cp["fresh_max_diff"] = float(np.abs(F2 - F).max())
                        cp["fresh_scale"] = float(max(np.abs(F2).max(), 1e-300))
                    res["checkpoints"].append(cp)
                else:
                    raise ValueError(kind)
        except Exception as ex:
            import traceback
            res["error"] = "op %d (%s): %s: %s" % (k, kind, type(ex).__name__, ex)
            res["traceback"] = traceback.format_exc()[-1500:]
            return res
        res["ops_done"] = k + 1
    return res


def main():
    req = json.load(sys.stdin)
    out = []
    for c in req["cases"]:
        try:
            out.append(run_sequence(c) if "sequence" in c else run_case(c))
        except Exception as ex:
            import traceback
            out.append({"id": c["id"], "error": "%s: %s" % (type(ex).__name__, ex), "traceback": traceback.format_exc()[-1500:]})
    sys.stdout.write("\n@@C09JSON@@" + json.dumps({"cases": out}))


if __name__ == "__main__":
    main()
