"""Run in the implementation's environment. stdin: {"cases": [{"groups": [{"elem":..., "maps": [{"A3": dim x 3, "b3": [3]}, ...]}, ...],
"ops": [["observe"], ["queries"], ["translate", [tx,ty,tz]], ["symmetry", [p], [n]], ["rotate90z", [p]], ...]}]}
Each case is a hand-made mesh whose element groups (in the given dict order) are affine images x = b3 + xi @ A3 of
the reference elements (any dimension, embedded in 3-D) with disjoint node sets.  The ops are applied in order to
the SAME mesh object; every "observe" appends {length, area, volume, center} (None where the mesh dimension does
not define it)."""
import json, sys
import numpy as np
from EasyFEA.FEM._group_elem import GroupElemFactory
from EasyFEA.FEM._utils import ElemType, MatrixType
from EasyFEA.FEM._mesh import Mesh

req = json.load(sys.stdin)
out = []
for c in req["cases"]:
    r = {"obs": []}
    try:
        blocks, conns, off = [], [], 0
        for g in c["groups"]:
            et = getattr(ElemType, g["elem"])
            gid, nPe, dim = GroupElemFactory.DICT_ELEMTYPE[et][:3]
            cls = GroupElemFactory.GROUP_CLASS_MAP[et]
            loc = np.asarray(cls(gid, np.arange(nPe).reshape(1, -1), np.zeros((nPe, 3))).Get_Local_Coords(), dtype=float)
            con = []
            for m in g["maps"]:
                blocks.append(loc @ np.array(m["A3"], dtype=float) + np.array(m["b3"], dtype=float))
                con.append(np.arange(off, off + nPe))
                off += nPe
            conns.append((et, gid, cls, np.array(con)))
        coords = np.vstack(blocks)
        mesh = Mesh({et: cls(gid, con, coords) for et, gid, cls, con in conns})
        rng = np.random.default_rng(12345)
        for op in c["ops"]:
            if op[0] == "observe":
                o = {}
                for k in ("length", "area", "volume"):
                    v = getattr(mesh, k)
                    o[k] = None if v is None else float(v)
                o["center"] = [float(x) for x in np.asarray(mesh.center).ravel()]
                o["coord_finite"] = bool(np.isfinite(mesh.coord).all())
                r["obs"].append(o)
            elif op[0] == "queries":
                # documented read-only queries, with and without a (non-affine) displacement field
                U = rng.uniform(-1, 1, (mesh.Nn, 3)) * float(np.ptp(mesh.coord, axis=0).max()) * 0.1
                for grp in mesh.dict_groupElem.values():
                    for mt in (MatrixType.mass, MatrixType.rigi):
                        grp.Get_GaussCoordinates_e_pg(mt)
                        try:
                            grp.Get_GaussCoordinates_e_pg(mt, displacementMatrix=U)
                        except TypeError:
                            pass
                try:
                    mesh.Get_normals(displacementMatrix=U)
                except Exception:
                    pass
                try:
                    mesh.Get_normals()
                except Exception:
                    pass
            elif op[0] == "translate":
                mesh.Translate(*op[1])
            elif op[0] == "symmetry":
                mesh.Symmetry(tuple(op[1]), tuple(op[2]))
            elif op[0] == "rotate90z":
                mesh.Rotate(90.0, tuple(op[1]), (0, 0, 1))
            elif op[0] == "scale":
                mesh.coord = mesh.coord * op[1]
    except Exception as ex:
        r["raises"] = "%s: %s" % (type(ex).__name__, str(ex)[:200])
    out.append(r)
json.dump(out, sys.stdout)
