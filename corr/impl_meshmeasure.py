"""Run in the implementation's environment. stdin: {"cases": [{"groups": [{"elem":..., "maps": [{"A":..,"b":..},...]}, ...]}]}
Each case is a hand-made mesh whose element groups (in the given dict order) are affine images of the
reference elements with disjoint node sets; prints Mesh.length/area/volume and Mesh.center, and the
per-group measures and centres."""
import json, sys
import numpy as np
from EasyFEA.FEM._group_elem import GroupElemFactory
from EasyFEA.FEM._utils import ElemType
from EasyFEA.FEM._mesh import Mesh

req = json.load(sys.stdin)
out = []
for c in req["cases"]:
    r = {}
    try:
        blocks, conns, off = [], [], 0
        for g in c["groups"]:
            et = getattr(ElemType, g["elem"])
            gid, nPe, dim = GroupElemFactory.DICT_ELEMTYPE[et][:3]
            cls = GroupElemFactory.GROUP_CLASS_MAP[et]
            loc = np.asarray(cls(gid, np.arange(nPe).reshape(1, -1), np.zeros((nPe, 3))).Get_Local_Coords(), dtype=float)
            con = []
            for m in g["maps"]:
                xyz = np.zeros((nPe, 3))
                xyz[:, :dim] = loc @ np.array(m["A"], dtype=float) + np.array(m["b"], dtype=float)
                blocks.append(xyz)
                con.append(np.arange(off, off + nPe))
                off += nPe
            conns.append((et, gid, cls, np.array(con)))
        coords = np.vstack(blocks)
        d = {et: cls(gid, con, coords) for et, gid, cls, con in conns}
        mesh = Mesh(d)
        dim = mesh.dim
        r["dim"] = dim
        r["measure"] = float((mesh.length, mesh.area, mesh.volume)[dim - 1])
        r["center"] = [float(x) for x in np.asarray(mesh.center).ravel()]
        r["groups"] = [{"elem": str(et.name), "measure": float((g.length, g.area, g.volume)[g.dim - 1]),
                        "center": [float(x) for x in np.asarray(g.center).ravel()]} for et, g in d.items()]
    except Exception as ex:
        r["raises"] = "%s: %s" % (type(ex).__name__, str(ex)[:200])
    out.append(r)
json.dump(out, sys.stdout)
