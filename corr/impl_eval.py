"""Run in the implementation's environment: the EVALUATION layer of the shape tables.
stdin: {"maps": {elemType: {"A": [[..]], "b": [..]}}, "herm": {"EULER_BERNOULLIk": [a, b]}}
For each Lagrange type: a one-element group whose nodes are the affine image x = xi @ A + b of the
local coordinates; prints Get_N_pg / Get_dN_pg / Get_ddN_pg / Get_dddN_pg / Get_ddddN_pg /
Get_N_pg_rep / Get_dN_e_pg / Get_ddN_e_pg / jacobian / weighted jacobian for every matrix type,
with the Gauss points as exact integer ratios.  For each Hermite family: a straight segment
[a, b] and Get_Hermitian_{N,dN,ddN,dddN}_{pg,e_pg}."""
import json, sys
import numpy as np
from EasyFEA.FEM._group_elem import GroupElemFactory
from EasyFEA.FEM._utils import ElemType, MatrixType
from EasyFEA.FEM.Elems import _beam

req = json.load(sys.stdin)
out = {"lagrange": {}, "hermite": {}}

def ratio(x):
    n, d = float(x).as_integer_ratio()
    return [str(n), str(d)]

def arr(a):
    return None if a is None else np.asarray(a, dtype=float).tolist()

def call(f, *a, **k):
    try:
        return {"v": arr(f(*a, **k))}
    except Exception as ex:
        return {"raises": "%s: %s" % (type(ex).__name__, str(ex)[:100])}

for name, m in req["maps"].items():
    et = getattr(ElemType, name)
    gid, nPe, dim = GroupElemFactory.DICT_ELEMTYPE[et][:3]
    cls = GroupElemFactory.GROUP_CLASS_MAP[et]
    g0 = cls(gid, np.arange(nPe).reshape(1, -1), np.zeros((nPe, 3)))
    loc = np.asarray(g0.Get_Local_Coords(), dtype=float)
    A, b = np.array(m["A"], dtype=float), np.array(m["b"], dtype=float)
    coords = np.zeros((nPe, 3))
    coords[:, :dim] = loc @ A + b
    g = cls(gid, np.arange(nPe).reshape(1, -1), coords)
    d = {}
    mts = ["rigi", "mass"] + (["beam", "beam_shear"] if dim == 1 else [])
    for mt in mts:
        MT = getattr(MatrixType, mt)
        gs = g.Get_gauss(MT)
        d[mt] = {"gauss": [[ratio(x) for x in p] for p in gs.coord], "weights": [ratio(w) for w in gs.weights],
                 "N_pg": call(g.Get_N_pg, MT), "dN_pg": call(g.Get_dN_pg, MT), "ddN_pg": call(g.Get_ddN_pg, MT),
                 "dddN_pg": call(g.Get_dddN_pg, MT), "ddddN_pg": call(g.Get_ddddN_pg, MT),
                 "N_pg_rep2": call(g.Get_N_pg_rep, MT, 2), "N_pg_rep3": call(g.Get_N_pg_rep, MT, 3),
                 "dN_e_pg": call(g.Get_dN_e_pg, MT), "ddN_e_pg": call(g.Get_ddN_e_pg, MT),
                 "jacobian_e_pg": call(g.Get_jacobian_e_pg, MT), "wJ_e_pg": call(g.Get_weightedJacobian_e_pg, MT)}
    # the evaluator applied to the tabulated local coordinates exactly as Get_Local_Coords returns
    # them (integer arrays for several elements)
    locraw = g.Get_Local_Coords()
    d["at_nodes"] = {t: call(lambda t=t: type(g)._Eval_Functions(getattr(g, t)(), locraw)) for t in ["_N", "_dN", "_ddN", "_dddN", "_ddddN"]}
    # same group after its coordinates were rescaled in place by the factor k (second use of the tables)
    k = float(m.get("k", 1.0))
    g.coord = coords * k
    d["rescaled"] = {mt: {"dN_e_pg": call(g.Get_dN_e_pg, getattr(MatrixType, mt)), "jacobian_e_pg": call(g.Get_jacobian_e_pg, getattr(MatrixType, mt))} for mt in mts}
    out["lagrange"][name] = d

for name, (a, b, kk) in req["herm"].items():
    k = int(name[-1])
    gid, nPe, dim = GroupElemFactory.DICT_ELEMTYPE[getattr(ElemType, "SEG%d" % k)][:3]
    cls = getattr(_beam, name)
    g0 = cls(gid, np.arange(nPe).reshape(1, -1), np.zeros((nPe, 3)))
    loc = np.asarray(g0.Get_Local_Coords(), dtype=float)[:, 0]
    coords = np.zeros((nPe, 3))
    coords[:, 0] = a + (loc + 1) / 2 * (b - a)
    g = cls(gid, np.arange(nPe).reshape(1, -1), coords)
    gs = g.Get_gauss(MatrixType.beam)
    d = {"gauss": [[ratio(x) for x in p] for p in gs.coord]}
    for t in ["N", "dN", "ddN", "dddN"]:
        d[t + "_pg"] = call(getattr(g, "Get_Hermitian_%s_pg" % t))
        d[t + "_e_pg"] = call(getattr(g, "Get_Hermitian_%s_e_pg" % t))
    g.coord = coords * kk
    d["rescaled"] = {t + "_e_pg": call(getattr(g, "Get_Hermitian_%s_e_pg" % t)) for t in ["N", "dN", "ddN", "dddN"]}
    out["hermite"][name] = d
json.dump(out, sys.stdout)
