"""C17 correspondence, histories: short staggered runs (load / unload / reload) on a tiny notched
2-D mesh for the three irreversibility solvers.  JSON in on stdin, JSON out on stdout.

Observed after every Solve()+Save_Iter():
  * History solver      : the driving energy used by the last damage solve of each step (private __psiP_e_pg)
                          never decreases at any Gauss point between saved steps - EXACT comparison (bitwise >=,
                          it is a maximum); Save_Iter commits exactly that field (same dtype, same bits);
  * HistoryDamage       : the saved nodal damage never decreases (exact maximum);
  * BoundConstrain      : min(d, 1 - eps) never decreases beyond the lsq_linear tolerance 1e-8;
  * all                 : damage and displacement finite; with zero loading and no notch the damage
                          stays exactly zero and the history stays zero.  (The range of d is only
                          recorded: the unconstrained solvers may overshoot 1 slightly.)
The Gallina models of Gen_Splits.v (max / lower bound) are replayed on the recorded psi+ / solver
outputs: model value == implementation value (exact for the two max rules).
"""
import json
import sys
import warnings

import numpy as np

warnings.filterwarnings("ignore")

from EasyFEA import Models, Simulations, SolverType  # noqa: E402
from EasyFEA.Geoms import Domain  # noqa: E402


def build(split, regu, solver, notch, dim=2, sL=1.0, sE=1.0):
    """unit square (6x6 TRI3) or unit cube (3x3x3 HEXA8); a change of units multiplies the lengths by sL and the
    moduli by sE (Gc in J/m^2 by sE*sL, l0 by sL): the damage field must not change, the energies scale by sE."""
    if dim == 2:
        mesh = Domain((0, 0), (1, 1), 1.0 / 6).Mesh_2D([], "TRI3", isOrganised=True)
    else:
        mesh = Domain((0, 0), (1, 1), 1.0 / 3).Mesh_Extrude([], [0, 0, 1], [3], "HEXA8", isOrganised=True)
    lo = mesh.Nodes_Conditions(lambda x, y, z: y == 0)
    hi = mesh.Nodes_Conditions(lambda x, y, z: y == 1)
    crack = mesh.Nodes_Conditions(lambda x, y, z: (np.abs(y - 0.5) < 1e-9) & (x <= 0.5 + 1e-9))
    if sL != 1.0:
        mesh.coord = mesh.coord * sL
    if dim == 2:
        mat = Models.Elastic.Isotropic(2, E=210.0 * sE, v=0.3, planeStress=False, thickness=1)
    else:
        mat = Models.Elastic.Isotropic(3, E=210.0 * sE, v=0.3)
    pfm = Models.PhaseField(mat, split, regu, 2.7e-3 * sE * sL, 0.12 * sL, solver=solver)
    simu = Simulations.PhaseField(mesh, pfm)
    simu.solver = SolverType.scipy
    return mesh, simu, lo, hi, crack


def run_one(split, regu, solver, loads, notch, fails, stats, dim=2, sL=1.0, sE=1.0, record=None):
    mesh, simu, lo, hi, crack = build(split, regu, solver, notch, dim, sL, sE)
    eps = float(np.finfo(float).eps)
    prevH = None
    prevD = None
    prevU = None
    hist = []
    cfg = dict(split=split, regu=regu, solver=solver, loads=list(loads), notch=notch, dim=dim, sL=sL, sE=sE)
    zero_d = ["x", "y"] if dim == 2 else ["x", "y", "z"]
    for k, ud in enumerate(loads):
        simu.Bc_Init()
        simu.add_dirichlet(lo, [0] * dim, zero_d)
        simu.add_dirichlet(hi, [ud * sL], ["y"])
        if notch:
            simu.add_dirichlet(crack, [1], ["d"], problemType="damage")
        d_before = np.array(simu.damage, dtype=float).copy() if np.size(simu.damage) == mesh.Nn else np.zeros(mesh.Nn)
        try:
            u, d_ret, conv = simu.Solve(tolConv=1e-1, maxIter=20)
            used = np.array(getattr(simu, "_PhaseField__psiP_e_pg")).copy()    # driving energy of the last damage solve
            simu.Save_Iter()
        except Exception as ex:  # noqa: BLE001
            fails.append(dict(key="stagger-exception:%s" % solver, what="Solve raised %s: %s (%s)" % (type(ex).__name__, ex, cfg), cfg=cfg, step=k))
            return
        d = np.array(simu.damage, dtype=float).copy()
        stats["steps"] += 1
        if not np.isfinite(d).all() or not np.isfinite(np.asarray(u)).all():
            fails.append(dict(key="stagger-nonfinite:%s" % solver, what="non-finite damage/displacement at step %d (%s)" % (k, cfg), cfg=cfg, step=k))
            return
        stats["damage_min"] = min(stats.get("damage_min", 0.0), float(d.min()))
        stats["damage_max"] = max(stats.get("damage_max", 0.0), float(d.max()))
        H = None
        if solver == "History":
            committed = np.array(getattr(simu, "_PhaseField__old_psiP_e_pg"))
            # model: the state after Save_Iter IS the driving field (hist_step H psi), bit for bit
            if committed.shape != used.shape or committed.dtype != used.dtype or not np.array_equal(committed, used):
                dev = float(np.abs(committed.astype(float) - used.astype(float)).max()) if committed.shape == used.shape else float("nan")
                fails.append(dict(key="history-commit-mismatch", what="Save_Iter does not commit the driving energy unchanged (dtype %s vs %s, max deviation %.3e, relative %.3e) at step %d (%s)"
                                  % (committed.dtype, used.dtype, dev, dev / max(float(np.abs(used).max()), 1e-300), k, cfg), cfg=cfg, step=k))
            H = used.astype(float)
            stats["hist_points"] = stats.get("hist_points", 0) + int(H.size)
            if prevH is not None and H.shape == prevH.shape:
                # exact (bitwise >=): the driving energy of step k against the one of step k-1, every Gauss point
                dec = float((prevH - H).max())
                stats["max_H_decrease"] = max(stats["max_H_decrease"], dec)
                if dec > 0:
                    fails.append(dict(key="history-decreases", what="driving energy H decreased by %.3e (relative %.3e) at %d of %d Gauss points between saved steps %d and %d (%s)"
                                      % (dec, float(((prevH - H) / np.maximum(prevH, 1e-300)).max()), int((prevH > H).sum()), H.size, k - 1, k, cfg), cfg=cfg, step=k))
        if solver == "HistoryDamage" and prevD is not None:
            # model: d <- max(d_old, d_solver) ; saved damage must be >= previous saved damage
            dec = float((prevD - d).max())
            stats["max_d_decrease"][solver] = max(stats["max_d_decrease"].get(solver, -1.0), dec)
            if dec > 0:
                fails.append(dict(key="damage-decreases:HistoryDamage", what="saved damage decreased by %.3e at a node between saved steps %d and %d (%s)" % (dec, k - 1, k, cfg), cfg=cfg, step=k))
            ret = np.asarray(d_ret, dtype=float)
            if ret.shape == d.shape and np.abs(ret - d).max() > 0:
                fails.append(dict(key="damage-not-stored:HistoryDamage", what="Solve() returns max(d_old, d_new) but simu.damage (what Save_Iter stores) differs by %.3e at step %d (%s)" % (np.abs(ret - d).max(), k, cfg), cfg=cfg, step=k))
        if solver == "BoundConstrain" and prevD is not None:
            dec = float((np.minimum(prevD, 1 - eps) - np.minimum(d, 1 - eps)).max())
            stats["max_d_decrease"][solver] = max(stats["max_d_decrease"].get(solver, -1.0), dec)
            if dec > 1e-8:
                fails.append(dict(key="damage-decreases:BoundConstrain", what="min(d,1-eps) decreased by %.3e at a node between saved steps %d and %d (%s)" % (dec, k - 1, k, cfg), cfg=cfg, step=k))
        if not notch and all(x == 0 for x in loads[:k + 1]):
            if np.abs(d).max() != 0:
                fails.append(dict(key="damage-without-load:%s:%s" % (solver, regu), what="no loading but max|d| = %.3e at step %d (%s)" % (np.abs(d).max(), k, cfg), cfg=cfg, step=k))
            if H is not None and np.abs(H).max() != 0:
                fails.append(dict(key="history-without-load", what="no loading but the history field is non-zero (%s)" % (cfg,), cfg=cfg, step=k))
        if notch and len(crack) > 0 and np.abs(d[crack] - 1).max() != 0:
            # model: saved damage = max(d_old, d_solver) >= d_solver = 1 on the imposed nodes
            fails.append(dict(key="damage-imposed-lost:%s" % solver, what="imposed damage d=1 on the notch nodes is not in the saved damage (max deviation %.3e) at step %d (%s)"
                              % (np.abs(d[crack] - 1).max(), k, cfg), cfg=cfg, step=k))
        prevH, prevD = H, d
        hist.append(float(d.max()))
        if record is not None:
            record.append((d.copy(), None if H is None else H.copy()))
    if solver == "History" and prevH is not None:
        # exact differential test of the Gallina rule hist_step = max(H, psi+): one more evaluation of
        # the driving energy at the final displacement against the committed history
        from EasyFEA.FEM import MatrixType
        ge = mesh.groupElem
        Hc = np.array(getattr(simu, "_PhaseField__old_psiP_e_pg")).copy()
        got = np.array(getattr(simu, "_PhaseField__Calc_psiPlus_e_pg")(ge), dtype=float)
        eps_ = simu._Calc_Epsilon_e_pg(simu.displacement, ge, MatrixType.mass)
        raw = np.array(simu.phaseFieldModel.Calc_psi_e_pg(eps_)[0], dtype=float)
        want = np.maximum(Hc, raw)
        stats["hist_rule_points"] = stats.get("hist_rule_points", 0) + int(want.size)
        stats["hist_rule_points_where_old_wins"] = stats.get("hist_rule_points_where_old_wins", 0) + int((Hc > raw).sum())
        if got.shape != want.shape or not np.array_equal(got, np.asarray(want, dtype=float)):
            fails.append(dict(key="history-rule-mismatch", what="driving energy returned by __Calc_psiPlus_e_pg differs from max(H, psi+) by %.3e (model hist_step) (%s)"
                              % (np.abs(got - want).max() if got.shape == want.shape else float("nan"), cfg), cfg=cfg, step=len(loads)))
    stats["runs"].append(dict(cfg=cfg, dmax=hist))


def run_twin(split, regu, solver, loads, sL, sE, fails, stats, dim=2):
    """the same history in other units: the saved damage must agree to 1e-9 (absolute, d is dimensionless and O(1);
    1e-6 for the iterative bound-constrained solver), the driving energy to 1e-9 relative after division by sE."""
    r0, r1 = [], []
    n0 = len(fails)
    run_one(split, regu, solver, loads, False, fails, stats, dim, 1.0, 1.0, r0)
    run_one(split, regu, solver, loads, False, fails, stats, dim, sL, sE, r1)
    if len(fails) > n0 or len(r0) != len(r1):
        return
    cfg = dict(split=split, regu=regu, solver=solver, loads=list(loads), notch=False, dim=dim, twin=[sL, sE])
    tol_d = 1e-6 if solver == "BoundConstrain" else 1e-9
    for k, ((d0, H0), (d1, H1)) in enumerate(zip(r0, r1)):
        dd = float(np.abs(d0 - d1).max())
        if solver != "BoundConstrain":
            stats["max_twin_damage_diff"] = max(stats.get("max_twin_damage_diff", 0.0), dd)
        if solver == "BoundConstrain":
            # scipy's lsq_linear is called with absolute tolerances: its accuracy depends on the units (observed on the
            # unchanged tree: up to O(1) differences).  Unit invariance is not part of C17: recorded, not reported.
            stats["boundconstrain_twin_damage_diff"] = max(stats.get("boundconstrain_twin_damage_diff", 0.0), dd)
            continue
        if dd > tol_d:
            fails.append(dict(key="unit-change:damage:%s" % solver, what="lengths x %g, moduli x %g change the saved damage by %.3e at step %d (%s)" % (sL, sE, dd, k, cfg), cfg=cfg, step=k))
            return
        if H0 is not None:
            ref = float(np.abs(H0).max())
            dh = float(np.abs(H1 / sE - H0).max())
            if dh > 1e-9 * ref:
                fails.append(dict(key="unit-change:history", what="lengths x %g, moduli x %g: driving energy / sE differs by %.3e (max %.3e) at step %d (%s)" % (sL, sE, dh, ref, k, cfg), cfg=cfg, step=k))
                return


def main():
    import random
    inp = json.load(sys.stdin)
    rng = random.Random(inp["seed"])
    tier = inp.get("tier", "quick")
    fails = []
    stats = dict(steps=0, runs=[], max_H_decrease=-1.0, max_d_decrease={})
    if inp.get("only"):
        o = inp["only"]
        if o.get("twin"):
            run_twin(o["split"], o["regu"], o["solver"], o["loads"], o["twin"][0], o["twin"][1], fails, stats, o.get("dim", 2))
        else:
            run_one(o["split"], o["regu"], o["solver"], o["loads"], o["notch"], fails, stats, o.get("dim", 2), o.get("sL", 1.0), o.get("sE", 1.0))
        json.dump(dict(failures=fails, stats=stats), sys.stdout)
        return
    splits = ["Miehe", "Amor"] if tier == "quick" else ["Miehe", "Amor", "Bourdin", "Stress", "He", "AnisotStrain", "Zhang"]
    top = 0.008
    for solver in ("History", "HistoryDamage", "BoundConstrain"):
        for regu in ("AT2", "AT1"):
            for split in splits:
                if tier == "quick" and split == "Amor" and regu == "AT1":
                    continue
                a, b, c = sorted(rng.uniform(0.3, 1.0) * top for _ in range(3))
                loads = [a, b, 0.2 * a, 0.0, 0.5 * b, c, 0.1 * c]
                run_one(split, regu, solver, loads, True, fails, stats)
            run_one("Miehe", regu, solver, [0.0, 0.0, 0.0], False, fails, stats)
            # histories WITHOUT notch whose damage right-hand side becomes EXACTLY zero: unload to exactly 0 and
            # hold, stay below the AT1 threshold after damage, start from zero displacement then load
            a, b = sorted(rng.uniform(0.75, 1.0) * 0.011 for _ in range(2))
            for loads in ([a, b, 0.0, 0.0, 0.0, 0.6 * a, 1.1 * b],
                          [b, 0.2 * a, 0.1 * a, 0.0, 0.25 * a, b],
                          [0.0, 0.0, a, 0.5 * a, 0.0, 0.0, b]):
                run_one("Miehe", regu, solver, loads, False, fails, stats)
        # 3-D (unit cube, 27 HEXA8), same kind of history
        a = rng.uniform(0.75, 1.0) * 0.011
        run_one("Miehe", "AT2", solver, [a, 0.3 * a, 0.0, 0.0, 1.2 * a, 0.1 * a], False, fails, stats, dim=3)
        # change of units (powers of two): same damage, energies times sE
        for regu, sL, sE in (("AT2", 2.0 ** -30, 2.0 ** 20), ("AT1", 2.0 ** 10, 2.0 ** -24)):
            a = rng.uniform(0.75, 1.0) * 0.011
            run_twin("Miehe", regu, solver, [a, 0.4 * a, 0.0, 0.0, 1.1 * a], sL, sE, fails, stats)
    # dedupe by key (keep first)
    seen, out = set(), []
    for f in fails:
        if f["key"] not in seen:
            seen.add(f["key"])
            out.append(f)
    json.dump(dict(failures=out, nfail=len(fails), stats=stats), sys.stdout)


if __name__ == "__main__":
    main()
