"""C17 correspondence, histories: short staggered runs (load / unload / reload) on a tiny notched
2-D mesh for the three irreversibility solvers.  JSON in on stdin, JSON out on stdout.

Observed after every Solve()+Save_Iter():
  * History solver      : the committed history field (private __old_psiP_e_pg) never decreases
                          at any Gauss point (exact: it is a maximum) and dominates the current psi+;
  * HistoryDamage       : the saved nodal damage never decreases (exact maximum);
  * BoundConstrain      : min(d, 1 - eps) never decreases beyond the lsq_linear tolerance 1e-8;
  * all                 : damage and displacement finite; with zero loading and no notch the damage
                          stays exactly zero and the history stays zero.  (The range of d is only
                          recorded: the unconstrained solvers may overshoot 1 slightly.)
The Gallina models of Gen_Splits.v (max / lower bound) are replayed on the recorded psi+ / solver
outputs: model value == implementation value (exact for the two max rules).
"""
import json
import sys
import warnings

import numpy as np

warnings.filterwarnings("ignore")

from EasyFEA import Models, Simulations, SolverType  # noqa: E402
from EasyFEA.Geoms import Domain  # noqa: E402


def build(split, regu, solver, notch, n=6):
    mesh = Domain((0, 0), (1, 1), 1.0 / n).Mesh_2D([], "TRI3", isOrganised=True)
    mat = Models.Elastic.Isotropic(2, E=210.0, v=0.3, planeStress=False, thickness=1)
    pfm = Models.PhaseField(mat, split, regu, 2.7e-3, 0.12, solver=solver)
    simu = Simulations.PhaseField(mesh, pfm)
    simu.solver = SolverType.scipy
    return mesh, simu


def run_one(split, regu, solver, loads, notch, fails, stats):
    mesh, simu = build(split, regu, solver, notch)
    lo = mesh.Nodes_Conditions(lambda x, y, z: y == 0)
    hi = mesh.Nodes_Conditions(lambda x, y, z: y == 1)
    crack = mesh.Nodes_Conditions(lambda x, y, z: (np.abs(y - 0.5) < 1e-9) & (x <= 0.5 + 1e-9))
    eps = float(np.finfo(float).eps)
    prevH = None
    prevD = None
    hist = []
    cfg = dict(split=split, regu=regu, solver=solver, loads=list(loads), notch=notch)
    for k, ud in enumerate(loads):
        simu.Bc_Init()
        simu.add_dirichlet(lo, [0, 0], ["x", "y"])
        simu.add_dirichlet(hi, [ud], ["y"])
        if notch:
            simu.add_dirichlet(crack, [1], ["d"], problemType="damage")
        d_before = np.array(simu.damage, dtype=float).copy() if np.size(simu.damage) == mesh.Nn else np.zeros(mesh.Nn)
        try:
            u, d_ret, conv = simu.Solve(tolConv=1e-1, maxIter=20)
            simu.Save_Iter()
        except Exception as ex:  # noqa: BLE001
            fails.append(dict(key="stagger-exception:%s" % solver, what="Solve raised %s: %s (%s)" % (type(ex).__name__, ex, cfg), cfg=cfg, step=k))
            return
        d = np.array(simu.damage, dtype=float).copy()
        stats["steps"] += 1
        if not np.isfinite(d).all() or not np.isfinite(np.asarray(u)).all():
            fails.append(dict(key="stagger-nonfinite:%s" % solver, what="non-finite damage/displacement at step %d (%s)" % (k, cfg), cfg=cfg, step=k))
            return
        stats["damage_min"] = min(stats.get("damage_min", 0.0), float(d.min()))
        stats["damage_max"] = max(stats.get("damage_max", 0.0), float(d.max()))
        H = None
        if solver == "History":
            H = np.array(getattr(simu, "_PhaseField__old_psiP_e_pg"), dtype=float).copy()
            psi = np.array(getattr(simu, "_PhaseField__psiP_e_pg"), dtype=float)
            if prevH is not None and H.shape == prevH.shape:
                dec = float((prevH - H).max())
                stats["max_H_decrease"] = max(stats["max_H_decrease"], dec)
                if dec > 0:
                    fails.append(dict(key="history-decreases", what="history field decreased by %.3e between saved steps %d and %d (%s)" % (dec, k - 1, k, cfg), cfg=cfg, step=k))
        if solver == "HistoryDamage" and prevD is not None:
            # model: d <- max(d_old, d_solver) ; saved damage must be >= previous saved damage
            dec = float((prevD - d).max())
            stats["max_d_decrease"][solver] = max(stats["max_d_decrease"].get(solver, -1.0), dec)
            if dec > 0:
                fails.append(dict(key="damage-decreases:HistoryDamage", what="saved damage decreased by %.3e at a node between saved steps %d and %d (%s)" % (dec, k - 1, k, cfg), cfg=cfg, step=k))
            ret = np.asarray(d_ret, dtype=float)
            if ret.shape == d.shape and np.abs(ret - d).max() > 0:
                fails.append(dict(key="damage-not-stored:HistoryDamage", what="Solve() returns max(d_old, d_new) but simu.damage (what Save_Iter stores) differs by %.3e at step %d (%s)" % (np.abs(ret - d).max(), k, cfg), cfg=cfg, step=k))
        if solver == "BoundConstrain" and prevD is not None:
            dec = float((np.minimum(prevD, 1 - eps) - np.minimum(d, 1 - eps)).max())
            stats["max_d_decrease"][solver] = max(stats["max_d_decrease"].get(solver, -1.0), dec)
            if dec > 1e-8:
                fails.append(dict(key="damage-decreases:BoundConstrain", what="min(d,1-eps) decreased by %.3e at a node between saved steps %d and %d (%s)" % (dec, k - 1, k, cfg), cfg=cfg, step=k))
        if not notch and all(x == 0 for x in loads[:k + 1]):
            if np.abs(d).max() != 0:
                fails.append(dict(key="damage-without-load:%s:%s" % (solver, regu), what="no loading but max|d| = %.3e at step %d (%s)" % (np.abs(d).max(), k, cfg), cfg=cfg, step=k))
            if H is not None and np.abs(H).max() != 0:
                fails.append(dict(key="history-without-load", what="no loading but the history field is non-zero (%s)" % (cfg,), cfg=cfg, step=k))
        if notch and len(crack) > 0 and np.abs(d[crack] - 1).max() != 0:
            # model: saved damage = max(d_old, d_solver) >= d_solver = 1 on the imposed nodes
            fails.append(dict(key="damage-imposed-lost:%s" % solver, what="imposed damage d=1 on the notch nodes is not in the saved damage (max deviation %.3e) at step %d (%s)"
                              % (np.abs(d[crack] - 1).max(), k, cfg), cfg=cfg, step=k))
        prevH, prevD = H, d
        hist.append(float(d.max()))
    if solver == "History" and prevH is not None:
        # exact differential test of the Gallina rule hist_step = max(H, psi+): one more evaluation of
        # the driving energy at the final displacement against the committed history
        from EasyFEA.FEM import MatrixType
        ge = mesh.groupElem
        Hc = np.array(getattr(simu, "_PhaseField__old_psiP_e_pg"), dtype=float).copy()
        got = np.array(getattr(simu, "_PhaseField__Calc_psiPlus_e_pg")(ge), dtype=float)
        eps_ = simu._Calc_Epsilon_e_pg(simu.displacement, ge, MatrixType.mass)
        raw = np.array(simu.phaseFieldModel.Calc_psi_e_pg(eps_)[0], dtype=float)
        want = np.maximum(Hc, raw)
        stats["hist_rule_points"] = stats.get("hist_rule_points", 0) + int(want.size)
        stats["hist_rule_points_where_old_wins"] = stats.get("hist_rule_points_where_old_wins", 0) + int((Hc > raw).sum())
        if got.shape != want.shape or np.abs(got - want).max() != 0:
            fails.append(dict(key="history-rule-mismatch", what="driving energy returned by __Calc_psiPlus_e_pg differs from max(H, psi+) by %.3e (model hist_step) (%s)"
                              % (np.abs(got - want).max() if got.shape == want.shape else float("nan"), cfg), cfg=cfg, step=len(loads)))
    stats["runs"].append(dict(cfg=cfg, dmax=hist))


def main():
    import random
    inp = json.load(sys.stdin)
    rng = random.Random(inp["seed"])
    tier = inp.get("tier", "quick")
    fails = []
    stats = dict(steps=0, runs=[], max_H_decrease=-1.0, max_d_decrease={})
    if inp.get("only"):
        o = inp["only"]
        run_one(o["split"], o["regu"], o["solver"], o["loads"], o["notch"], fails, stats)
        json.dump(dict(failures=fails, stats=stats), sys.stdout)
        return
    splits = ["Miehe", "Amor"] if tier == "quick" else ["Miehe", "Amor", "Bourdin", "Stress", "He", "AnisotStrain", "Zhang"]
    top = 0.008
    for solver in ("History", "HistoryDamage", "BoundConstrain"):
        for regu in ("AT2", "AT1"):
            for split in splits:
                if tier == "quick" and split == "Amor" and regu == "AT1":
                    continue
                a, b, c = sorted(rng.uniform(0.3, 1.0) * top for _ in range(3))
                loads = [a, b, 0.2 * a, 0.0, 0.5 * b, c, 0.1 * c]
                run_one(split, regu, solver, loads, True, fails, stats)
            run_one("Miehe", regu, solver, [0.0, 0.0, 0.0], False, fails, stats)
    # dedupe by key (keep first)
    seen, out = set(), []
    for f in fails:
        if f["key"] not in seen:
            seen.add(f["key"])
            out.append(f)
    json.dump(dict(failures=out, nfail=len(fails), stats=stats), sys.stdout)


if __name__ == "__main__":
    main()
