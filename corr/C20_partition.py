"""C20 — run in the implementation's environment.

stdin : JSON {"cases": [{"id", "kind", "params", "Nproc", "assemble": bool}], "merge": [...]}
stdout: JSON {"cases": [...], "merge": [...]}

For each partition case the gmsh mesh is built twice with identical options: once unpartitioned
(Mesher._Mesh_Get_Meshes(1), the reference) and once split in Nproc parts
(Mesher._Mesh_Get_Meshes(Nproc)); everything the model needs (global connectivity per element
group in processing order, the element->rank map READ BACK from the implementation's output) and
everything that is compared against the model (the five arrays of _Get_partitioned_data /
_globalElements per group and part, Mesh._Get_mpi_owned_nodes) is printed.  The property's own
predicates are also evaluated directly on the implementation's output (row-completeness, node
ownership, stiffness rows, energy) so that a model/implementation disagreement can be told from a
violation of the property.

Serial paths only: mpi4py/MPI is not available; MPI_SIZE == 1 throughout.
"""
import json
import sys
import io
import contextlib

import numpy as np


def build(kind, params, Nproc):
    import gmsh
    from EasyFEA import Mesher, ElemType
    from EasyFEA.Geoms import Domain, Point

    if gmsh.isInitialized():   # a previous build that raised leaves gmsh (and its options) alive
        gmsh.finalize()
    mesher = Mesher(openGmsh=False, verbosity=False)
    if kind == "2d":
        et = getattr(ElemType, params["elemType"])
        mesher._Init_gmsh("occ")
        dom = Domain(Point(), Point(params.get("L", 10), params.get("H", 10)), params["ms"])
        mesher._Surfaces(dom, [])
        mesher._Organise_Surfaces(et, bool(params.get("organised", False)), params["ms"])
        mesher._Set_PhysicalGroups()
        mesher._Mesh_Generate(2, et)
    elif kind == "mixed2d":
        mesher._Init_gmsh("occ")
        f = gmsh.model.occ
        w = params["w"]
        s1 = f.addRectangle(0, 0, 0, w, 10)
        s2 = f.addRectangle(w, 0, 0, 10 - w, 10)
        f.fragment([(2, s1)], [(2, s2)])
        f.synchronize()
        gmsh.option.setNumber("Mesh.MeshSizeMax", params["ms"])
        gmsh.option.setNumber("Mesh.MeshSizeMin", params["ms"])
        gmsh.model.mesh.setRecombine(2, s2)
        mesher._Set_PhysicalGroups()
        mesher._Mesh_Generate(2, ElemType.TRI3)
    elif kind == "3d":
        et = getattr(ElemType, params["elemType"])
        mesher._Init_gmsh()
        dom = Domain(Point(), Point(params.get("L", 4), params.get("H", 3)), params["ms"])
        mesher._Surfaces(dom, [])
        mesher._Organise_Surfaces(et, bool(params.get("organised", False)), params["ms"])
        surfaces = [e[1] for e in mesher._factory.getEntities(2)]
        mesher._Extrude(surfaces=surfaces, extrude=(0, 0, params.get("T", 2)), elemType=et,
                        layers=[params.get("layers", 2)])
        mesher._Set_PhysicalGroups()
        mesher._Mesh_Generate(3, et)
    elif kind == "mixed3d":
        # a TRI+QUAD surface extruded with recombination: PRISM6 + HEXA8 in one mesh
        mesher._Init_gmsh("occ")
        f = gmsh.model.occ
        w = params["w"]
        s1 = f.addRectangle(0, 0, 0, w, 4)
        s2 = f.addRectangle(w, 0, 0, 6 - w, 4)
        f.fragment([(2, s1)], [(2, s2)])
        f.synchronize()
        gmsh.option.setNumber("Mesh.MeshSizeMax", params["ms"])
        gmsh.option.setNumber("Mesh.MeshSizeMin", params["ms"])
        surfs = [e for e in f.getEntities(2)]
        gmsh.model.mesh.setRecombine(2, s2)
        f.extrude(surfs, 0, 0, params.get("T", 2), numElements=[params.get("layers", 1)], recombine=True)
        f.synchronize()
        mesher._Set_PhysicalGroups()
        mesher._Mesh_Generate(3, ElemType.PRISM6)
    else:
        raise ValueError(kind)
    # coef: change of the length unit applied by the mesher to the node coordinates (scaled twins)
    return mesher._Mesh_Get_Meshes(Nproc, float(params.get("coef", 1.0)))


def ilist(a):
    return [int(x) for x in np.asarray(a).ravel()]


def elastic_K(mesh, dim):
    from EasyFEA import Models, Simulations

    if dim == 2:
        mat = Models.Elastic.Isotropic(2, E=8.0, v=0.25, planeStress=True, thickness=1.5)
    else:
        mat = Models.Elastic.Isotropic(3, E=8.0, v=0.25)
    simu = Simulations.Elastic(mesh, mat)
    K = simu.Get_K_C_M_F()[0].tocsr()
    return K, simu


def run_case(c):
    kind, params, Nproc = c["kind"], c["params"], c["Nproc"]
    with contextlib.redirect_stdout(io.StringIO()):
        ref = build(kind, params, 1)[0]
    if Nproc > ref.Ne:     # the property quantifies over Nproc <= number of elements
        return {"id": c["id"], "skipped": "Nproc %d > Ne %d" % (Nproc, ref.Ne)}
    with contextlib.redirect_stdout(io.StringIO()):
        parts = build(kind, params, Nproc)
    res = {"id": c["id"], "kind": kind, "params": params, "Nproc": Nproc}
    dim = ref.dim
    names = [et.name for et in ref.dict_groupElem.keys()]
    res["order_same"] = all([et.name for et in p.dict_groupElem.keys()] == names for p in parts)
    groups = []
    problems = []
    for et, g in ref.dict_groupElem.items():
        Ne = g.Ne
        rank = [-1] * Ne      # -1: no owner seen, -2: several owners
        for r, p in enumerate(parts):
            gp = p.dict_groupElem.get(et)
            if gp is None:
                problems.append("part %d lacks group %s" % (r, et.name))
                continue
            for e in ilist(gp._Get_partitioned_data()[1]):
                if e < 0 or e >= Ne:
                    problems.append("part %d group %s owns unknown element %d" % (r, et.name, e))
                elif rank[e] == -1:
                    rank[e] = r
                else:
                    rank[e] = -2
        groups.append({"type": et.name, "dim": int(g.dim), "main": bool(g.dim == dim),
                       "connect": [ilist(row) for row in g.connect], "rank": rank})
    res["groups"] = groups
    res["Nn"] = int(ref.Nn)
    res["Ne_main"] = int(ref.Ne)
    outs = []
    not_canonical = []
    coords_ok = True
    rows_ok = True
    refcoord = ref.coord
    for r, p in enumerate(parts):
        po = []
        for et, g in ref.dict_groupElem.items():
            gp = p.dict_groupElem[et]
            rk, el, gh, nd, gn = gp._Get_partitioned_data()
            ge = gp._globalElements
            if int(rk) != (r if Nproc > 1 else 0):
                problems.append("part %d group %s reports rank %d" % (r, et.name, int(rk)))
            # rows kept = global rows in global order, global node ids
            if gp.connect.shape[0] != len(ge) or (len(ge) and not np.array_equal(gp.connect, g.connect[ge])):
                rows_ok = False
            if gp.Nn and not np.array_equal(p.coord[gp.nodes], refcoord[gp.nodes]):
                coords_ok = False
            for name, arr in (("elements", el), ("ghostElements", gh), ("nodes", nd), ("ghostNodes", gn), ("_globalElements", ge)):
                a = np.asarray(arr)
                if a.size > 1 and not np.all(np.diff(a) > 0):
                    not_canonical.append("part %d group %s: %s is not strictly increasing" % (r, et.name, name))
            if set(ilist(gn)) != set(ilist(gp.connect)) - set(ilist(nd)) or set(ilist(ge)) != set(ilist(el)) | set(ilist(gh)):
                not_canonical.append("part %d group %s: ghostNodes != nodes(connect) - nodes, or _globalElements != elements U ghostElements" % (r, et.name))
            po.append({"elements": ilist(el), "ghosts": ilist(gh), "nodes": ilist(nd),
                       "ghostNodes": ilist(gn), "global": ilist(ge)})
        outs.append(po)
    res["parts"] = outs
    # the partition data must survive Mesh.Save / Load_Mesh, copy.deepcopy and pickle (tagged groups included)
    rt_problems = []
    if Nproc > 1:
        import copy as _copy
        import pickle as _pickle
        import os as _os
        from EasyFEA.FEM._mesh import Load_Mesh
        folder = _os.path.join(_os.getcwd(), "tmp_meshes_C20")
        ntags = 0
        for r, p in enumerate(parts[:2]):       # two parts per case keep the quick tier fast
            try:
                with contextlib.redirect_stdout(io.StringIO()):
                    path = p.Save(folder, "case%d_part%d" % (c["id"], r))
                    clones = {"Save/Load_Mesh": Load_Mesh(path), "pickle": _pickle.loads(_pickle.dumps(p))}
                    if r == 0:
                        clones["deepcopy"] = _copy.deepcopy(p)
            except Exception as ex:
                rt_problems.append("part %d: round trip raises %s: %s" % (r, type(ex).__name__, ex))
                continue
            for how, q in clones.items():
                for et, gp in p.dict_groupElem.items():
                    gq = q.dict_groupElem.get(et)
                    ntags += len(gp.nodeTags)
                    if gq is None:
                        rt_problems.append("part %d %s: group %s lost" % (r, how, et.name))
                        continue
                    a, b = gp._Get_partitioned_data(), gq._Get_partitioned_data()
                    names_ = ("rank", "elements", "ghostElements", "nodes", "ghostNodes")
                    for k in range(5):
                        if not np.array_equal(np.asarray(a[k]), np.asarray(b[k])):
                            rt_problems.append("part %d %s: %s of group %s changed (%d -> %d entries)" % (r, how, names_[k], et.name, np.size(a[k]), np.size(b[k])))
                    if not np.array_equal(gp.connect, gq.connect):
                        rt_problems.append("part %d %s: connect of group %s changed" % (r, how, et.name))
                if not np.array_equal(np.asarray(p._Get_mpi_owned_nodes()), np.asarray(q._Get_mpi_owned_nodes())):
                    rt_problems.append("part %d %s: _Get_mpi_owned_nodes changed" % (r, how))
        res["roundtrip_tags_seen"] = ntags
    res["roundtrip_problems"] = rt_problems[:10]
    res["rows_ok"] = rows_ok
    res["not_canonical"] = not_canonical[:10]
    res["coords_ok"] = coords_ok and all(p.Nn == ref.Nn for p in parts)
    if Nproc > 1:
        owned = [ilist(p._Get_mpi_owned_nodes()) for p in parts]
    else:
        owned = [ilist(ref.nodes)]
    res["owned"] = owned
    res["problems"] = problems

    # ---- the property's predicates evaluated on the implementation's output ----
    main_groups = [(et, g) for et, g in ref.dict_groupElem.items() if g.dim == dim]
    used = sorted(set(int(n) for _, g in main_groups for n in g.connect.ravel()))
    allown = sorted(n for o in owned for n in o)
    res["nodes_partitioned"] = (allown == used)
    incomplete = []
    for r, p in enumerate(parts):
        oset = set(owned[r])
        for et, g in main_groups:
            have = set(ilist(p.dict_groupElem[et]._globalElements))
            for e, row in enumerate(g.connect):
                hit = oset.intersection(int(n) for n in row)
                if hit and e not in have:
                    incomplete.append({"rank": r, "type": et.name, "element": e, "row": ilist(row),
                                       "owned_nodes_hit": sorted(hit)})
    # hypothesis boundary_ok of C20_node_owner_exists: every node of a lower-dimensional element with
    # an owner is carried by a main-dimension element of the same rank
    main_nodes_of_rank = {}
    for gr in groups:
        if gr["main"]:
            for row, rk in zip(gr["connect"], gr["rank"]):
                main_nodes_of_rank.setdefault(rk, set()).update(row)
    res["boundary_ok"] = all(set(row) <= main_nodes_of_rank.get(rk, set())
                             for gr in groups if not gr["main"]
                             for row, rk in zip(gr["connect"], gr["rank"]) if rk >= 0)
    res["row_incomplete"] = incomplete[:20]
    res["row_incomplete_count"] = len(incomplete)

    # ---- stiffness rows and energies ----
    if c.get("assemble"):
        try:
            with contextlib.redirect_stdout(io.StringIO()):
                K, simu = elastic_K(ref, dim)
            scale = float(abs(K).max())
            rng = np.random.default_rng(c.get("seed", 0))
            x = rng.integers(-8, 9, size=K.shape[0]).astype(float) / 8.0
            Eglob = float(0.5 * x @ (K @ x))
            Rglob = K @ x
            # a SOLVED field for the implementation's own Calc_Energy / Calc_Reaction
            solved = False
            u = x.copy()
            try:
                with contextlib.redirect_stdout(io.StringIO()):
                    cx = ref.coord[:, 0]
                    ctol = 1e-9 * float(cx.max() - cx.min())       # relative: the mesh may be nano- or kilometre-sized
                    n0 = np.where(np.abs(cx - cx.min()) < ctol)[0]
                    n1 = np.where(np.abs(cx - cx.max()) < ctol)[0]
                    simu.add_dirichlet(n0, [0.0] * dim, ["x", "y", "z"][:dim])
                    simu.add_surfLoad(n1, [1.0, 0.5], ["x", "y"])
                    u = np.asarray(simu.Solve(), dtype=float).copy()
                    solved = bool(np.all(np.isfinite(u)) and np.abs(u).max() > 0)
            except Exception:
                solved = False
            if not solved:
                u = x.copy()
                simu._Set_solutions(simu.problemType, u)
            Eg_impl = float(simu.Calc_Energy(K, u))                 # dofs default: every dof of the mesh
            gd = np.asarray(simu.Get_dofs(), dtype=int)
            Rg_impl = np.zeros(K.shape[0])
            Rg_impl[gd] = np.asarray(simu.Calc_Reaction(), dtype=float)
            Es_impl = 0.0
            Rs_impl = np.zeros(K.shape[0])
            Esum = 0.0
            Rsum = np.zeros(K.shape[0])
            worst = 0.0
            worst_at = None
            unknowns = ["x", "y", "z"][:dim]
            part_sims = []
            for r, p in enumerate(parts):
                with contextlib.redirect_stdout(io.StringIO()):
                    Kr, sr = elastic_K(p, dim)
                part_sims.append(sr)
                dofs = sr.Bc_dofs_nodes(np.asarray(owned[r], dtype=int), unknowns) if len(owned[r]) else np.zeros(0, dtype=int)
                if len(dofs):
                    d = abs(Kr[dofs] - K[dofs])
                    m = float(d.max()) if d.nnz else 0.0
                    if m > worst:
                        worst = m
                        i = int(np.argmax(np.asarray(d.max(axis=1).todense()).ravel()))
                        worst_at = {"rank": r, "dof": int(dofs[i]), "node": int(dofs[i] // dim)}
                    Esum += float(0.5 * x[dofs] @ (Kr[dofs] @ x))
                    Rsum[dofs] += Kr[dofs] @ x
                    # the implementation's own functions on the part, with the part's owned dofs
                    # (MPI_SIZE == 1: Reduce_sum is the identity, the sum over the parts is done here)
                    sr._Set_solutions(sr.problemType, u)
                    Es_impl += float(sr.Calc_Energy(Kr, u, dofs))
                    Rr = np.asarray(sr.Calc_Reaction(dofs.copy()), dtype=float)
                    if Rr.shape[0] == dofs.shape[0]:
                        Rs_impl[dofs] += Rr
                    else:
                        Rs_impl[:] = np.nan
            # reaction on the clamped side, as a partitioned script computes it: every part passes the support dofs IT
            # OWNS (an empty array on the parts owning none) and the contributions are summed
            sup_nodes = set(int(n) for n in n0) if solved else set(int(n) for n in np.asarray(ref.nodes)[: max(1, ref.Nn // 7)])
            sup_sum, empty_lens, n_empty = 0.0, [], 0
            for r, p in enumerate(parts):
                mine = np.asarray(sorted(sup_nodes.intersection(owned[r])), dtype=int)
                sr = part_sims[r]
                sr._Set_solutions(sr.problemType, u)
                dsel = sr.Bc_dofs_nodes(mine, unknowns) if mine.size else np.zeros(0, dtype=int)
                Rr = np.asarray(sr.Calc_Reaction(np.asarray(dsel, dtype=int)), dtype=float)
                if mine.size == 0:
                    n_empty += 1
                    empty_lens.append(int(Rr.size))
                sup_sum += float(Rr.sum()) if Rr.size == np.size(dsel) else float("nan")
            sup_dofs = simu.Bc_dofs_nodes(np.asarray(sorted(sup_nodes), dtype=int), unknowns)
            sup_glob = float((K @ u)[sup_dofs].sum())
            sup_scale = float(abs((K @ u)[sup_dofs]).sum()) + 1e-300
            res["K"] = {"scale": scale, "max_row_diff": worst, "worst_at": worst_at,
                        "support": {"sum_parts": sup_sum, "global": sup_glob, "scale": sup_scale, "parts_with_empty_selection": n_empty,
                                    "returned_sizes_for_empty_selection": empty_lens},
                        "E_global": Eglob, "E_sum_parts": Esum,
                        "R_diff": float(abs(Rsum - Rglob).max()), "R_scale": float(abs(Rglob).max()),
                        "impl": {"solved_field": solved, "E_global": Eg_impl, "E_sum_parts": Es_impl,
                                 "E_formula_global": float(0.5 * u @ (K @ u)),
                                 "R_diff": float(np.nanmax(np.abs(Rs_impl - Rg_impl))) if np.all(np.isfinite(Rs_impl)) else float("inf"),
                                 "R_vs_Ku": float(abs(Rg_impl - K @ u).max()), "R_scale": float(max(abs(Rg_impl).max(), 1e-300))}}
        except Exception as ex:  # reported by the driver
            res["K"] = {"error": "%s: %s" % (type(ex).__name__, ex)}
    return res


def run_merge(c):
    """c: {"meshes": [{"coords": [[x,y,z] ints/8], "groups": {"TRI3": [[..]]}}], "mergePoints", "unique"}"""
    from EasyFEA import Mesh, ElemType
    from EasyFEA.FEM._group_elem import GroupElemFactory

    meshes = []
    for m in c["meshes"]:
        coords = np.asarray(m["coords"], dtype=float) / 8.0 * float(c.get("coord_scale", 1.0))
        pert = c.get("perturb")
        if pert and len(meshes) == pert["mesh"]:
            # seam nodes of this mesh moved by an ABSOLUTE distance delta (documented tolerance: 1e-12 absolute)
            coords[np.asarray(pert["nodes"], dtype=int), 0] += float(pert["delta"])
        d = {}
        for name, conn in m["groups"].items():
            et = getattr(ElemType, name)
            d[et] = GroupElemFactory.Create(et, np.asarray(conn, dtype=int), coords)
        meshes.append(Mesh(d))
    with contextlib.redirect_stdout(io.StringIO()):
        merged, mapping = Mesh.Merge(meshes, constructUniqueElements=bool(c["unique"]),
                                     mergePoints=bool(c["mergePoints"]), return_mapping=True)
    mc = merged.coord * 8.0 / float(c.get("coord_scale", 1.0))
    res = {"id": c["id"],
           "coords": [[int(round(v)) for v in row] for row in mc],
           "coords_exact": bool(np.array_equal(mc, np.round(mc))),
           "mapping": [ilist(mp) for mp in mapping],
           "area": float(sum(g.area for g in merged.Get_list_groupElem(2))) / float(c.get("coord_scale", 1.0)) ** 2 if merged.dim == 2 else None,
           "groups": {et.name: [ilist(r) for r in g.connect] for et, g in merged.dict_groupElem.items()}}
    # the invariant of return_mapping, on the real objects: merged.coord[mapping[i]] == mesh_i.coord (every input,
    # lower-dimensional ones included)
    mcoord = merged.coord
    res["Nn"] = int(merged.Nn)
    res["inputs_recovered"] = [bool(np.allclose(mcoord[np.asarray(mp, dtype=int)], mi.coord, rtol=0, atol=2e-12 if c.get("perturb") else 0))
                               for mp, mi in zip(mapping, meshes)]
    if c.get("two_step") and len(meshes) >= 3:
        # merge of merges: Merge([Merge(first k), rest...]) must be the one-step merge up to the numbering
        k = int(c["two_step"])
        with contextlib.redirect_stdout(io.StringIO()):
            first = Mesh.Merge(meshes[:k], constructUniqueElements=bool(c["unique"]), mergePoints=bool(c["mergePoints"]))
            two = Mesh.Merge([first] + meshes[k:], constructUniqueElements=bool(c["unique"]), mergePoints=bool(c["mergePoints"]))

        def geo(mesh):
            cc = mesh.coord
            return {et.name: sorted(sorted(tuple(float(v) for v in cc[n]) for n in row) for row in g.connect) for et, g in mesh.dict_groupElem.items()}
        pts1 = sorted(tuple(float(v) for v in row) for row in mcoord)
        pts2 = sorted(tuple(float(v) for v in row) for row in two.coord)
        res["two_step"] = {"Nn_one_step": int(merged.Nn), "Nn_two_step": int(two.Nn), "points_equal": pts1 == pts2,
                           "elements_equal": geo(merged) == geo(two)}
    return res


def main():
    req = json.load(sys.stdin)
    out = {"cases": [], "merge": []}
    for c in req.get("cases", []):
        try:
            out["cases"].append(run_case(c))
        except Exception as ex:
            import traceback
            out["cases"].append({"id": c["id"], "error": "%s: %s" % (type(ex).__name__, ex),
                                 "traceback": traceback.format_exc()[-1500:]})
    for c in req.get("merge", []):
        try:
            out["merge"].append(run_merge(c))
        except Exception as ex:
            import traceback
            out["merge"].append({"id": c["id"], "error": "%s: %s" % (type(ex).__name__, ex),
                                 "traceback": traceback.format_exc()[-1500:]})
    sys.stdout.write("\n@@C20JSON@@" + json.dumps(out))


if __name__ == "__main__":
    main()
