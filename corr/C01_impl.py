"""C01 implementation side: full patch tests through the real pipeline.

stdin : {"cases": [...]}    stdout: '@@JSON@@' + {"results": [...]}
Each case: build a mesh (gmsh on a rectangle/box/line, affine map, node renumbering; or a hand-built
mixed QUAD4+TRI3 grid), a model, prescribe a random linear field on the boundary nodes, Solve(), and
return the solution at interior nodes and the post-processed strain / stress / energy together with
the exact values of the linear field.
"""
import json
import sys

import numpy as np

from corr.C02_impl import gmsh_mesh, rebuild, measure_of


def all_groups(mesh):
    return list(mesh.dict_groupElem.values())


def group_spread(mesh):
    """max |g.coord - mesh.coord[g.nodes]| over ALL groups (every group must see the same coordinates)"""
    X = np.asarray(mesh.coord, dtype=float)
    sp = 0.0
    for g in all_groups(mesh):
        gc = np.asarray(g.coord, dtype=float)
        nodes = np.asarray(g.nodes)
        ref = X[nodes] if gc.shape[0] == nodes.size else X
        if gc.shape == ref.shape and gc.size:
            sp = max(sp, float(np.abs(gc - ref).max()))
    return sp / max(float(np.abs(X).max()), 1e-300)       # relative to the coordinate magnitude


def apply_moves(mesh, moves):
    """in-place motions through the public Mesh API; after each one every group must still share the
    coordinates.  moves: ["translate", [dx,dy,dz]] | ["rotate", deg, [axis]] | ["mirror", [n]] |
    ["coord", 3x3 matrix B (mesh.coord = mesh.coord @ B.T)]"""
    log = []
    for mv in moves or []:
        if mv[0] == "translate":
            # the vector is given in units of the CURRENT size of the mesh (a translation by O(1) of a part of
            # size 1e-6 would make |x|/h ~ 1e6 and the input itself ill-conditioned in double precision)
            size = float(np.ptp(np.asarray(mesh.coord, dtype=float), axis=0).max())
            mesh.Translate(*[size * float(v) for v in mv[1]])
        elif mv[0] == "rotate":
            mesh.Rotate(mv[1], mesh.center, tuple(mv[2]))
        elif mv[0] == "mirror":
            mesh.Symmetry(mesh.center, tuple(mv[1]))
        elif mv[0] == "scale":
            mesh.coord = np.asarray(mesh.coord, dtype=float) * float(mv[1])
        elif mv[0] == "coord":
            mesh.coord = np.asarray(mesh.coord, dtype=float) @ np.asarray(mv[1], dtype=float).T
        else:
            raise ValueError(mv[0])
        log.append([mv[0], group_spread(mesh)])
    return log


def readonly_queries(mesh, rs, simu=None):
    """legal READ-ONLY calls on the mesh / groups / simulation; the coordinates of the mesh and of every
    group must be bit-identical before and after each call.  Returns [name, max change, error-or-None]."""
    from EasyFEA.FEM._utils import MatrixType
    X0 = np.asarray(mesh.coord, dtype=float).copy()
    # a smooth NON-affine displacement of the order of 5% of the size
    size = float(np.ptp(X0, axis=0).max())
    Umat = np.zeros_like(X0)
    dim = mesh.dim
    Umat[:, :dim] = 0.05 * size * np.sin(1.3 * X0[:, :dim] / size + 0.4) * (1 + 0.5 * np.cos(X0[:, [0]] / size))
    main, lower = mesh.Get_list_groupElem(), (mesh.Get_list_groupElem(dim - 1) if dim > 1 else [])
    pts = X0[np.asarray(main[0].connect)[:: max(1, main[0].Ne // 4)][:4]].mean(axis=1)
    calls = []
    for g in main:
        for mt in (MatrixType.rigi, MatrixType.mass):
            calls.append(("Get_GaussCoordinates_e_pg(%s)" % mt.name, lambda g=g, mt=mt: g.Get_GaussCoordinates_e_pg(mt)))
            calls.append(("Get_GaussCoordinates_e_pg(%s, displacementMatrix)" % mt.name, lambda g=g, mt=mt: g.Get_GaussCoordinates_e_pg(mt, displacementMatrix=Umat)))
        calls.append(("Get_dN_e_pg", lambda g=g: g.Get_dN_e_pg(MatrixType.rigi)))
        calls.append(("Get_jacobian_e_pg(signed)", lambda g=g: g.Get_jacobian_e_pg(MatrixType.mass, absoluteValues=False)))
        calls.append(("Integrate_e", lambda g=g: g.Integrate_e(lambda x, y, z: x + 2 * y - z)))
    for g in lower:
        calls.append(("boundary Get_GaussCoordinates_e_pg(displacementMatrix)", lambda g=g: g.Get_GaussCoordinates_e_pg(MatrixType.mass, displacementMatrix=Umat)))
        calls.append(("boundary Get_normals_e_pg", lambda g=g: g.Get_normals_e_pg(MatrixType.mass)))
        calls.append(("boundary Get_normals_e_pg(displacementMatrix)", lambda g=g: g.Get_normals_e_pg(MatrixType.mass, displacementMatrix=Umat)))
    calls += [("Mesh.Get_normals", lambda: mesh.Get_normals()),
              ("Mesh.Get_normals(displacementMatrix)", lambda: mesh.Get_normals(displacementMatrix=Umat)),
              ("Mesh.Evaluate_dofsValues_at_coordinates", lambda: mesh.Evaluate_dofsValues_at_coordinates(pts, X0[:, 0].copy())),
              ("Mesh.Get_Quality", lambda: mesh.Get_Quality()),
              ("Mesh.Get_meshSize", lambda: mesh.Get_meshSize()),
              ("Mesh.center/measure", lambda: (mesh.center, measure_of(mesh)))]
    if simu is not None:
        for nm in ("Strain", "Stress", "Wdef", "displacement_matrix", "Svm"):
            calls.append(("simu.Result(%s)" % nm, lambda nm=nm: simu.Result(nm)))
        calls.append(("simu.Results_displacement_matrix", lambda: simu.Results_displacement_matrix()))
    out = []
    for name, fn in calls:
        before = [np.asarray(g.coord, dtype=float).copy() for g in all_groups(mesh)]
        Xb = np.asarray(mesh.coord, dtype=float).copy()
        err = None
        try:
            fn()
        except Exception as ex:      # the call itself failing is not this property's predicate
            err = "%s: %s" % (type(ex).__name__, str(ex)[:120])
        ch = float(np.abs(np.asarray(mesh.coord, dtype=float) - Xb).max())
        for g, b in zip(all_groups(mesh), before):
            a = np.asarray(g.coord, dtype=float)
            ch = max(ch, float(np.abs(a - b).max()) if a.shape == b.shape and a.size else 0.0)
        out.append([name, ch, err])
    return out


def boundary_nodes(mesh):
    dim = mesh.dim
    if dim == 1:
        X = np.asarray(mesh.coord)[:, 0]
        used = np.unique(mesh.connect)
        return np.array([used[np.argmin(X[used])], used[np.argmax(X[used])]])
    nodes = [np.asarray(g.connect).ravel() for g in mesh.Get_list_groupElem(dim - 1)]
    return np.unique(np.concatenate(nodes))


def mixed_mesh(case):
    """structured nx x ny grid on [0,L]x[0,H]; left half QUAD4, right half split into TRI3;
    boundary SEG2 group; affine map + renumbering"""
    from EasyFEA.FEM import Mesh
    from EasyFEA.FEM._group_elem import GroupElemFactory
    from EasyFEA.FEM._utils import ElemType
    nx, ny, L, H = case["nx"], case["ny"], case["L"], case["H"]
    xs, ys = np.linspace(0, L, nx + 1), np.linspace(0, H, ny + 1)
    X = np.zeros(((nx + 1) * (ny + 1), 3))
    idx = lambda i, j: j * (nx + 1) + i
    for j in range(ny + 1):
        for i in range(nx + 1):
            X[idx(i, j), :2] = xs[i], ys[j]
    quads, tris, segs = [], [], []
    for j in range(ny):
        for i in range(nx):
            a, b, c, d = idx(i, j), idx(i + 1, j), idx(i + 1, j + 1), idx(i, j + 1)
            if i < nx // 2:
                quads.append([a, b, c, d])
            else:
                tris += [[a, b, c], [a, c, d]]
    for i in range(nx):
        segs += [[idx(i, 0), idx(i + 1, 0)], [idx(i + 1, ny), idx(i, ny)]]
    for j in range(ny):
        segs += [[idx(nx, j), idx(nx, j + 1)], [idx(0, j + 1), idx(0, j)]]
    d = {ElemType.SEG2: GroupElemFactory.Create(ElemType.SEG2, np.array(segs), X),
         ElemType.TRI3: GroupElemFactory.Create(ElemType.TRI3, np.array(tris), X),
         ElemType.QUAD4: GroupElemFactory.Create(ElemType.QUAD4, np.array(quads), X)}
    mesh = Mesh(d)
    perm = np.random.RandomState(case["perm_seed"]).permutation(mesh.Nn)
    return rebuild(mesh, case.get("A"), case.get("b"), perm)


def make_material(case, dim):
    from EasyFEA import Models
    law, p = case["law"], case["params"]
    if law == "isotropic":
        return Models.Elastic.Isotropic(dim, E=p["E"], v=p["v"], planeStress=p.get("planeStress", True), thickness=p.get("thickness", 1.0))
    if law == "transverse":
        return Models.Elastic.TransverselyIsotropic(dim, El=p["El"], Et=p["Et"], Gl=p["Gl"], vl=p["vl"], vt=p["vt"],
                                                    axis_l=p["axis_l"][:dim], axis_t=p["axis_t"][:dim],
                                                    planeStress=p.get("planeStress", True), thickness=p.get("thickness", 1.0))
    if law == "orthotropic":
        return Models.Elastic.Orthotropic(dim, p["E1"], p["E2"], p["E3"], p["G23"], p["G13"], p["G12"], p["v23"], p["v13"], p["v12"],
                                          axis_1=p["axis_1"][:dim], axis_2=p["axis_2"][:dim],
                                          planeStress=p.get("planeStress", True), thickness=p.get("thickness", 1.0))
    raise ValueError(law)


def apply_bc(simu, bn, U, A, c, dim, mode, rs):
    """prescribe the linear displacement u = A x + c on the nodes bn.
    arrays        : one call, components in the natural order, nodal arrays
    perm-arrays   : one call, components (values AND unknown names) listed in a random permutation
    perm-callables: the same with callables of (x, y, z) evaluated by the library at the node coordinates
    callables     : natural order, callables
    split         : two calls, each with a subset of the components (random split, random order)"""
    unk = simu.Get_unknowns()
    fcall = [(lambda x, y, z, m=m: np.c_[x, y, z][:, :dim] @ A[m] + c[m]) for m in range(dim)]
    farr = [U[bn, m] for m in range(dim)]
    order = list(range(dim))
    if mode in ("perm-arrays", "perm-callables", "split"):
        order = [int(i) for i in rs.permutation(dim)]
        if order == list(range(dim)):
            order = order[::-1]
    vals = fcall if mode in ("callables", "perm-callables") else farr
    if mode == "split":
        k = 1 if dim == 2 else int(rs.randint(1, dim))
        for part in (order[:k], order[k:]):
            simu.add_dirichlet(bn, [(fcall if len(part) % 2 else farr)[m] for m in part], [unk[m] for m in part])
    else:
        simu.add_dirichlet(bn, [vals[m] for m in order], [unk[m] for m in order])


def run_elastic(case, mesh):
    from EasyFEA import Simulations
    dim = mesh.dim
    mat = make_material(case, dim)
    rs = np.random.RandomState(case["field_seed"])
    A = rs.uniform(-1, 1, (dim, dim)) * 1e-2
    craw = rs.uniform(-1, 1, dim) * 1e-2
    bn = np.asarray(case["_boundary"], dtype=int) if case.get("_boundary") is not None else boundary_nodes(mesh)
    pre = {}
    simu = None
    if case.get("sim_first"):
        # the simulation exists, has a Dirichlet condition and has been solved BEFORE the mesh is moved in place
        simu = Simulations.Elastic(mesh, mat)
        X0 = np.asarray(mesh.coord, dtype=float)[:, :dim]
        c0 = craw * float(np.ptp(X0, axis=0).max())
        apply_bc(simu, bn, X0 @ A.T + c0, A, c0, dim, "callables", rs)
        u0 = np.asarray(simu.Solve(), dtype=float).reshape(-1, dim)
        pre["first_solve_err"] = float(np.abs(u0 - (X0 @ A.T + c0)).max() / np.abs(X0 @ A.T + c0).max())
    pre.update({"moves_log": apply_moves(mesh, case.get("moves")), "spread_before": group_spread(mesh)})
    if case.get("queries"):
        pre["queries_log"] = readonly_queries(mesh, rs)
    if simu is None:
        simu = Simulations.Elastic(mesh, mat)
    else:
        simu.Bc_Init()
    X = np.asarray(mesh.coord, dtype=float)[:, :dim]
    Lc = float(np.ptp(X, axis=0).max())
    # homogeneous in the length unit: dimensionless gradient, offset proportional to the size of the part
    c = craw * Lc
    U = X @ A.T + c
    unk = simu.Get_unknowns()
    bc_mode = "callables" if case.get("sim_first") else case.get("bc_mode", "arrays")
    if case.get("assemble_only"):
        used = np.unique(np.concatenate([np.asarray(g.connect).ravel() for g in mesh.Get_list_groupElem()]))
        interior = np.setdiff1d(used, bn)
        K = simu.Get_K_C_M_F()[0]
        r = K @ U.ravel()
        idof = (interior[:, None] * dim + np.arange(dim)[None, :]).ravel()
        eps = (A + A.T) / 2
        cm = 1 / np.sqrt(2)
        e = np.array([eps[0, 0], eps[1, 1], 2 * cm * eps[0, 1]]) if dim == 2 else \
            np.array([eps[0, 0], eps[1, 1], eps[2, 2], 2 * cm * eps[1, 2], 2 * cm * eps[0, 2], 2 * cm * eps[0, 1]])
        C = np.asarray(mat.C, dtype=float)
        th = float(mat.thickness) if dim == 2 else 1.0
        return {"Nn": int(mesh.Nn), "Ne": int(mesh.Ne), "dim": dim, "n_interior": int(interior.size), "n_boundary": int(bn.size),
                "assemble_only": True, "ndof": int(mesh.Nn * dim), "pre": pre, "scale_u": float(np.abs(U).max()), "err_u_interior": 0.0,
                "residual_interior": float(np.abs(r[idof]).max()), "residual_scale": float(np.abs(K).max() * np.abs(U).max()),
                "energy": float(U.ravel() @ r), "energy_exact": float(th * measure_of(mesh) * (e @ C @ e))}
    apply_bc(simu, bn, U, A, c, dim, bc_mode, rs)
    u = np.asarray(simu.Solve(), dtype=float).reshape(-1, dim)
    used = np.unique(np.concatenate([np.asarray(g.connect).ravel() for g in mesh.Get_list_groupElem()]))
    interior = np.setdiff1d(used, bn)
    eps = (A + A.T) / 2
    cm = 1 / np.sqrt(2)
    if dim == 2:
        e = np.array([eps[0, 0], eps[1, 1], 2 * cm * eps[0, 1]])
        comps = ["xx", "yy", "xy"]
        plain_e = [eps[0, 0], eps[1, 1], eps[0, 1]]
    else:
        e = np.array([eps[0, 0], eps[1, 1], eps[2, 2], 2 * cm * eps[1, 2], 2 * cm * eps[0, 2], 2 * cm * eps[0, 1]])
        comps = ["xx", "yy", "zz", "yz", "xz", "xy"]
        plain_e = [eps[0, 0], eps[1, 1], eps[2, 2], eps[1, 2], eps[0, 2], eps[0, 1]]
    C = np.asarray(mat.C, dtype=float)
    s = C @ e
    plain_s = list(s[:dim]) + [x * cm for x in s[dim:]]
    th = float(mat.thickness) if dim == 2 else 1.0
    res = {"Nn": int(mesh.Nn), "Ne": int(mesh.Ne), "dim": dim, "n_interior": int(interior.size), "n_boundary": int(bn.size),
           "coord_conditioning": float(np.abs(X).max() / max(Lc, 1e-300)),
           "scale_u": float(np.abs(U).max()),
           "err_u_interior": float(np.abs(u[interior] - U[interior]).max()) if interior.size else 0.0,
           "err_u_all": float(np.abs(u[used] - U[used]).max()),
           "pre": pre,
           "exact_strain_KM": e.tolist(), "exact_stress_KM": s.tolist(), "measure": measure_of(mesh),
           "Wdef": float(simu.Result("Wdef")), "Wdef_exact": float(0.5 * th * measure_of(mesh) * (e @ C @ e))}
    for nm, comp_prefix, exact in (("strain", "E", plain_e), ("stress", "S", plain_s)):
        errs = []
        for cname, ex in zip(comps, exact):
            v = np.asarray(simu.Result(comp_prefix + cname, nodeValues=False), dtype=float)
            errs.append(float(np.abs(v - ex).max()))
        res["err_" + nm + "_comp"] = max(errs)
        res["scale_" + nm] = float(np.abs(exact).max())
    for nm, exactKM, exactP in (("Strain", e, plain_e), ("Stress", s, plain_s)):
        v = np.asarray(simu.Result(nm, nodeValues=False), dtype=float)
        v = v.reshape(mesh.Ne, -1)
        res["shape_" + nm] = list(v.shape)
        res["err_%s_plain" % nm] = float(np.abs(v - np.asarray(exactP)[None, :]).max()) if v.shape[1] == len(exactP) else None
        res["err_%s_KM" % nm] = float(np.abs(v - np.asarray(exactKM)[None, :]).max()) if v.shape[1] == len(exactKM) else None
    if case.get("queries"):
        # read-only queries on the mesh AND the solved simulation, then the patch test again, with a NEW
        # simulation on the same mesh object and the boundary data of the ORIGINAL coordinates
        res["pre"]["queries_log_after_solve"] = readonly_queries(mesh, rs, simu)
        simq = Simulations.Elastic(mesh, mat)
        simq.add_dirichlet(bn, [U[bn, m] for m in range(dim)], unk)
        uq = np.asarray(simq.Solve(), dtype=float).reshape(-1, dim)
        res["requery_err_u"] = float(np.abs(uq[used] - U[used]).max())
        res["requery_err_strain"] = max(float(np.abs(np.asarray(simq.Result("E" + cn, nodeValues=False), dtype=float) - ex).max()) for cn, ex in zip(comps, plain_e))
        res["requery_Wdef"] = float(simq.Result("Wdef"))
        res["requery_coord_change"] = float(np.abs(np.asarray(mesh.coord, dtype=float)[:, :dim] - X).max())
    if case.get("remap") is not None:
        # near-identity rigid motion of the SAME mesh object after the first solve (relative change
        # ~1e-6), then a second patch test on the same simulation: every geometry-derived cached value
        # must follow the coordinates
        th_deg, axis = case["remap"]
        mesh.Rotate(th_deg, mesh.center, tuple(axis))
        X2 = np.asarray(mesh.coord, dtype=float)[:, :dim]
        res["remap_moved"] = float(np.abs(X2 - X).max())
        U2 = X2 @ A.T + c
        simu.Bc_Init()
        simu.add_dirichlet(bn, [U2[bn, m] for m in range(dim)], unk)
        u2 = np.asarray(simu.Solve(), dtype=float).reshape(-1, dim)
        res["remap_err_u"] = float(np.abs(u2[used] - U2[used]).max())
        errs = []
        for cname, ex in zip(comps, plain_e):
            errs.append(float(np.abs(np.asarray(simu.Result("E" + cname, nodeValues=False), dtype=float) - ex).max()))
        res["remap_err_strain"] = max(errs)
        errs = []
        for cname, ex in zip(comps, plain_s):
            errs.append(float(np.abs(np.asarray(simu.Result("S" + cname, nodeValues=False), dtype=float) - ex).max()))
        res["remap_err_stress"] = max(errs)
        res["remap_Wdef"] = float(simu.Result("Wdef"))
        # then a near-identity shear + stretch through the public mesh.coord setter and a patch test
        # with a NEW simulation on the same mesh object (nobody observes the mesh at the time of the map)
        Bm = np.eye(3)
        Bm[:dim, :dim] += 1e-6 * np.array([[0.7, 1.0, 0.3], [-0.4, -0.9, 0.5], [0.2, -0.6, 0.8]])[:dim, :dim]
        meas2 = measure_of(mesh) * abs(np.linalg.det(Bm))
        simu = None                 # the first simulation is dropped: no live observer of the mesh
        import gc
        gc.collect()
        mesh.coord = np.asarray(mesh.coord, dtype=float) @ Bm.T
        X3 = np.asarray(mesh.coord, dtype=float)[:, :dim]
        U3 = X3 @ A.T + c
        simu3 = Simulations.Elastic(mesh, mat)
        simu3.add_dirichlet(bn, [U3[bn, m] for m in range(dim)], unk)
        u3 = np.asarray(simu3.Solve(), dtype=float).reshape(-1, dim)
        res["remap_err_u"] = max(res["remap_err_u"], float(np.abs(u3[used] - U3[used]).max()))
        for cname, ex, exs in zip(comps, plain_e, plain_s):
            res["remap_err_strain"] = max(res["remap_err_strain"], float(np.abs(np.asarray(simu3.Result("E" + cname, nodeValues=False), dtype=float) - ex).max()))
            res["remap_err_stress"] = max(res["remap_err_stress"], float(np.abs(np.asarray(simu3.Result("S" + cname, nodeValues=False), dtype=float) - exs).max()))
        res["remap_Wdef_new"] = float(simu3.Result("Wdef"))
        res["remap_Wdef_new_exact"] = float(0.5 * th * meas2 * (e @ C @ e))
        res["remap_measure_err"] = float(abs(measure_of(mesh) - meas2) / meas2)
        simu = simu3
        U = U3
    # discrete-divergence hypothesis of patch_equilibrium_partial: residual K u_lin at interior dofs
    K = simu.Get_K_C_M_F()[0]
    r = K @ U.ravel()
    idof = (interior[:, None] * dim + np.arange(dim)[None, :]).ravel()
    res["residual_interior"] = float(np.abs(r[idof]).max()) if interior.size else 0.0
    res["residual_scale"] = float(np.abs(K).max() * np.abs(U).max())
    return res


def run_thermal(case, mesh):
    from EasyFEA import Models, Simulations
    dim = mesh.dim
    p = case["params"]
    rs = np.random.RandomState(case["field_seed"])
    pre = {}
    simu = None
    if case.get("sim_first"):
        simu = Simulations.Thermal(mesh, Models.Thermal(k=p["k"], c=p["c"], thickness=p.get("thickness", 1.0)))
        Xf = np.asarray(mesh.coord, dtype=float)
        Lf = float(np.ptp(Xf, axis=0).max())
        bn0 = np.asarray(case["_boundary"], dtype=int) if case.get("_boundary") is not None else boundary_nodes(mesh)
        g0 = np.array([0.7, -0.6, 0.5]) / Lf
        simu.add_dirichlet(bn0, [lambda x, y, z: np.c_[x, y, z] @ g0 + 0.2], ["t"])
        t0 = np.asarray(simu.Solve(), dtype=float).ravel()
        pre["first_solve_err"] = float(np.abs(t0 - (Xf @ g0 + 0.2)).max())
    pre.update({"moves_log": apply_moves(mesh, case.get("moves")), "spread_before": group_spread(mesh)})
    if case.get("queries"):
        pre["queries_log"] = readonly_queries(mesh, rs)
    if simu is None:
        simu = Simulations.Thermal(mesh, Models.Thermal(k=p["k"], c=p["c"], thickness=p.get("thickness", 1.0)))
    else:
        simu.Bc_Init()
    X3 = np.asarray(mesh.coord, dtype=float)
    Lc = float(np.ptp(X3, axis=0).max())
    a3 = np.zeros(3)
    a3[:dim] = rs.uniform(0.5, 1.0, dim) * rs.choice([-1.0, 1.0], dim)   # variation O(1): no cancellation against the offset
    if case.get("embed") is not None:        # gradient lying in the embedded element plane / line
        a3 = np.asarray(case["embed"]["R"], dtype=float) @ a3
    # temperature varies by O(1) over the part whatever the length unit
    T = (X3 - X3.mean(axis=0)) @ (a3 / Lc) + 0.37
    bn = np.asarray(case["_boundary"], dtype=int) if case.get("_boundary") is not None else boundary_nodes(mesh)
    used = np.unique(np.concatenate([np.asarray(g.connect).ravel() for g in mesh.Get_list_groupElem()]))
    interior = np.setdiff1d(used, bn)
    if case.get("assemble_only"):
        t = T.copy()                     # no solve: only the assembled operator is examined (residual below)
    else:
        if case.get("sim_first") or case.get("bc_mode") == "callables":
            xm, gT = X3.mean(axis=0), a3 / Lc
            simu.add_dirichlet(bn, [lambda x, y, z: (np.c_[x, y, z] - xm) @ gT + 0.37], ["t"])
        else:
            simu.add_dirichlet(bn, [T[bn]], ["t"])
        t = np.asarray(simu.Solve(), dtype=float).ravel()
    K = simu.Get_K_C_M_F()[0]
    r = K @ T
    return {"Nn": int(mesh.Nn), "Ne": int(mesh.Ne), "dim": dim, "n_interior": int(interior.size), "n_boundary": int(bn.size),
            "coord_conditioning": float(np.abs(X3).max() / max(Lc, 1e-300)),
            "pre": pre,
            "scale_u": float(np.abs(T).max()),
            "err_u_interior": float(np.abs(t[interior] - T[interior]).max()) if interior.size else 0.0,
            "err_u_all": float(np.abs(t[used] - T[used]).max()),
            "residual_interior": float(np.abs(r[interior]).max()) if interior.size else 0.0,
            "residual_scale": float(np.abs(K).max() * np.abs(T).max()),
            "energy": float(T @ r), "energy_exact": float(p["k"] * (a3 @ a3) / Lc**2 * measure_of(mesh) * (p.get("thickness", 1.0) if dim == 2 else 1.0)),
            "inDim": int(mesh.inDim)}


def run_beam(case):
    """constant axial strain, constant curvature in BOTH bending planes and constant twist rate,
    written in the beam's local frame (i, j, k):
        u = e0 x',  v = kz x'^2/2,  w = ky x'^2/2,  rx = t0 x',  ry = -ky x',  rz = kz x'
    (no shear strain: v' - rz = 0, w' + ry = 0, so it is an equilibrium state of both theories with no
    load), mapped to the global frame with P = _Calc_P(), prescribed at the two end nodes only.
    Every node must reproduce it and the reported generalised strains / internal forces are the constants."""
    from EasyFEA import Mesher, Models, Simulations
    from EasyFEA.FEM._utils import ElemType
    from EasyFEA.Geoms import Domain, Point, Line
    bd, n = case["beamDim"], case["n"]
    p1 = np.array(case.get("p1", [0.0, 0.0, 0.0]), dtype=float)
    p2 = np.array(case.get("p2", [case.get("L", 1.0), 0.0, 0.0]), dtype=float)
    L = float(np.linalg.norm(p2 - p1))
    mesher = Mesher()
    section = mesher.Mesh_2D(Domain(Point(-case["b"] / 2, -case["h"] / 2), Point(case["b"] / 2, case["h"] / 2)))
    line = Line(Point(*p1), Point(*p2), L / n)
    kw = {} if case.get("yAxis") is None else {"yAxis": tuple(case["yAxis"])}
    beam = Models.Beam.Isotropic(bd, line, section, case["E"], case["v"], **kw)
    mesh = mesher.Mesh_Beams([beam], elemType=getattr(ElemType, case["elem"]))
    sc = float(case.get("scale") or 1.0)
    if sc != 1.0:
        # scaled twin: mesh and cross-section converted to another length unit through the coordinate setters
        mesh.coord = np.asarray(mesh.coord, dtype=float) * sc
        section.coord = np.asarray(section.coord, dtype=float) * sc
        beam.section = section            # re-assign: area and second moments follow the new unit
        p1, L = p1 * sc, L * sc
    simu = Simulations.Beam(mesh, Models.Beam.BeamStructure([beam]), useTimoshenko=case["timo"], verbosity=False)
    mesh = simu.mesh
    P = np.asarray(beam._Calc_P(), dtype=float)            # columns: local axes i, j, k in global coordinates
    X = np.asarray(mesh.coord, dtype=float)
    x = (X - p1) @ P[:, 0]
    # curvatures and twist rate are per unit length: the dimensionless kappa*L is kept
    e0, kz = case["axial"], case["curv"] / sc
    ky = (case.get("curv_y", 0.0) / sc) if bd == 3 else 0.0
    t0 = (case.get("twist", 0.0) / sc) if bd == 3 else 0.0
    if bd == 1:
        kz = 0.0
    ul = np.stack([e0 * x, kz * x**2 / 2, ky * x**2 / 2], axis=1)
    rl = np.stack([t0 * x, -ky * x, kz * x], axis=1)
    ug, rg = ul @ P.T, rl @ P.T
    exact = {"x": ug[:, 0], "y": ug[:, 1], "z": ug[:, 2], "rx": rg[:, 0], "ry": rg[:, 1], "rz": rg[:, 2]}
    unk = simu.Get_unknowns()
    ends = np.array([int(np.argmin(x)), int(np.argmax(x))])
    simu.add_dirichlet(ends, [exact[u][ends] for u in unk], unk)
    sol = np.asarray(simu.Solve(), dtype=float).reshape(mesh.Nn, -1)
    used = np.unique(mesh.connect)
    err = {u: float(np.abs(sol[used, i] - exact[u][used]).max()) for i, u in enumerate(unk)}
    scale = max(abs(e0) * L, abs(kz) * L * L / 2, abs(ky) * L * L / 2, abs(t0) * L, 1e-300)
    # unit-free errors: translations relative to the largest translation, rotations to the largest rotation
    s_t = max([float(np.abs(exact[u][used]).max()) for u in unk if not u.startswith("r")] + [1e-300])
    s_r = max([float(np.abs(exact[u][used]).max()) for u in unk if u.startswith("r")] + [s_t / L])
    err_rel = {u: err[u] / (s_r if u.startswith("r") else s_t) for u in unk}
    # reported constants (signed, except the bending-about-y pair whose sign convention is the library's)
    E_, nu = case["E"], case["v"]
    mu = E_ / (2 * (1 + nu))
    A_, Iy, Iz, J = float(beam.area), float(beam.Iy), float(beam.Iz), float(beam.J)
    signed = {"ux'": e0, "N": E_ * A_ * e0}
    magnitude = {}
    zero = []
    if bd >= 2:
        signed.update({"rz'": kz, "Mz": E_ * Iz * kz}); zero.append("Ty")
    if bd == 3:
        signed.update({"rx'": t0, "Mx": mu * J * t0}); magnitude.update({"ry'": abs(ky), "My": E_ * Iy * abs(ky)}); zero.append("Tz")
    avail = set(simu.Results_Available())
    post = {}
    fscale = max(abs(E_ * A_ * e0), abs(E_ * Iz * kz) / L, abs(E_ * Iy * ky) / L, 1e-300)
    for nm, val in signed.items():
        if nm in avail and val != 0:
            v = np.asarray(simu.Result(nm, nodeValues=False), dtype=float)
            post[nm] = float(np.abs(v - val).max() / abs(val))
    for nm, val in magnitude.items():
        if nm in avail and val != 0:
            v = np.asarray(simu.Result(nm, nodeValues=False), dtype=float)
            post[nm] = float(np.abs(np.abs(v) - val).max() / val)
            post[nm + ":sign_uniform"] = 0.0 if (np.all(v > 0) or np.all(v < 0)) else 1.0
    for nm in zero:
        if nm in avail:
            v = np.asarray(simu.Result(nm, nodeValues=False), dtype=float)
            post[nm] = float(np.abs(v).max() / fscale)
    return {"Nn": int(mesh.Nn), "Ne": int(mesh.Ne), "unknowns": unk, "err": err, "err_rel": err_rel, "scale": scale, "post": post,
            "n_interior": int(used.size - 2), "L": L}


def grid_mesh(case):
    """hand-built non-uniform grid (corr.C02_impl.grid_data), optionally embedded in 3-D by a rigid motion and
    converted to another length unit through the coordinate setter; boundary = boundary of the reference grid"""
    from EasyFEA.FEM import Mesh
    from EasyFEA.FEM._group_elem import GroupElemFactory
    from EasyFEA.FEM._utils import ElemType
    from corr.C02_impl import grid_data
    X, conn, meas = grid_data(case)
    Xref, _, _ = grid_data(dict(case, embed=None))
    et = getattr(ElemType, case["elem"])
    mesh = Mesh({et: GroupElemFactory.Create(et, conn, X)})
    if case.get("scale") is not None:
        mesh.coord = np.asarray(mesh.coord, dtype=float) * float(case["scale"])
    dim = mesh.dim
    lo, hi = Xref[:, :dim].min(axis=0), Xref[:, :dim].max(axis=0)
    tol = 1e-12 * float((hi - lo).max())
    onb = np.zeros(Xref.shape[0], dtype=bool)
    for d in range(dim):
        onb |= (np.abs(Xref[:, d] - lo[d]) <= tol) | (np.abs(Xref[:, d] - hi[d]) <= tol)
    return mesh, np.nonzero(onb)[0]


def run_case(case):
    try:
        if case["kind"] == "beam":
            return run_beam(case)
        if case["kind"] == "grid":
            mesh, bn = grid_mesh(case)
            case = dict(case, _boundary=bn.tolist())
            return run_elastic(case, mesh) if case["phys"] == "elastic" else run_thermal(case, mesh)
        mesh = mixed_mesh(case) if case["kind"] == "mixed" else gmsh_mesh(case)
        return run_elastic(case, mesh) if case["phys"] == "elastic" else run_thermal(case, mesh)
    except Exception as ex:
        import traceback
        return {"error": "%s: %s" % (type(ex).__name__, ex), "trace": traceback.format_exc()[-1500:]}


if __name__ == "__main__":
    import time
    req = json.load(sys.stdin)
    results = []
    for c in req["cases"]:
        t0 = time.time()
        r = run_case(c)
        r["secs"] = round(time.time() - t0, 3)
        results.append(r)
    sys.stdout.write("\n@@JSON@@\n")
    json.dump({"results": results}, sys.stdout)
