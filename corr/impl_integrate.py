"""Run in the implementation's environment. stdin: {"cases": [{"elem":..., "A": [[..]], "b": [..],
"nodes": optional explicit node coordinates (list of [x,y,z]) , "exps": [[a,b,c],...]}]}
Each case is a one-element group; prints measure, centre and Integrate_e of the monomials for
the mass and rigi rules."""
import json, sys
import numpy as np
from EasyFEA.FEM._group_elem import GroupElemFactory
from EasyFEA.FEM._utils import ElemType, MatrixType

req = json.load(sys.stdin)
out = []
for c in req["cases"]:
    et = getattr(ElemType, c["elem"])
    gid, nPe, dim = GroupElemFactory.DICT_ELEMTYPE[et][:3]
    cls = GroupElemFactory.GROUP_CLASS_MAP[et]
    g0 = cls(gid, np.arange(nPe).reshape(1, -1), np.zeros((nPe, 3)))
    loc = np.asarray(g0.Get_Local_Coords(), dtype=float)
    coords = np.zeros((nPe, 3))
    if c.get("nodes") is not None:
        coords[:] = np.array(c["nodes"], dtype=float)
    else:
        coords[:, :dim] = loc @ np.array(c["A"], dtype=float) + np.array(c["b"], dtype=float)
    g = cls(gid, np.arange(nPe).reshape(1, -1), coords)
    r = {"elem": c["elem"], "dim": dim}
    try:
        r["measure"] = float({1: g.length_e, 2: g.area_e, 3: g.volume_e}[dim][0])
        r["measure_total"] = float({1: g.length, 2: g.area, 3: g.volume}[dim])
        r["center"] = [float(x) for x in np.asarray(g.center).ravel()]
        for mt in ("mass", "rigi"):
            MT = getattr(MatrixType, mt)
            vals = []
            for (a, b, cc) in c["exps"]:
                vals.append(float(np.asarray(g.Integrate_e(lambda x, y, z, a=a, b=b, cc=cc: x**a * y**b * z**cc, MT)).ravel()[0]))
            r["int_" + mt] = vals
            r["npg_" + mt] = int(g.Get_gauss(MT).nPg)
    except Exception as ex:
        r["raises"] = "%s: %s" % (type(ex).__name__, str(ex)[:200])
    out.append(r)
json.dump(out, sys.stdout)
