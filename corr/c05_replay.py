"""C05 replay: run one scenario (a real EasyFEA simulation, a few Solve() steps) and evaluate the property's
own predicates on what the implementation returns:
  - the documented update relations between (u,v,a)^{n+1} and (u,v,a)^n,
  - K u_t + C v_t + M a_t = load on every free dof (u_t, v_t, a_t = documented evaluation points),
  - (coefK, coefC, coefM) = slopes of the states returned by _Solver_Evaluate_u_v_a_for_time_scheme,
  - (energy scenarios) 1/2 v'Mv + 1/2 u'Ku conserved / not increased.
Exit status 1 iff one of them fails beyond TOL (relative to the magnitude of the terms)."""
import sys

from corr import c05_oracle as O
from corr import c05_run

TOL = 1e-9


def check_steps(sc, steps, out=print):
    bad = []
    for n, (st, rec) in enumerate(zip(sc["steps"], steps)):
        algo = st["algo"]
        P = {k: st[k] for k in ("dt", "beta", "gamma", "alpha") if k in st}
        prev, new = rec["prev"], rec["new"]
        tag = "step %d %s %s" % (n, algo, P)
        # the scheme in force is the one just selected, with exactly the selected numbers (a change of 1 ulp counts)
        if "stored" in rec:
            if rec.get("algo_now") != algo:
                bad.append("%s: params: after selecting %s the simulation's algorithm is %s" % (tag, algo, rec.get("algo_now")))
            elif isinstance(rec["stored"], str):
                bad.append("%s: params: %s" % (tag, rec["stored"]))
            else:
                Pe = O.effective_params(algo, P)
                want = [Pe["dt"], Pe["alpha"]] if algo == "parabolic" else [Pe["dt"], Pe["beta"], Pe["gamma"], Pe["alpha"]]
                names = ["dt", "alpha"] if algo == "parabolic" else ["dt", "beta", "gamma", "alpha"]
                for nm, w, g in zip(names, want, rec["stored"]):
                    exact = not (algo == "hht_newmark" and nm in ("beta", "gamma"))
                    if (g != w) if exact else (abs(g - w) > 1e-14 * abs(w)):
                        bad.append("%s: params: selected %s = %r but the scheme keeps %r (difference %.3e)" % (tag, nm, w, g, g - w))
        for name, r, sc_ in O.update_residuals(algo, P, prev, new):
            m = max(abs(x) for x in r)
            if m > TOL * sc_:
                bad.append("%s: update relation `%s` violated: max residual %.3e (scale %.3e)" % (tag, name, m, sc_))
        if "K" in rec:
            load = [a + b for a, b in zip(rec["bN"], rec["F"])]
            r, ut, vt, at = O.eom_residual(algo, P, rec["K"], rec["C"], rec["M"], load, prev, new)
            terms = [O.matvec(rec["K"], ut), O.matvec(rec["C"], vt), load] + ([O.matvec(rec["M"], at)] if at is not None else [])
            sc_ = O.scale(*terms)
            free = rec["unknown"]
            m = max([abs(r[i]) for i in free] or [0.0])
            if m > TOL * sc_:
                i = max(free, key=lambda j: abs(r[j]))
                bad.append("%s: K u_t + C v_t + M a_t - F = %.6e at free dof %d (expected 0; scale %.3e)" % (tag, r[i], i, sc_))
            if rec.get("evd") is not None:
                d = rec["d"]
                for nm, e1, e0, c in zip(("u_t/coefK", "v_t/coefC", "a_t/coefM"), rec["evd"], rec["ev"], rec["coefs"]):
                    if e1 is None:
                        if algo == "euler_explicit" and nm.startswith("a_t"):
                            if c != 1:
                                bad.append("%s: coefM = %r but the solved unknown is a^n (slope 1)" % (tag, c))
                        elif c != 0:
                            bad.append("%s: %s: no state returned but coefficient %r" % (tag, nm, c))
                        continue
                    sl = [(p - q) - c * t for p, q, t in zip(e1, e0, d)]
                    sc_ = O.scale(e1, e0, [c * t for t in d])
                    m = max(abs(x) for x in sl)
                    if m > TOL * sc_:
                        bad.append("%s: %s: state(x+d)-state(x) differs from coef*d by %.3e (coef %r)" % (tag, nm, m, c))
    for n, rec in enumerate(steps):
        rs = rec.get("restart")
        if not rs:
            continue
        algo = sc["steps"][n]["algo"]
        k = rs["k"]
        saved = steps[k]["new"]
        used = ("u", "v") if algo == "parabolic" else ("u", "v", "a")   # the theta scheme carries no acceleration
        for f in used:
            m = max(abs(p - q) for p, q in zip(rs["restored"][f], saved[f]))
            if m > 0:
                bad.append("step %d %s: restart: after Save_Iter/Set_Iter(%d) the state read back differs from the state saved: max |d%s| = %.3e"
                           % (n, algo, k, f, m))
        for f in used:
            sc_ = O.scale(rec["new"][f])
            m = max(abs(p - q) for p, q in zip(rs["cont"][f], rec["new"][f]))
            if m > TOL * sc_:
                bad.append("step %d %s: restart: continuing from Set_Iter(%d) gives %s differing from the originally computed next iterate by %.3e (scale %.3e)"
                           % (n, algo, k, f, m, sc_))
    en = sc.get("energy")
    if en:
        K, M = steps[0]["K"], steps[0]["M"]
        E = [O.energy(K, M, steps[0]["prev"]["u"], steps[0]["prev"]["v"])] + [O.energy(K, M, r["new"]["u"], r["new"]["v"]) for r in steps]
        start = en.get("from_step", 0)
        for n, r in enumerate(steps):
            if "E_impl" in r and abs(r["E_impl"] - E[n + 1]) > 1e-9 * abs(E[n + 1]):
                bad.append("step %d %s: simu.Calc_Energy gives %.12e but 1/2 v'Mv + 1/2 u'Ku = %.12e" % (n, sc["steps"][n]["algo"], r["E_impl"], E[n + 1]))
        for n in range(start, len(steps)):
            algo = sc["steps"][n]["algo"]
            d = E[n + 1] - E[n]
            tol = 1e-9 * max(abs(e) for e in E)      # relative to the run's own energy level (scale invariant)
            if algo == "euler_implicit":
                if d > tol:
                    bad.append("step %d euler_implicit: energy increased by %.3e (E=%.6e)" % (n, d, E[n]))
            elif abs(d) > tol:
                bad.append("step %d %s: energy changed by %.3e (E=%.6e), expected conservation" % (n, algo, d, E[n]))
    for b in bad[:12]:
        out(b)
    return bad


def range_case(sc):
    """does the real setter accept (dt, alpha) exactly when the documented range says so?"""
    import numpy as np
    from EasyFEA import Simulations, Models
    from EasyFEA.Simulations.Solvers import AlgoType
    mesh = c05_run.build_mesh({"coords": [[0, 0, 0], [1, 0, 0], [1, 1, 0], [0, 1, 0]], "tris": [[0, 1, 2], [0, 2, 3]]})
    simu = Simulations.Elastic(mesh, Models.Elastic.Isotropic(2))
    try:
        if sc["algo"] == "parabolic":
            simu.Solver_Set_Parabolic_Algorithm(sc["dt"], sc["alpha"])
        else:
            simu.Solver_Set_Hyperbolic_Algorithm(sc["dt"], algo=getattr(AlgoType, sc["algo"]), alpha=sc["alpha"])
        accepted = True
    except AssertionError:
        accepted = False
    print("setter for %s with dt=%s alpha=%s: %s; documented range: %s" % (sc["algo"], sc["dt"], sc["alpha"],
          "accepted" if accepted else "rejected", "admissible" if sc["expect_accept"] else "not admissible"))
    return 1 if accepted != sc["expect_accept"] else 0


def compare_scaled(sc, base_steps, twin_steps, k, kT=0, what=None):
    """change of units: values x 2^k, time x 2^kT (and lengths / moduli with the density adjusted, which leave u, v, a
    unchanged).  The twin must return u x 2^k, v x 2^(k-kT), a x 2^(k-2kT) exactly (power-of-two scaling commutes with
    every float operation)."""
    fac = {"u": 2.0 ** k, "v": 2.0 ** (k - kT), "a": 2.0 ** (k - 2 * kT)}
    bad = []
    for n, (b, t) in enumerate(zip(base_steps, twin_steps)):
        for f in ("u", "v", "a"):
            s = fac[f]
            ref = [s * x for x in b["new"][f]]
            sc_ = O.scale(ref)
            m = max(abs(p - q) for p, q in zip(t["new"][f], ref))
            if m > 1e-12 * sc_:
                i = max(range(len(ref)), key=lambda j: abs(t["new"][f][j] - ref[j]))
                bad.append("step %d %s: scaling: twin in other units (%s) returns %s[%d] = %.12e but %g x (base result) = %.12e "
                           "(the step is homogeneous under a change of units; rel. diff %.3e)" % (n, sc["steps"][n]["algo"], what or ("values x 2^%d" % k), f, i,
                                                                                                 t["new"][f][i], s, ref[i], m / sc_ if sc_ else float("inf")))
                break
    return bad


def main(sc):
    if sc.get("kind") == "range":
        return range_case(sc)
    steps = c05_run.run_scenario(sc)
    bad = check_steps(sc, steps)
    tw = sc.get("scale_twin")
    if tw:
        base_steps = c05_run.run_scenario(tw["base"])
        more = compare_scaled(sc, base_steps, steps, tw["k"], tw.get("kT", 0), tw.get("what"))
        for b in more[:6]:
            print(b)
        bad += more
    print("steps run: %d; violated predicates: %d" % (len(steps), len(bad)))
    if not bad:
        print("all documented relations hold on the implementation for this input")
    return 1 if bad else 0


if __name__ == "__main__":
    import json
    sys.exit(main(json.load(open(sys.argv[1]))))
