"""C17 correspondence harness (runs with EasyFEA importable; JSON in on stdin, JSON out on stdout).

For every material x split x regularisation it builds strain fields (Ne, nPg, D) whose Gauss
points carry prescribed *classes* of spectra of the tensor the split decomposes (strain, stress
C eps, or transformed strain sqrt(C) eps): generic, zero, hydrostatic (+/-), uniaxial (aligned
and rotated), two equal principal values (3-D: two largest / two smallest, aligned / rotated),
pure elements and elements MIXING classes between their Gauss points.  Checks per Gauss point:

  finite      cP, cM, Sigma+/-, psi+/- contain no NaN/Inf
  partition   |cP + cM - C| <= 1e-9 |C| ; |S+ + S- - C eps| <= 1e-9 |C||eps| ; |psi+ + psi- - eps C eps / 2| <= 1e-9 |C||eps|^2
  eig         eigenvalues of `_Eigen_values_vectors_projectors` vs numpy.linalg.eigh; sum_i M_i = I;
              sum_i l_i M_i = A; the positive part sum_i <l_i>+ M_i vs the one built from eigh
  proj        projP @ v (private __Spectral_Decomposition) vs the eigh positive part; for Miehe and
              Zhang additionally through the public Calc_Sigma_e_pg
  laws        the isotropic-law hypotheses of the Coq theorems: C = lamb IxI + 2 mu I,
              bulk = lamb + 2 mu / dim, C^T S C = C with S written with the Stress-split
              coefficients, C^T S C = C and inv_sqrtC sqrtC = I for every material; Det/Trace 2x2

  scale       positive homogeneity  Sigma+(s eps) = s Sigma+(eps), psi+(s eps) = s^2 psi+(eps) with
              s = 2^k per Gauss point (needs no reference decomposition), 1e-9 relative, every class

Every state (every Gauss point, pure and mixed elements) gets its own magnitude, log-uniform over
1e-12 .. 1e+2 (strains; times |T| for the tensor a stress-/He-based split decomposes); all
tolerances are relative to the magnitude of the state.

Tolerances: 1e-9 relative for generic (well separated) spectra.  On exactly degenerate spectra the
closed-form (arccos) eigenvalues are conditioned like sqrt(machine eps): 1e-6 |A| is demanded there.
"""
import json
import sys
import warnings

import numpy as np

warnings.filterwarnings("ignore")
np.seterr(all="ignore")

from EasyFEA.Models.Elastic import Isotropic, TransverselyIsotropic, Anisotropic  # noqa: E402
from EasyFEA.Models._phasefield import PhaseField  # noqa: E402
from EasyFEA.FEM import FeArray  # noqa: E402

S2 = np.sqrt(2.0)
TOL = 1e-9
TOL_DEG = 1e-6
ISO_ONLY = ("Amor", "Miehe", "Stress")


def to_vec(A):
    d = A.shape[0]
    if d == 2:
        return np.array([A[0, 0], A[1, 1], S2 * A[0, 1]])
    return np.array([A[0, 0], A[1, 1], A[2, 2], S2 * A[1, 2], S2 * A[0, 2], S2 * A[0, 1]])


def to_mat(v):
    if v.shape[-1] == 3:
        return np.array([[v[0], v[2] / S2], [v[2] / S2, v[1]]])
    return np.array([[v[0], v[5] / S2, v[4] / S2], [v[5] / S2, v[1], v[3] / S2], [v[4] / S2, v[3] / S2, v[2]]])


def materials(rng):
    out = []
    out.append(("iso2ps", dict(kind="iso", dim=2, E=210000.0, v=0.3, planeStress=True)))
    out.append(("iso2pe", dict(kind="iso", dim=2, E=210000.0, v=0.3, planeStress=False)))
    out.append(("iso3", dict(kind="iso", dim=3, E=210000.0, v=0.3)))
    # other units for the moduli (powers of two: the same stiffness in Pa / in TPa-like units)
    out.append(("iso3_E2m60", dict(kind="iso", dim=3, E=210000.0 * 2.0 ** -60, v=0.3)))
    out.append(("iso2pe_E2p50", dict(kind="iso", dim=2, E=210000.0 * 2.0 ** 50, v=0.3, planeStress=False)))
    out.append(("ti2", dict(kind="ti", dim=2, El=11580.0, Et=500.0, Gl=450.0, vl=0.02, vt=0.44, planeStress=False)))
    out.append(("ti3", dict(kind="ti", dim=3, El=11580.0, Et=500.0, Gl=450.0, vl=0.02, vt=0.44)))
    for dim in (2, 3):
        n = 3 if dim == 2 else 6
        B = np.array([[rng.randint(-8, 8) / 8.0 for _ in range(n)] for _ in range(n)])
        C = (B @ B.T + n * np.eye(n)) * 1000.0
        out.append(("aniso%d" % dim, dict(kind="aniso", dim=dim, C=C.tolist())))
    return out


def build_material(p):
    if p["kind"] == "iso":
        if p["dim"] == 2:
            return Isotropic(2, E=p["E"], v=p["v"], planeStress=p["planeStress"])
        return Isotropic(3, E=p["E"], v=p["v"])
    if p["kind"] == "ti":
        kw = dict(El=p["El"], Et=p["Et"], Gl=p["Gl"], vl=p["vl"], vt=p["vt"], axis_l=(1, 0, 0), axis_t=(0, 1, 0))
        if p["dim"] == 2:
            kw["planeStress"] = p["planeStress"]
        return TransverselyIsotropic(p["dim"], **kw)
    return Anisotropic(p["dim"], np.array(p["C"]), False)


def rand_rot(dim, rng):
    M = np.array([[rng.gauss(0, 1) for _ in range(dim)] for _ in range(dim)])
    Q, _ = np.linalg.qr(M)
    return Q


MAG_LO, MAG_HI = -12.0, 2.0      # strain magnitudes 1e-12 .. 1e+2 (log-uniform); the tensor a
#                                  stress-/He-based split decomposes gets the same range times |T|


def rand_amp(rng):
    """log-uniform magnitude over 14 decades, random sign (every class, every Gauss point)."""
    return 10.0 ** rng.uniform(MAG_LO, MAG_HI) * rng.choice([1, 1, -1])


def decade(x):
    return int(np.floor(np.log10(abs(x)))) if x != 0 else None


def gen_state(cls, dim, rng, a=None):
    """symmetric dim x dim tensor of the given spectral class (exact in floats when aligned),
    of magnitude |a| (drawn over 14 decades when not given)."""
    if a is None:
        a = rand_amp(rng)
    if cls == "zero":
        return np.zeros((dim, dim))
    if cls == "generic":
        while True:
            vals = sorted(rng.uniform(-1, 1) for _ in range(dim))
            if min(np.diff(vals)) > 0.2:
                break
        Q = rand_rot(dim, rng)
        return abs(a) * (Q * np.array(vals)) @ Q.T
    if cls == "hydro":
        return a * np.eye(dim)
    if cls == "uniax":
        A = np.zeros((dim, dim))
        k = rng.randrange(dim)
        A[k, k] = a
        return A
    if cls == "uniax_rot":
        Q = rand_rot(dim, rng)
        n = Q[:, 0]
        return a * np.outer(n, n)
    if cls in ("two_eq_max", "two_eq_min", "two_eq_max_rot", "two_eq_min_rot"):
        lo, hi = sorted([rng.uniform(-1, 1), rng.uniform(-1, 1)])
        if hi - lo < 0.2:
            hi = lo + 0.5
        vals = [lo, hi, hi] if "max" in cls else [lo, lo, hi]
        if cls.endswith("_rot"):
            Q = rand_rot(3, rng)
            return abs(a) * (Q * np.array(vals)) @ Q.T
        perm = [0, 1, 2]
        rng.shuffle(perm)
        return abs(a) * np.diag([vals[i] for i in perm])
    raise ValueError(cls)


def classes(dim):
    c = ["generic", "zero", "hydro", "uniax", "uniax_rot"]
    if dim == 3:
        c += ["two_eq_max", "two_eq_min", "two_eq_max_rot", "two_eq_min_rot"]
    return c


def family(split):
    if split == "He":
        return "He"
    if split in ("Stress", "Zhang") or "Stress" in split:
        return "stress"
    if split == "Miehe" or "Strain" in split:
        return "strain"
    return "none"     # Bourdin, Amor: no spectral decomposition


def ref_positive_part(A):
    w, V = np.linalg.eigh(A)
    return (V * np.maximum(w, 0)) @ V.T, w


class Fail:
    def __init__(self):
        self.items = {}
        self.count = {}

    def add(self, key, what, data):
        self.count[key] = self.count.get(key, 0) + 1
        if key not in self.items:
            self.items[key] = dict(key=key, what=what, data=data)


def check_model(name, matp, split, regu, rng, fails, stats, npure, nmixed):
    mat = build_material(matp)
    dim = mat.dim
    D = 3 if dim == 2 else 6
    pfm = PhaseField(mat, split, regu, 1.0, 0.1)
    C = np.asarray(mat.C)
    fam = family(split)
    if fam == "stress":
        T = C
    elif fam == "He":
        T = mat.Get_sqrt_C_S()[0]
    else:
        T = np.eye(D)
    Tinv = np.linalg.inv(T)
    Tscale = np.linalg.norm(T, 2) if fam in ("stress", "He") else 1.0
    cls_list = classes(dim)
    nPg = 4
    elems = []   # list of [classes per gp]
    for c in cls_list:
        for _ in range(npure):
            elems.append([c] * nPg)
    for _ in range(nmixed):
        elems.append([rng.choice(cls_list) for _ in range(nPg)])
    # one element mixing a generic point with each degenerate class (case selection per Gauss point)
    for c in cls_list:
        if c != "generic":
            elems.append(["generic", c, "generic", c])
    Ne = len(elems)
    eps = np.zeros((Ne, nPg, D))
    tgt = np.zeros((Ne, nPg, D))
    for e, cl in enumerate(elems):
        for p, c in enumerate(cl):
            A = gen_state(c, dim, rng)
            t = to_vec(A)
            # the tensor actually decomposed by the split is T @ eps: choose eps = T^-1 t
            eps[e, p] = Tinv @ (t * Tscale) if fam in ("stress", "He") else t
            tgt[e, p] = t
    normC = np.linalg.norm(C)
    # positive homogeneity: second evaluation at s * eps, s = 2^k per Gauss point (exact scaling in
    # binary floating point, so a scale-invariant routine must reproduce s*Sigma+ and s^2*psi+ to
    # round-off for EVERY class), the scaled magnitude again spread over the 14 decades
    scal = np.ones((Ne, nPg))
    for e in range(Ne):
        for p in range(nPg):
            n0 = np.linalg.norm(eps[e, p])
            if n0 > 0:
                target = 10.0 ** rng.uniform(MAG_LO, MAG_HI)
                scal[e, p] = 2.0 ** int(round(np.log2(target / n0)))
    eps_s = eps * scal[:, :, None]

    def record(kind, e, p, what, extra=None):
        cl = elems[e][p]
        mixed = len(set(elems[e])) > 1
        grp = "two_eq" if cl.startswith("two_eq") else "uniax" if cl.startswith("uniax") else cl
        kg = {"eig-nonfinite": "nonfinite", "proj-nonfinite": "nonfinite", "sigma-plus": "proj"}.get(kind, kind)
        # a generic/zero point is only interesting as "in a mixed element" (case selection per element)
        key = "%s:%dd:%s%s" % (kg, dim, grp, ":in-mixed-element" if mixed and grp in ("generic", "zero") and kg != "scale-invariance" else "")
        fails.add(key, what, dict(material=matp, matname=name, split=split, regu=regu, eps_elem=eps[e].tolist(),
                                  classes=elems[e], gp=p, kind=kind, extra=extra))

    try:
        cP, cM = pfm.Calc_C(FeArray.asfearray(eps.copy()))
        SP, SM = pfm.Calc_Sigma_e_pg(FeArray.asfearray(eps.copy()))
        pP, pM = pfm.Calc_psi_e_pg(FeArray.asfearray(eps.copy()))
    except Exception as ex:  # noqa: BLE001
        fails.add("exception:%dd:%s:%s" % (dim, fam, type(ex).__name__), "Calc_* raised %s: %s (material %s split %s)" % (type(ex).__name__, ex, name, split),
                  dict(material=matp, matname=name, split=split, regu=regu, eps_elem=eps[0].tolist(), classes=elems[0], gp=0, kind="exception"))
        return
    try:
        SP2, _ = pfm.Calc_Sigma_e_pg(FeArray.asfearray(eps_s.copy()))
        pP2, _ = pfm.Calc_psi_e_pg(FeArray.asfearray(eps_s.copy()))
        SP2, pP2 = np.asarray(SP2), np.asarray(pP2)
    except Exception as ex:  # noqa: BLE001
        fails.add("exception:%dd:%s:%s" % (dim, fam, type(ex).__name__), "Calc_* raised %s on the scaled strains: %s (material %s split %s)" % (type(ex).__name__, ex, name, split),
                  dict(material=matp, matname=name, split=split, regu=regu, eps_elem=eps_s[0].tolist(), classes=elems[0], gp=0, kind="exception"))
        return
    cP = np.broadcast_to(np.asarray(cP), (Ne, nPg, D, D))
    cM = np.broadcast_to(np.asarray(cM), (Ne, nPg, D, D))
    SP, SM, pP, pM = (np.asarray(x) for x in (SP, SM, pP, pM))
    proj = None
    eig = None
    if fam != "none":
        vec = FeArray.asfearray(np.einsum("ij,epj->epi", T, eps))
        try:
            sd = getattr(pfm, "_PhaseField__Spectral_Decomposition")
            projP, projM = sd(vec.copy())
            proj = (np.asarray(projP), np.asarray(projM))
        except AttributeError:
            fails.add("hook:__Spectral_Decomposition", "private method __Spectral_Decomposition no longer exists", dict(kind="hook"))
        try:
            vals, lm, lM = pfm._Eigen_values_vectors_projectors(vec.copy())
            eig = (np.asarray(vals), [np.asarray(m) for m in lM])
        except AttributeError:
            fails.add("hook:_Eigen_values_vectors_projectors", "_Eigen_values_vectors_projectors no longer exists", dict(kind="hook"))
        vecn = np.asarray(vec)
    for e in range(Ne):
        for p in range(nPg):
            cl = elems[e][p]
            stats["cases"] += 1
            stats["by_class"][cl] = stats["by_class"].get(cl, 0) + 1
            x = eps[e, p]
            nx = np.linalg.norm(x)
            fin = all(np.isfinite(a[e, p]).all() for a in (cP, cM, SP, SM)) and np.isfinite(pP[e, p]) and np.isfinite(pM[e, p])
            if not fin:
                record("nonfinite", e, p, "NaN/Inf in cP/cM/Sigma/psi: material %s split %s class %s" % (name, split, cl))
                continue
            errC = np.linalg.norm(cP[e, p] + cM[e, p] - C) / normC
            sig = C @ x
            errS = np.linalg.norm(SP[e, p] + SM[e, p] - sig)
            errP = abs(pP[e, p] + pM[e, p] - 0.5 * x @ sig)
            stats["max_partition_err"] = max(stats["max_partition_err"], errC)
            if errC > TOL or errS > TOL * normC * nx or errP > TOL * normC * nx * nx:
                record("partition", e, p, "cP+cM != C (rel %.3e), S+ + S- - C eps = %.3e, psi+ + psi- - psi = %.3e: material %s split %s class %s"
                       % (errC, errS, errP, name, split, cl), dict(errC=errC, errS=errS, errP=errP))
            dk = decade(nx)
            stats["by_decade"][str(dk)] = stats["by_decade"].get(str(dk), 0) + 1
            sc_ = scal[e, p]
            if nx > 0:
                hs = np.linalg.norm(SP2[e, p] - sc_ * SP[e, p]) if np.isfinite(SP2[e, p]).all() else np.inf
                hp = abs(pP2[e, p] - sc_ * sc_ * pP[e, p]) if np.isfinite(pP2[e, p]) else np.inf
                rel = max(hs / (normC * nx * sc_), hp / (normC * nx * nx * sc_ * sc_))
                stats["max_homogeneity_err"] = max(stats["max_homogeneity_err"], rel if np.isfinite(rel) else 1e300)
                if not (rel <= TOL):
                    record("scale-invariance", e, p, "positive homogeneity fails: |Sigma+(s eps) - s Sigma+(eps)| = %.3e (|C||s eps| = %.3e), |psi+(s eps) - s^2 psi+(eps)| = %.3e, s = 2^%d, |eps| = %.3e: material %s split %s class %s"
                           % (hs, normC * nx * sc_, hp, int(round(np.log2(sc_))), nx, name, split, cl), dict(scale=float(sc_), hs=float(hs), hp=float(hp)))
            if fam == "none":
                continue
            A = to_mat(vecn[e, p])
            nA = np.linalg.norm(A)
            Pref, w = ref_positive_part(A)
            tol = TOL if cl == "generic" else TOL_DEG
            if eig is not None:
                vals, Ms = eig
                lam = vals[e, p]
                Mi = [M[e, p] for M in Ms]
                if not (np.isfinite(lam).all() and all(np.isfinite(M).all() for M in Mi)):
                    record("eig-nonfinite", e, p, "NaN in eigenvalues/eigenprojectors: dim %d class %s (%s-based, material %s)" % (dim, cl, fam, name))
                else:
                    e1 = np.linalg.norm(np.sort(lam) - w)
                    e2 = np.linalg.norm(sum(Mi) - np.eye(dim))
                    e3 = np.linalg.norm(sum(l * M for l, M in zip(lam, Mi)) - A)
                    e4 = np.linalg.norm(sum(max(l, 0) * M for l, M in zip(lam, Mi)) - Pref)
                    stats["max_eig_err"][cl] = max(stats["max_eig_err"].get(cl, 0.0), (max(e1, e3, e4) / nA) if nA > 0 else 0.0)
                    if e1 > tol * nA or e2 > TOL or e3 > tol * nA or e4 > tol * nA:
                        record("eig", e, p, "eigen-decomposition disagrees with numpy.linalg.eigh: |dlambda|=%.3e |sum M - I|=%.3e |sum l M - A|=%.3e |A+ - A+ref|=%.3e (|A|=%.3e, dim %d class %s, %s-based)"
                               % (e1, e2, e3, e4, nA, dim, cl, fam), dict(e1=e1, e2=e2, e3=e3, e4=e4, nA=nA))
            if proj is not None:
                PP, PM = proj
                if not (np.isfinite(PP[e, p]).all() and np.isfinite(PM[e, p]).all()):
                    record("proj-nonfinite", e, p, "NaN in projP/projM: dim %d class %s (%s-based)" % (dim, cl, fam))
                else:
                    vp = PP[e, p] @ vecn[e, p]
                    e5 = np.linalg.norm(to_mat(vp) - Pref)
                    e6 = np.linalg.norm(PP[e, p] + PM[e, p] - np.eye(D))
                    if e5 > tol * nA or e6 > TOL:
                        record("proj", e, p, "projP @ v is not the positive part: |projP v - v+| = %.3e (|v| = %.3e), |projP+projM-I| = %.3e, dim %d class %s, %s-based"
                               % (e5, nA, e6, dim, cl, fam), dict(e5=e5, e6=e6, nA=nA))
            # public-API form of the projector check
            if split == "Miehe":
                lamb, mu = mat.get_lambda(), mat.get_mu()
                I = np.eye(dim)
                trp = max(np.trace(A), 0.0) if np.trace(A) != 0 else 0.0
                ref = to_vec(lamb * trp * I + 2 * mu * Pref)
                e7 = np.linalg.norm(SP[e, p] - ref)
                if e7 > tol * normC * nx:
                    record("sigma-plus", e, p, "Miehe Sigma+ != lamb <tr eps>+ I + 2 mu eps+ (eigh): diff %.3e (|C||eps| = %.3e) class %s" % (e7, normC * nx, cl), dict(e7=e7))
            if split == "Zhang":
                ref = to_vec(Pref)
                e7 = np.linalg.norm(SP[e, p] - ref)
                if e7 > tol * max(nA, 1e-300):
                    record("sigma-plus", e, p, "Zhang Sigma+ != positive part of C eps (eigh): diff %.3e (|Sigma| = %.3e) class %s" % (e7, nA, cl), dict(e7=e7))


def check_laws(fails, stats, mats):
    for name, p in mats:
        mat = build_material(p)
        dim = mat.dim
        D = 3 if dim == 2 else 6
        C, S = np.asarray(mat.C), np.asarray(mat.S)
        nC = np.linalg.norm(C)
        sq, isq = mat.Get_sqrt_C_S()
        errs = {"C^T S C = C": np.linalg.norm(C.T @ S @ C - C) / nC,
                "inv_sqrtC sqrtC = I": np.linalg.norm(isq @ sq - np.eye(D)),
                "sqrtC sqrtC = C": np.linalg.norm(sq @ sq - C) / nC}
        if p["kind"] == "iso":
            lamb, mu, bulk, E, v = mat.get_lambda(), mat.get_mu(), mat.get_bulk(), mat.E, mat.v
            J = np.zeros((D, D))
            J[:dim, :dim] = 1.0
            I = np.eye(D)
            errs["C = lamb IxI + 2 mu I"] = np.linalg.norm(C - (lamb * J + 2 * mu * I)) / nC
            errs["bulk = lamb + 2 mu / dim"] = abs(bulk - (lamb + 2 * mu / dim)) / abs(bulk)
            if dim == 2 and p["planeStress"]:
                a, b = (1 + v) / E, v / E
            elif dim == 2:
                a, b = (1 + v) / E, v * (1 + v) / E
            else:
                a, b = 1 / (2 * mu), v / E
            errs["C^T (a I - b IxI) C = C"] = np.linalg.norm(C.T @ (a * I - b * J) @ C - C) / nC
            pfm = PhaseField(mat, "Amor", "AT2", 1.0, 0.1)
            try:
                J2 = getattr(PhaseField, "_PhaseField__Build_IxI")(dim)
                errs["IxI"] = np.linalg.norm(np.asarray(J2) - J)
            except AttributeError:
                fails.add("hook:__Build_IxI", "__Build_IxI no longer exists", dict(kind="hook"))
        for k, v_ in errs.items():
            stats["cases"] += 1
            if not (v_ <= 1e-10):
                fails.add("law:%s:%s" % (name, k.replace(" ", "")), "hypothesis of the Coq theorems fails on the implementation: %s, error %.3e (material %s)" % (k, v_, name),
                          dict(kind="law", material=p, matname=name, law=k, err=float(v_)))
    # Det / Trace of 2x2 as modelled
    from EasyFEA.FEM import Det, Trace
    A = FeArray.asfearray(np.array([[[[3.0, 4.0], [4.0, -3.0]], [[1.0, 0.5], [0.5, 2.0]]]]))
    d, t = np.asarray(Det(A)), np.asarray(Trace(A))
    if not (np.allclose(d, [[-25.0, 1.75]], rtol=0, atol=1e-14) and np.allclose(t, [[0.0, 3.0]], rtol=0, atol=1e-14)):
        fails.add("law:DetTrace2x2", "Det/Trace of 2x2 matrices differ from a*d-b*c / a+d", dict(kind="law"))


def check_branches(fails, stats, rng):
    """Which branch of the 3-D eigen routine is taken (observable: the degenerate branches return bitwise equal
    eigenvalues) for each spectral class, and directed cases at the branch boundaries: two principal values
    with relative gap delta = 1e-2 .. 1e-12.  Statistics, plus a loose accuracy bound 1e-4 |A|: the boundary
    tolerances of the source (tol_theta = 1e-6, g <= 1e-12 |A|^2) cost up to ~1e-6 |A|, and for nearly spherical tensors
    (|dev A| ~ 1e-5 |A|) the cancellation in the Lode argument costs up to ~|dev A| (observed 3e-6 |A|)."""
    mat = build_material(dict(kind="iso", dim=3, E=210000.0, v=0.3))
    pfm = PhaseField(mat, "Miehe", "AT2", 1.0, 0.1)

    def branch(lam):
        a, b, c = lam
        return "triple" if a == b == c else "two-min-equal" if a == b else "two-max-equal" if b == c else "distinct"

    table = {}
    rows = []
    for cls in classes(3):
        for _ in range(12):
            rows.append((cls, gen_state(cls, 3, rng)))
    deltas = [10.0 ** (-k) for k in range(2, 13)]
    for d in deltas:
        for which in ("max", "min"):
            for _ in range(4):
                lo, hi = sorted([rng.uniform(-1, 1), rng.uniform(-1, 1)])
                if hi - lo < 0.3:
                    hi = lo + 0.6
                vals = [lo, hi, hi + (hi - lo) * d] if which == "max" else [lo, lo + (hi - lo) * d, hi]
                Q = rand_rot(3, rng)
                rows.append(("gap%.0e" % d, abs(rand_amp(rng)) * (Q * np.array(vals)) @ Q.T))
        for _ in range(2):      # nearly spherical: deviatoric part of relative size delta
            Q = rand_rot(3, rng)
            rows.append(("dev%.0e" % d, abs(rand_amp(rng)) * (np.eye(3) + d * (Q * np.array([-1.0, 0.2, 0.8])) @ Q.T)))
    vec = np.array([to_vec(A) for _, A in rows]).reshape(len(rows), 1, 6)
    try:
        vals, lm, lM = pfm._Eigen_values_vectors_projectors(FeArray.asfearray(vec.copy()))
    except Exception as ex:  # noqa: BLE001
        fails.add("exception:3d:branches:%s" % type(ex).__name__, "eigen routine raised %s on the branch-boundary cases: %s" % (type(ex).__name__, ex), dict(kind="hook"))
        return
    vals = np.asarray(vals)
    Ms = [np.asarray(M) for M in lM]
    for k, (cls, A) in enumerate(rows):
        lam = vals[k, 0]
        w = np.linalg.eigvalsh(A)
        nA = np.linalg.norm(A)
        fin = np.isfinite(lam).all() and all(np.isfinite(M[k, 0]).all() for M in Ms)
        b = branch(lam) if fin else "non-finite"
        e = float(max(np.linalg.norm(np.sort(lam) - w), np.linalg.norm(sum(l * M[k, 0] for l, M in zip(lam, Ms)) - A)) / nA) if fin and nA > 0 else 0.0
        t = table.setdefault(cls, {"branches": {}, "max_rel_err": 0.0})
        t["branches"][b] = t["branches"].get(b, 0) + 1
        t["max_rel_err"] = max(t["max_rel_err"], e)
        stats["cases"] += 1
        if (not fin or e > 1e-4) and (cls.startswith("gap") or cls.startswith("dev")):
            fails.add("eig:3d:near-degenerate", "near a branch boundary (%s) the eigen-decomposition is %s: relative error %.3e, branch %s" % (cls, "non-finite" if not fin else "inaccurate", e, b),
                      dict(material=dict(kind="iso", dim=3, E=210000.0, v=0.3), matname="iso3", split="Miehe", regu="AT2", eps_elem=[to_vec(A).tolist()],
                           classes=["two_eq_near"], gp=0, kind="eig", extra=None))
    stats["branch_table"] = table


def main():
    import random
    inp = json.load(sys.stdin)
    rng = random.Random(inp["seed"])
    tier = inp.get("tier", "quick")
    npure, nmixed = (1, 3) if tier == "quick" else (3, 12)
    only = inp.get("only")
    fails = Fail()
    stats = dict(cases=0, by_class={}, by_decade={}, max_partition_err=0.0, max_eig_err={}, max_homogeneity_err=0.0, models=0)
    mats = materials(rng)
    if not only:
        check_laws(fails, stats, mats)
        check_branches(fails, stats, rng)
    for name, p in mats:
        for split in PhaseField.Get_splits():
            split = str(split)
            if p["kind"] != "iso" and split in ISO_ONLY:
                continue
            regus = ["AT1", "AT2"]
            for regu in regus:
                if only and (only.get("split") not in (None, split) or only.get("matname") not in (None, name)):
                    continue
                stats["models"] += 1
                check_model(name, p, split, regu, rng, fails, stats, npure, nmixed)
    json.dump(dict(failures=list(fails.items.values()), counts=fails.count, stats=stats), sys.stdout)


if __name__ == "__main__":
    main()
