"""C03 implementation side: run generated operation sequences on REAL EasyFEA simulation objects.

stdin : {"cases": [case, ...]}        (see props/C03.py gen_case for the format)
stdout: {"results": [result, ...]}

A case builds meshes with GroupElemFactory.Create + Mesh (no gmsh), instantiates a subclass of
Simulations.Thermal whose Construct_local_matrix_system returns the generated integer-valued element
arrays, and replays the ops.  For every Assembly() it returns the four CSR triples and evaluates the
property's own predicate (an independent dense python-loop scatter-add) on the implementation's
output; at the end it dumps the private reduction-map cache.
"""
import json
import sys

import numpy as np


def build(case):
    from EasyFEA import Models, Simulations
    from EasyFEA.FEM import Mesh, LagrangeCondition
    from EasyFEA.FEM._group_elem import GroupElemFactory
    from EasyFEA.FEM._utils import ElemType
    from EasyFEA.Simulations._problem_type import ProblemType

    groups = {}     # gid -> group object (kept alive for the whole case: python ids are never reused)
    gid_of = {}     # id(obj) -> gid
    meshes = []
    for m in case["meshes"]:
        Nn = m["Nn"]
        coords = np.zeros((Nn, 3))
        coords[:, 0] = np.arange(Nn)
        d = {}
        for g in m["groups"]:
            et = getattr(ElemType, g["type"])
            nPe = g["nPe"]
            connect = np.array(g["connect"], dtype=int).reshape(-1, nPe)
            obj = GroupElemFactory.Create(et, connect, coords)
            d[et] = obj
            groups[g["gid"]] = obj
            gid_of[id(obj)] = g["gid"]
        # groups built by the user subclass itself: real _GroupElem objects on the same coordinates that are
        # NOT groups of the mesh (one new object per variant)
        for g in m.get("user_groups", []):
            et = getattr(ElemType, g["type"])
            obj = GroupElemFactory.Create(et, np.array(g["connect"], dtype=int).reshape(-1, g["nPe"]), coords)
            groups[g["gid"]] = obj
            gid_of[id(obj)] = g["gid"]
        meshes.append(Mesh(d))

    dofn = case["dof_n"]            # per problem type index
    pts = [ProblemType("p%d" % i) for i in range(len(dofn))]

    class Simu(Simulations.Thermal):
        table = None

        def Get_problemTypes(self):
            return list(pts)

        def Get_dof_n(self, problemType=None):
            if problemType is None:
                problemType = pts[0]
            return dofn[pts.index(problemType)]

        def Get_unknowns(self, problemType=None):
            return ["u%d" % i for i in range(self.Get_dof_n(problemType))]

        def Construct_local_matrix_system(self, problemType):
            if getattr(self, "fail_once", False):
                self.fail_once = False
                raise RuntimeError("element arrays are not available yet")
            return self.table

    simu = Simu(meshes[case["mesh0"]], Models.Thermal(k=1, c=1, thickness=1))
    return simu, meshes, groups, gid_of, pts, LagrangeCondition


def to_arr(x, shape, cplx):
    if x is None:
        return None
    if cplx and x and isinstance(x[0], list):
        a = np.array([complex(r, i) for r, i in x], dtype=complex)
    else:
        a = np.array(x, dtype=float)
    return a.reshape(shape)


def relayout(a, code):
    """the same logical (Ne, n, m) values in another memory layout / array class: the element-array -> flat
    triplet step of the assembly must not depend on it.  code = [fe:]C|F|T|neg|negl|strided"""
    if a is None or not code or code == "C":
        return a
    fe = code.startswith("fe:")
    c = code[3:] if fe else code
    if c == "F":
        v = np.asfortranarray(a)
    elif c == "T":          # transposed buffer, viewed back: strides of the last two axes swapped
        v = np.swapaxes(np.ascontiguousarray(np.swapaxes(a, -1, -2)), -1, -2)
    elif c == "neg":        # negative stride on the element axis
        v = np.ascontiguousarray(a[::-1])[::-1]
    elif c == "negl":       # negative stride on the last axis
        v = np.ascontiguousarray(a[..., ::-1])[..., ::-1]
    elif c == "strided":    # every other entry of a wider buffer
        big = np.zeros(a.shape[:-1] + (2 * a.shape[-1],), dtype=a.dtype)
        big[..., ::2] = a
        v = big[..., ::2]
    else:
        v = a
    assert np.array_equal(v, a)
    if fe:
        from EasyFEA.FEM import FeArray
        v = v.view(FeArray)
    return v


def flat_vals(a, cplx):
    """exact integer flattening of the data array of a CSR (raises if a value is not an integer)."""
    a = np.asarray(a)
    out = []
    if cplx:
        a = a.astype(complex)
        for z in a:
            re, im = float(z.real), float(z.imag)
            if re != int(re) or im != int(im):
                raise ValueError("non-integer value %r" % z)
            out += [int(re), int(im)]
    else:
        if np.iscomplexobj(a):
            raise ValueError("complex output for real input")
        for v in a:
            if float(v) != int(v):
                raise ValueError("non-integer value %r" % v)
            out.append(int(v))
    return out


def dense_reference(groups, table_slot, dof_n, Ndof, isMatrix):
    """independent dense loop: sum of the element matrices at rows/cols given by connectivity."""
    ncol = Ndof if isMatrix else 1
    D = np.zeros((Ndof, ncol), dtype=complex)
    for gid, arr in table_slot:
        if arr is None:
            continue
        conn = groups[gid].connect
        Ne, nPe = conn.shape if conn.size else (0, 0)
        for e in range(Ne):
            dofs = [int(conn[e, j]) * dof_n + d for j in range(nPe) for d in range(dof_n)]
            for i, gi in enumerate(dofs):
                if isMatrix:
                    for j, gj in enumerate(dofs):
                        D[gi, gj] += arr[e, i, j]
                else:
                    D[gi, 0] += arr[e, i, 0]
    return D


def run_big(case):
    """large-index cases: Ndof > 46340 so that row*Ndof+col > 2^31 (and Ndof^2 may exceed 2^32).
    Returns coordinate triples (rows, cols, data) + the cached inv per slot instead of 50k-long indptr
    lists, and evaluates the scatter-add predicate with an independent dict-of-python-ints loop."""
    simu, meshes, groups, gid_of, pts, LagrangeCondition = build(case)
    res = {"id": case["id"], "assemblies": [], "prop_fail": None, "error": None, "cache": []}
    nass = 0
    for iop, op in enumerate(case["ops"]):
        if op["op"] == "addlag":
            pt = pts[op["pt"]]
            simu._Bc_Add_Lagrange(LagrangeCondition(pt, np.array([0]), np.array([0]), [simu.Get_unknowns(pt)[0]], np.array([0.0]), np.array([1.0])))
            continue
        pt = pts[op["pt"]]
        dof_n = simu.Get_dof_n(pt)
        tab, slots = {}, [[], [], [], []]
        for gid, four in op["table"]:
            g = groups[gid]
            Ne, nPe = len(case["conn"][str(gid)]), case["nPe"][str(gid)]
            n = nPe * dof_n
            arrs = []
            for si, x in enumerate(four):
                a = to_arr(x, (Ne, n, n) if si < 3 else (Ne, n, 1), False)
                arrs.append(a)
                slots[si].append((gid, a))
            tab[g] = tuple(arrs)
        simu.table = tab
        K, C, M, F = simu.Assembly(pt)
        Ndof = int(K.shape[0])
        out = []
        cache = getattr(simu, "__cachedComputedValues", {})
        for si, X in enumerate((K, C, M, F)):
            isM = si < 3
            Xc = X.tocoo()
            order = np.lexsort((Xc.col, Xc.row))
            rows = [int(v) for v in np.repeat(np.arange(X.shape[0]), np.diff(X.indptr))]
            inv = []
            present = tuple(groups[gid] for gid, a in slots[si] if a is not None)
            for key, val in cache.items():
                try:
                    if key[0] == "__Get_csr_map" and key[1][0] == dof_n and bool(key[1][1]) == isM and key[1][2] == Ndof \
                            and len(key[1][3]) == len(present) and all(a is b for a, b in zip(key[1][3], present)):
                        inv = [int(v) for v in val[0]]
                except Exception:
                    pass
            out.append([rows, [int(v) for v in X.indices], flat_vals(X.data, False), inv])
            # independent predicate with exact python integers
            exp = {}
            for gid, arr in slots[si]:
                if arr is None:
                    continue
                conn = case["conn"][str(gid)]
                for e, nodes in enumerate(conn):
                    dofs = [int(nd) * dof_n + d for nd in nodes for d in range(dof_n)]
                    for i, gi in enumerate(dofs):
                        if isM:
                            for j, gj in enumerate(dofs):
                                exp[(gi, gj)] = exp.get((gi, gj), 0) + int(arr[e, i, j])
                        else:
                            exp[(gi, 0)] = exp.get((gi, 0), 0) + int(arr[e, i, 0])
            got = {}
            for r, c, v in zip(Xc.row[order], Xc.col[order], Xc.data[order]):
                got[(int(r), int(c))] = got.get((int(r), int(c)), 0) + float(v)
            shape_ok = X.shape == ((Ndof, Ndof) if isM else (Ndof, 1))
            diff = [(k, got.get(k, 0), exp.get(k, 0)) for k in sorted(set(got) | set(exp)) if got.get(k, 0) != exp.get(k, 0)]
            if res["prop_fail"] is None and (diff or not shape_ok):
                res["prop_fail"] = {"op_index": iop, "assembly_index": nass, "slot": "KCMF"[si], "Ndof": Ndof,
                                    "impl": "first differing entries ((row, col), observed, expected): %s" % diff[:4] if shape_ok else str(X.shape),
                                    "dense": "%d entries expected, %d stored" % (len(exp), len(got))}
        res["assemblies"].append({"Ndof": Ndof, "out": out})
        nass += 1
    return res


def run_kcmf(case):
    """histories in which the ACTIVE mesh changes by public routes (mesh setter, Set_Iter across meshes, back and
    forth): after each, Get_K_C_M_F must return the scatter-add for the connectivity of the active mesh."""
    simu, meshes, groups, gid_of, pts, LagrangeCondition = build(case)
    pt = pts[0]
    dof_n = simu.Get_dof_n(pt)
    res = {"id": case["id"], "assemblies": [], "prop_fail": None, "error": None, "cache": [], "active": []}
    tabs, slots_of = [], []
    for mi, table in enumerate(case["tables"]):
        tab, slots = {}, [[], [], [], []]
        for gid, four in table:
            Ne, nPe = len(case["conn"][str(gid)]), case["nPe"][str(gid)]
            n = nPe * dof_n
            arrs = []
            for si, x in enumerate(four):
                a = to_arr(x, (Ne, n, n) if si < 3 else (Ne, n, 1), False)
                arrs.append(relayout(a, (case.get("layouts") or {}).get(str(gid), [None] * 4)[si]))
                slots[si].append((gid, a))
            tab[groups[gid]] = tuple(arrs)
        tabs.append(tab)
        slots_of.append(slots)
    nget = 0
    cur_tab = {0: 0, 1: 1}
    for iop, op in enumerate(case["ops"]):
        k = op["op"]
        if k == "retable":
            cur_tab[op["mesh"]] = op["table_idx"]
            simu.Need_Update()
        elif k == "failget":
            act = [i for i, m in enumerate(meshes) if m is simu.mesh]
            simu.table = tabs[cur_tab.get(act[0] if act else 0, 0)]
            simu.fail_once = True
            try:
                simu.Get_K_C_M_F()
            except RuntimeError:
                pass
            finally:
                simu.fail_once = False
        elif k == "get":
            act = [i for i, m in enumerate(meshes) if m is simu.mesh]
            act = act[0] if act else -1
            res["active"].append(act)
            simu.table = tabs[cur_tab.get(act, 0)]
            K, C, M, F = simu.Get_K_C_M_F()
            Ndof = K.shape[0]
            out = []
            for si, X in enumerate((K, C, M, F)):
                out.append([flat_vals(X.data, False), [int(v) for v in X.indices], [int(v) for v in X.indptr]])
                isM = si < 3
                exp_Ndof = meshes[op["expect_mesh"]].Nn * dof_n
                shape_ok = X.shape == ((exp_Ndof, exp_Ndof) if isM else (exp_Ndof, 1))
                D = dense_reference(groups, slots_of[op["table_idx"]][si], dof_n, exp_Ndof, isM)
                if res["prop_fail"] is None and (act != op["expect_mesh"] or not shape_ok or not np.array_equal(X.toarray().astype(complex), D)):
                    res["prop_fail"] = {"op_index": iop, "assembly_index": nget, "slot": "KCMF"[si], "active_mesh": act, "expected_mesh": op["expect_mesh"],
                                        "impl": X.toarray().real.tolist() if shape_ok else str(X.shape), "dense": D.real.tolist()}
            res["assemblies"].append({"Ndof": int(Ndof), "out": out})
            nget += 1
            if op.get("mutate"):
                # (a) nothing returned may alias the simulation's own state or another matrix of the same call
                ret = [("KCMF"[si] + "." + nm, getattr(X, nm)) for si, X in enumerate((K, C, M, F)) for nm in ("data", "indices", "indptr")]
                own = []
                for nm in ("_Simu__K", "_Simu__C", "_Simu__M", "_Simu__F"):
                    X = getattr(simu, nm, None)
                    if X is not None and hasattr(X, "indptr"):
                        own += [(nm + "." + a, getattr(X, a)) for a in ("data", "indices", "indptr")]
                for key_, val_ in getattr(simu, "__cachedComputedValues", {}).items():
                    if isinstance(val_, tuple):
                        own += [("cache." + str(key_[0]), a) for a in val_ if isinstance(a, np.ndarray)]
                alias = [(a, b) for i, (a, x) in enumerate(ret) for (b, y) in ret[i + 1:] + own if x.size and y.size and np.shares_memory(x, y)]
                if alias and res["prop_fail"] is None:
                    res["prop_fail"] = {"op_index": iop, "assembly_index": nget - 1, "slot": alias[0][0][0], "alias": True, "active_mesh": act, "expected_mesh": op["expect_mesh"],
                                        "impl": "arrays of the matrices returned by Get_K_C_M_F share memory: %s" % alias[:4], "dense": "no aliasing"}
                # (b) every in-place operation scipy allows on the RETURNED matrices; later results must not change
                for X, how in zip((K, C, M, F), op["mutate"]):
                    try:
                        if how == "data":
                            X.data[:] = 7
                        elif how == "elim":
                            X.data[::2] = 0
                            X.eliminate_zeros()
                        elif how == "indices":
                            X.indices[:] = 0
                        elif how == "indptr":
                            X.indptr[:] = 0
                        elif how == "setdiag":
                            X.setdiag(5)
                        elif how == "imul":
                            X *= 3
                        elif how == "resize":
                            X.resize((1, 1))
                        elif how == "sort":
                            X.indices[:] = X.indices[::-1].copy()
                            X.has_sorted_indices = False
                            X.sort_indices()
                            X.sum_duplicates()
                    except Exception:
                        pass        # a read-only array is a legitimate protection
        elif k == "save":
            simu.Save_Iter()
        elif k == "setiter":
            simu.Set_Iter(op["iter"])
        elif k == "setmesh":
            simu.mesh = meshes[op["mesh"]]
        elif k == "needupdate":
            simu.Need_Update()
        elif k == "clear":
            from EasyFEA.Utilities._cache import clear_cached_computed_values
            clear_cached_computed_values(simu)
        else:
            raise ValueError("unknown op " + k)
    return res


def run_contrast(case):
    """magnitudes: element values m * 2^e with exponents spread so that one assembly mixes coefficients differing by
    1e16 and more (and tiny / huge overall scales).  Every assembled coefficient must equal the exact scatter-add
    (python Fractions) to a RELATIVE tolerance measured against scatter_add(|X_e|) of that coefficient -- no entry may be
    dropped, rounded to zero or compared against an absolute threshold -- and the uniformly rescaled twin (all values
    times 2^k) must give exactly 2^k times the same matrices."""
    from fractions import Fraction as Fr
    simu, meshes, groups, gid_of, pts, LagrangeCondition = build(case)
    pt = pts[0]
    dof_n = simu.Get_dof_n(pt)
    cplx = case["complex"]
    res = {"id": case["id"], "assemblies": [], "prop_fail": None, "error": None, "cache": []}

    def val(x):          # [m, e] or [[mr, er], [mi, ei]]
        if cplx and isinstance(x[0], list):
            return (Fr(x[0][0]) * Fr(2) ** x[0][1], Fr(x[1][0]) * Fr(2) ** x[1][1])
        return (Fr(x[0]) * Fr(2) ** x[1], Fr(0))

    def build_table(shift):
        tab, exact = {}, [[], [], [], []]
        for gid, four in case["table"]:
            Ne, nPe = len(case["conn"][str(gid)]), case["nPe"][str(gid)]
            n = nPe * dof_n
            arrs = []
            for si, xs in enumerate(four):
                if xs is None:
                    arrs.append(None)
                    continue
                vs = [val(x) for x in xs]
                f = Fr(2) ** shift
                a = np.array([complex(float(r * f), float(i * f)) for r, i in vs]) if cplx and any(i != 0 for _, i in vs) else np.array([float(r * f) for r, _ in vs])
                a = a.reshape((Ne, n, n) if si < 3 else (Ne, n, 1))
                arrs.append(relayout(a, (case.get("layouts") or {}).get(str(gid), [None] * 4)[si]))
                exact[si].append((gid, vs, n))
            tab[groups[gid]] = tuple(arrs)
        return tab, exact
    tab, exact = build_table(0)
    simu.table = tab
    base = simu.Assembly(pt)
    Ndof = base[0].shape[0]
    eps = 2.0 ** -52
    for si, X in enumerate(base):
        isM = si < 3
        ref, aref, cnt = {}, {}, {}
        for gid, vs, n in exact[si]:
            for e, nodes in enumerate(case["conn"][str(gid)]):
                dofs = [int(nd) * dof_n + d for nd in nodes for d in range(dof_n)]
                for i, gi in enumerate(dofs):
                    for j, gj in (enumerate(dofs) if isM else [(0, 0)]):
                        r, im = vs[(e * n + i) * (n if isM else 1) + j]
                        key = (gi, gj)
                        o = ref.get(key, (Fr(0), Fr(0)))
                        ref[key] = (o[0] + r, o[1] + im)
                        aref[key] = aref.get(key, Fr(0)) + abs(r) + abs(im)
                        cnt[key] = cnt.get(key, 0) + 1
        D = X.toarray()
        for (r_, c_), (er, ei) in sorted(ref.items()):
            z = complex(D[r_, c_])
            err = abs(Fr(z.real) - er) + abs(Fr(z.imag) - ei)
            tol = Fr(eps) * (cnt[(r_, c_)] + 1) * aref[(r_, c_)]
            if err > tol and res["prop_fail"] is None:
                res["prop_fail"] = {"op_index": 0, "assembly_index": 0, "slot": "KCMF"[si], "Ndof": int(Ndof),
                                    "impl": "entry (%d,%d) = %r, exact scatter-add %r (+ %r j); error %.3e, tolerance %.3e = %d ulp-units of scatter_add(|X_e|) = %.3e"
                                            % (r_, c_, z, float(er), float(ei), float(err), float(tol), cnt[(r_, c_)] + 1, float(aref[(r_, c_)])),
                                    "dense": "relative comparison per coefficient"}
        stray = [(int(r_), int(c_)) for r_, c_ in zip(*np.nonzero(D)) if (int(r_), int(c_)) not in ref]
        if stray and res["prop_fail"] is None:
            res["prop_fail"] = {"op_index": 0, "assembly_index": 0, "slot": "KCMF"[si], "Ndof": int(Ndof), "impl": "nonzero entries outside the scatter pattern: %s" % stray[:4], "dense": ""}
    # uniformly rescaled twin
    for k in case.get("shifts", []):
        tab2, _ = build_table(k)
        simu.table = tab2
        tw = simu.Assembly(pt)
        for si, (X, Y) in enumerate(zip(base, tw)):
            A0, A1 = X.toarray(), Y.toarray()
            if not np.array_equal(A1, A0 * 2.0 ** k) and res["prop_fail"] is None:
                idx = np.argwhere(A1 != A0 * 2.0 ** k)[0]
                res["prop_fail"] = {"op_index": 0, "assembly_index": 0, "slot": "KCMF"[si], "Ndof": int(Ndof),
                                    "impl": "all element values times 2^%d: entry %s is %r, expected exactly 2^%d * %r" % (k, idx.tolist(), A1[tuple(idx)], k, A0[tuple(idx)]),
                                    "dense": "exact homogeneity of the assembly"}
    return res


def run_case(case):
    if case.get("contrast"):
        return run_contrast(case)
    if case.get("big"):
        return run_big(case)
    if case.get("kcmf"):
        return run_kcmf(case)
    simu, meshes, groups, gid_of, pts, LagrangeCondition = build(case)
    cplx = case["complex"]
    res = {"id": case["id"], "assemblies": [], "prop_fail": None, "error": None}
    nass = 0
    for iop, op in enumerate(case["ops"]):
        k = op["op"]
        if k == "assembly":
            pt = pts[op["pt"]]
            dof_n = simu.Get_dof_n(pt)
            tab = {}
            slots = [[], [], [], []]
            for gid, four in op["table"]:
                g = groups[gid]
                Ne, nPe = len(case["conn"][str(gid)]), case["nPe"][str(gid)]
                n = nPe * dof_n
                arrs = []
                for si, x in enumerate(four):
                    a = to_arr(x, (Ne, n, n) if si < 3 else (Ne, n, 1), cplx)
                    arrs.append(relayout(a, (op.get("layouts") or {}).get(str(gid), [None] * 4)[si]))
                    slots[si].append((gid, a))
                tab[g] = tuple(arrs)
            simu.table = tab
            K, C, M, F = simu.Assembly(pt)
            Ndof = K.shape[0]
            out = []
            for si, X in enumerate((K, C, M, F)):
                out.append([flat_vals(X.data, cplx), [int(v) for v in X.indices], [int(v) for v in X.indptr]])
                isM = si < 3
                shape_ok = X.shape == ((Ndof, Ndof) if isM else (Ndof, 1))
                D = dense_reference(groups, slots[si], dof_n, Ndof, isM)
                if res["prop_fail"] is None and (not shape_ok or not np.array_equal(X.toarray().astype(complex), D)):
                    res["prop_fail"] = {"op_index": iop, "assembly_index": nass, "slot": "KCMF"[si],
                                        "impl": X.toarray().astype(complex).real.tolist() if shape_ok else str(X.shape),
                                        "dense": D.real.tolist()}
            if op.get("mutate"):
                # the user modifies the matrices RETURNED by Assembly() in place, in every way scipy allows (a read-only
                # array raising is a legitimate protection): siblings of the same call must not change, and the following
                # assemblies (compared with the model / dense predicate as usual) must still be the scatter-add
                mats = (K, C, M, F)
                before = [X.toarray().copy() for X in mats]
                for X, how in zip(mats, op["mutate"]):
                    try:
                        if how == "data":
                            X.data[:] = 7
                        elif how == "elim":
                            X.data[::2] = 0
                            X.eliminate_zeros()
                        elif how == "indices":
                            X.indices[:] = 0
                        elif how == "indptr":
                            X.indptr[:] = 0
                        elif how == "setdiag":
                            X.setdiag(5)
                        elif how == "imul":
                            X *= 3
                        elif how == "sort":
                            X.indices[:] = X.indices[::-1].copy()
                    except Exception:
                        pass
                for si, (X, how) in enumerate(zip(mats, op["mutate"])):
                    if how is None and res["prop_fail"] is None:
                        try:
                            same = np.array_equal(X.toarray(), before[si])
                        except Exception:
                            same = False
                        if not same:
                            res["prop_fail"] = {"op_index": iop, "assembly_index": nass, "slot": "KCMF"[si], "alias_assembly": True,
                                                "impl": "slot %s changed although only the OTHER matrices returned by the same Assembly() call were modified in place (%s)" % ("KCMF"[si], op["mutate"]),
                                                "dense": before[si].real.tolist()}
                res.setdefault("mutated_at", []).append(iop)
            if res["prop_fail"] is not None and res["prop_fail"]["op_index"] == iop and op.get("layouts"):
                # diagnosis: the same values as plain C-contiguous ndarrays
                simu.table = {groups[gid]: tuple(a for (g2, a) in [(gid, slots[si][j][1]) for si in range(4)])
                              for j, (gid, _) in enumerate(op["table"])}
                try:
                    ok = True
                    for si, X in enumerate(simu.Assembly(pt)):
                        D = dense_reference(groups, slots[si], dof_n, Ndof, si < 3)
                        ok = ok and X.shape[0] == Ndof and np.array_equal(X.toarray().astype(complex), D)
                    res["prop_fail"]["contiguous_ok"] = bool(ok)
                except Exception:
                    res["prop_fail"]["contiguous_ok"] = False
            res["assemblies"].append({"Ndof": int(Ndof), "out": out})
            nass += 1
        elif k == "clear":
            from EasyFEA.Utilities._cache import clear_cached_computed_values
            clear_cached_computed_values(simu)
        elif k == "setmesh":
            simu.mesh = meshes[op["mesh"]]
        elif k == "addlag":
            pt = pts[op["pt"]]
            simu._Bc_Add_Lagrange(LagrangeCondition(pt, np.array([0]), np.array([0]), [simu.Get_unknowns(pt)[0]],
                                                    np.array([0.0]), np.array([1.0])))
        elif k == "adddir":
            pt = pts[op["pt"]]
            dofs = np.array(op["dofs"], dtype=int)
            simu._Bc_Add_Dirichlet(pt, np.array([0]), np.zeros(len(dofs)), dofs, [simu.Get_unknowns(pt)[0]])
        elif k == "bcinit":
            simu.Bc_Init()
        elif k == "needupdate":
            simu.Need_Update()
        else:
            raise ValueError("unknown op " + k)
    # dump the private cache of the reduction maps
    cache = getattr(simu, "__cachedComputedValues", {})
    entries = []
    res["cache_unreadable"] = 0
    for key, val in cache.items():
        if key[0] != "__Get_csr_map":
            continue
        try:
            dof_n, isM, Ndof, gs = key[1]
            inv, indices, indptr, nnz = val
            entries.append({"key": [int(dof_n), bool(isM), int(Ndof), [gid_of.get(id(g), -1) for g in gs]],
                            "val": [[int(v) for v in inv], [int(v) for v in indices], [int(v) for v in indptr], [int(nnz)]]})
        except Exception:   # the cache key/value layout changed: reported as a (soft) tie loss by the driver
            res["cache_unreadable"] += 1
    res["cache"] = entries
    return res


def main():
    req = json.load(sys.stdin)
    # EasyFEA prints to stdout (Terminal.MyPrint...): keep the JSON channel clean
    import io as _io
    real_stdout = sys.stdout
    sys.stdout = _io.StringIO()
    out = []
    for case in req["cases"]:
        try:
            out.append(run_case(case))
        except Exception as ex:  # the model predicts no exception for the generated (valid) cases
            import traceback
            out.append({"id": case["id"], "error": "%s: %s" % (type(ex).__name__, ex),
                        "trace": traceback.format_exc()[-1500:], "assemblies": [], "cache": [], "prop_fail": None})
    sys.stdout = real_stdout
    real_stdout.write("\n@@JSON@@" + json.dumps({"results": out}) + "\n")
    real_stdout.flush()


if __name__ == "__main__":
    main()
