"""C13 correspondence harness (runs inside the implementation environment).

Random forms from the grammar of coq/props/C13/C13_forms.v are generated both as Python
closures over Field / FeArray operations and as ASTs; the AST is evaluated here with the
denotational semantics of the Coq model (numpy transcription of dlin / dform / integrate_e with
the intended basis: N in the component of the active dof, grad[k][l] = dN_k if l == dof) and
compared with BiLinearForm.Integrate_e / Assemble.  The named forms are compared with the
built-in operators, LinearForm with Linear.V, and WeakForms simulations with the dedicated
Thermal / Elastic simulations.

stdin: {"seed": int, "tier": "quick"|"thorough", "only": [case ids]|null}
stdout: @@JSON@@{"cases": [...]}
"""
import json
import random
import sys
import traceback

import numpy as np

TOL = 1e-10


def groups(tier):
    """(name, groupElem, mesh) on dyadic coordinates"""
    from EasyFEA import ElemType
    from EasyFEA.Geoms import Domain
    from corr import c16_impl as M
    out = []
    out.append(("TRI3-fan", M.mesh_2d_fan()))
    m = M._mesh([("QUAD4", [[0, 1, 4, 3], [1, 2, 5, 4]])], [[0, 0, 0], [2, 0, 0], [4.5, -0.5, 0], [0, 2, 0], [2.5, 1.5, 0], [4, 2, 0]])
    out.append(("QUAD4-skew", m))
    out.append(("TETRA4", M.mesh_3d_tets()))
    m = M._mesh([("HEXA8", [[0, 1, 2, 3, 4, 5, 6, 7]])], [[0, 0, 0], [2, 0, 0], [2, 2, 0], [0, 2, 0], [0, 0, 2], [2, 0, 2], [2.5, 2.5, 2], [0, 2, 2]])
    out.append(("HEXA8-skew", m))
    out.append(("TRI6", Domain((0, 0), (1, 1), 0.5).Mesh_2D([], ElemType.TRI6, isOrganised=True)))
    if tier == "thorough":
        out.append(("QUAD8", Domain((0, 0), (1, 1), 0.5).Mesh_2D([], ElemType.QUAD8, isOrganised=True)))
        out.append(("QUAD9", Domain((0, 0), (1, 1), 0.5).Mesh_2D([], ElemType.QUAD9, isOrganised=True)))
        out.append(("TRI10", Domain((0, 0), (1, 1), 1.0).Mesh_2D([], ElemType.TRI10, isOrganised=True)))
        m = M._mesh([("PRISM6", [[0, 1, 2, 3, 4, 5]])], [[0, 0, 0], [2, 0, 0], [0, 2, 0], [0, 0, 2], [2, 0, 2], [0, 2, 2.5]])
        out.append(("PRISM6", m))
        out.append(("TETRA10", Domain((0, 0), (1, 1), 1.0).Mesh_2D([], ElemType.TRI3, isOrganised=True)) if False else ("TRI3-fan2", M.mesh_2d_fan()))
    return out


# ------------------------------------------------------------------------------------------
# grammar
# ------------------------------------------------------------------------------------------
VALOPS = ["A@u", "A@u()", "u@At", "u()@At", "b*u", "u*b", "c*u", "u*c", "u/c"]
AMAT = np.array([[1.0, 2.0, 0.5], [-0.5, 3.0, 1.0], [0.25, -1.0, 2.0]])       # non-symmetric
BVEC = np.array([2.0, -3.0, 1.5])
CSCA = 2.5


def valop_matrix(kind, q):
    """matrix M (q x q) such that the expression denotes M applied to the field value"""
    if kind in ("A@u", "A@u()", "u@At", "u()@At"):
        return AMAT[:q, :q]
    if kind in ("b*u", "u*b"):
        return np.diag(BVEC[:q])
    if kind in ("c*u", "u*c"):
        return CSCA * np.eye(q)
    return np.eye(q) / CSCA


def gen_lin(rng, typ, vector, depth):
    """random lin AST of tensor type typ in {'s','v','m'} for a scalar (vector=False), a vector
    field with dof_n == dim (vector=True) or with dof_n != dim (vector='rect': the gradient is a
    dim x dof_n matrix, so no transpose / trace / symmetric part)"""
    opts = []
    if vector == "rect":
        if typ == "v":
            opts = ["Val", "ValOp"]
        elif typ == "m":
            opts = ["Grad"] + (["Add", "MatL"] if depth > 0 else [])
    elif not vector:
        if typ == "s":
            opts = ["Val", "Dir"]
        elif typ == "v":
            opts = ["Grad"]
    else:
        if typ == "v":
            opts = ["Val", "ValOp", "ValOp"]
        elif typ == "m":
            opts = ["Grad", "SymGrad"] + (["Transp", "TraceI", "Add", "MatL"] if depth > 0 else [])
        elif typ == "s" and depth > 0:
            opts = ["Trace"]
    if depth > 0 and opts and not (vector and typ == "s" and depth < 2):
        opts = opts + ["Scale"]
    if not opts:
        return None
    k = rng.choice(opts)
    if k in ("Val", "Grad", "SymGrad"):
        return (k,)
    if k == "Dir":
        return ("Dir", rng.choice([(1.0, 0.0, 0.0), (0.5, -1.0, 2.0), (0.0, 1.0, 0.0)]))
    if k == "ValOp":
        # a constant operand combined with the Field OBJECT (reflected / direct operators)
        return ("ValOp", rng.choice(VALOPS))
    if k == "MatL":
        return ("MatL", gen_lin(rng, "m", vector, depth - 1))
    if k == "Transp":
        return ("Transp", gen_lin(rng, "m", vector, depth - 1))
    if k == "Trace":
        return ("Trace", gen_lin(rng, "m", vector, depth - 1))
    if k == "TraceI":
        return ("TraceI", gen_lin(rng, "m", vector, depth - 1))
    if k == "Scale":
        return ("Scale", rng.choice(["cx", "cy", "c2"]), gen_lin(rng, typ, vector, depth - 1))
    if k == "Add":
        return ("Add", gen_lin(rng, typ, vector, depth - 1), gen_lin(rng, typ, vector, depth - 1))
    raise ValueError(k)


def gen_form(rng, vector, depth):
    k = rng.choice(["Contr", "Contr", "Contr", "FScale", "FAdd"]) if depth > 0 else "Contr"
    if k == "Contr":
        types = ["v", "m"] if vector == "rect" else ["v", "m", "s"] if vector else ["s", "v"]
        rng.shuffle(types)
        for t in types:
            a, b = gen_lin(rng, t, vector, depth), gen_lin(rng, t, vector, depth)
            if a is not None and b is not None:
                return ("Contr", t, a, b)
        raise ValueError("no lin")
    if k == "FScale":
        return ("FScale", rng.choice(["cx", "cy", "c2"]), gen_form(rng, vector, depth - 1))
    return ("FAdd", gen_form(rng, vector, depth - 1), gen_form(rng, vector, depth - 1))


def closure_lin(t, coefs, dim):
    """AST -> python function of a Field, written with the user-level API"""
    from EasyFEA.FEM import Sym_Grad, Trace
    k = t[0]
    if k == "Val":
        return lambda u: u()
    if k == "Grad":
        return lambda u: u.grad
    if k == "SymGrad":
        return lambda u: Sym_Grad(u)
    if k == "Dir":
        b = np.array(t[1][:dim])
        return lambda u: u.grad.dot(b)
    if k == "ValOp":
        kind = t[1]

        def f(u, kind=kind):
            q = u.dof_n
            A, At, b = AMAT[:q, :q], AMAT[:q, :q].T.copy(), BVEC[:q]
            return {"A@u": lambda: A @ u, "A@u()": lambda: A @ u(), "u@At": lambda: u @ At, "u()@At": lambda: u() @ At,
                    "b*u": lambda: b * u, "u*b": lambda: u * b, "c*u": lambda: CSCA * u, "u*c": lambda: u * CSCA, "u/c": lambda: u / CSCA}[kind]()
        return f
    if k == "MatL":
        f = closure_lin(t[1], coefs, dim)
        A = AMAT[:dim, :dim]
        return lambda u: A @ f(u)
    if k == "Transp":
        f = closure_lin(t[1], coefs, dim)
        return lambda u: f(u).T
    if k == "Trace":
        f = closure_lin(t[1], coefs, dim)
        return lambda u: Trace(f(u))
    if k == "TraceI":
        f = closure_lin(t[1], coefs, dim)
        return lambda u: Trace(f(u)) * np.eye(dim)
    if k == "Scale":
        f = closure_lin(t[2], coefs, dim)
        c = coefs[t[1]]
        return lambda u: c * f(u)
    if k == "Add":
        f, g = closure_lin(t[1], coefs, dim), closure_lin(t[2], coefs, dim)
        return lambda u: f(u) + g(u)
    raise ValueError(k)


def closure_form(t, coefs, dim):
    k = t[0]
    if k == "Contr":
        a, b = closure_lin(t[2], coefs, dim), closure_lin(t[3], coefs, dim)
        if t[1] == "s":
            # scalars: a scalar field's value is a 1-vector (contract with dot); Trace(...) are true scalars
            one = np.ones(1)
            sc = lambda x: x.dot(one) if getattr(x, "_ndim", 0) == 1 else x   # 1-vector value of a scalar field -> scalar
            return lambda u, v: sc(a(u)) * sc(b(v))
        if t[1] == "v":
            return lambda u, v: a(u).dot(b(v))
        return lambda u, v: a(u).ddot(b(v))
    if k == "FScale":
        f = closure_form(t[2], coefs, dim)
        c = coefs[t[1]]
        return lambda u, v: c * f(u, v)
    f, g = closure_form(t[1], coefs, dim), closure_form(t[2], coefs, dim)
    return lambda u, v: f(u, v) + g(u, v)


# ------------------------------------------------------------------------------------------
# model semantics (numpy transcription of C13_forms.v)
# ------------------------------------------------------------------------------------------
COEF_SCALE = [1.0]      # multiplies every coefficient field (scaled twins: 2^+-40)


class Data:
    def __init__(self, g, dof_n, matrixType):
        self.N = np.asarray(g.Get_N_pg(matrixType))[:, 0, :]               # (nPg, nPe)
        self.dN = np.asarray(g.Get_dN_e_pg(matrixType))                     # (Ne, nPg, dim, nPe)
        self.w = np.asarray(g.Get_weightedJacobian_e_pg(matrixType))        # (Ne, nPg)
        self.Ne, self.nPg, self.dim, self.nPe = self.dN.shape
        self.n = max(self.dim, dof_n)
        self.dof_n = dof_n
        coords = np.asarray(g.Get_GaussCoordinates_e_pg(matrixType))
        L = float(np.max(np.abs(np.asarray(g.coord)))) or 1.0          # coefficients vary by O(1) over the mesh at any length scale
        k = COEF_SCALE[0]
        self.coefs = {"cx": k * (1.0 + 0.5 * coords[..., 0] / L), "cy": k * (2.0 - 0.25 * coords[..., 1] / L), "c2": np.full((self.Ne, self.nPg), 1.5 * k)}

    def basis(self, i):
        """(fval (Ne,nPg,n), fgrad (Ne,nPg,n,n)) of local dof i: node = i // dof_n, dof = i % dof_n"""
        a, d = i // self.dof_n, i % self.dof_n
        fval = np.zeros((self.Ne, self.nPg, self.n))
        fval[:, :, d] = self.N[None, :, a]
        fgrad = np.zeros((self.Ne, self.nPg, self.n, self.n))
        fgrad[:, :, :self.dim, d] = self.dN[:, :, :, a]
        return fval, fgrad


def dlin(t, D, b):
    fval, fgrad = b
    k = t[0]
    n = D.n
    if k == "Val":
        T = np.zeros((D.Ne, D.nPg, n, n))
        T[..., :, 0] = fval
        return T
    if k == "Grad":
        return fgrad
    if k == "SymGrad":
        return 0.5 * (np.swapaxes(fgrad, -1, -2) + fgrad)
    if k == "Dir":
        T = np.zeros((D.Ne, D.nPg, n, n))
        T[..., 0, 0] = np.einsum("k,epk->ep", np.array(t[1][:n]), fgrad[..., :, 0])
        return T
    if k == "ValOp":
        M = np.zeros((n, n))
        M[:D.dof_n, :D.dof_n] = valop_matrix(t[1], D.dof_n)
        T = np.zeros((D.Ne, D.nPg, n, n))
        T[..., :, 0] = np.einsum("km,epm->epk", M, fval)
        return T
    if k == "MatL":
        M = np.zeros((n, n))
        M[:D.dim, :D.dim] = AMAT[:D.dim, :D.dim]
        return np.einsum("km,epml->epkl", M, dlin(t[1], D, b))
    if k == "Transp":
        return np.swapaxes(dlin(t[1], D, b), -1, -2)
    if k == "Trace":
        A = dlin(t[1], D, b)
        T = np.zeros_like(A)
        T[..., 0, 0] = np.trace(A, axis1=-2, axis2=-1)
        return T
    if k == "TraceI":
        A = dlin(t[1], D, b)
        return np.trace(A, axis1=-2, axis2=-1)[..., None, None] * np.eye(n)
    if k == "Scale":
        return D.coefs[t[1]][..., None, None] * dlin(t[2], D, b)
    if k == "Add":
        return dlin(t[1], D, b) + dlin(t[2], D, b)
    raise ValueError(k)


def dform(t, D, bu, bv):
    k = t[0]
    if k == "Contr":
        return np.einsum("epkl,epkl->ep", dlin(t[2], D, bu), dlin(t[3], D, bv))
    if k == "FScale":
        return D.coefs[t[1]] * dform(t[2], D, bu, bv)
    return dform(t[1], D, bu, bv) + dform(t[2], D, bu, bv)


def model_integrate(t, D):
    nd = D.nPe * D.dof_n
    K = np.zeros((D.Ne, nd, nd))
    B = [D.basis(i) for i in range(nd)]
    for i in range(nd):
        for j in range(nd):
            K[:, i, j] = np.sum(D.w * dform(t, D, B[i], B[j]), axis=1)
    return K


def scatter(g, dof_n, Ke):
    asm = np.asarray(g.Get_assembly_e(dof_n))
    Nd = g.Ncoords * dof_n
    if Ke.ndim == 3:
        K = np.zeros((Nd, Nd))
        for e in range(Ke.shape[0]):
            for i, I in enumerate(asm[e]):
                for j, J in enumerate(asm[e]):
                    K[I, J] += Ke[e, i, j]
        return K
    F = np.zeros(Nd)
    for e in range(Ke.shape[0]):
        for i, I in enumerate(asm[e]):
            F[I] += Ke[e, i]
    return F


def close(a, b, tol=TOL):
    a, b = np.asarray(a, dtype=float), np.asarray(b, dtype=float)
    if a.shape != b.shape:
        return False, "shape %s vs %s" % (a.shape, b.shape)
    if not np.all(np.isfinite(a)):
        return False, "non-finite"
    scale = max(1e-300, float(np.max(np.abs(b))), float(np.max(np.abs(a))))
    err = float(np.max(np.abs(a - b)))
    if err <= tol * scale:                    # purely relative: no absolute floor
        return True, "%.1e" % (err / scale)
    i = int(np.argmax(np.abs(a - b).ravel()))
    idx = np.unravel_index(i, a.shape)
    return False, "max abs diff %.6g (scale %.3g) at %s: got %.12g expected %.12g" % (err, scale, tuple(int(x) for x in idx), a[idx], b[idx])


def show(t):
    k = t[0]
    if k in ("Val", "Grad", "SymGrad"):
        return {"Val": "u", "Grad": "grad(u)", "SymGrad": "Sym_Grad(u)"}[k]
    if k == "Dir":
        return "grad(u).%s" % (list(t[1]),)
    if k == "ValOp":
        return "[%s]" % t[1]
    if k == "MatL":
        return "A@(%s)" % show(t[1])
    if k == "Transp":
        return "(%s).T" % show(t[1])
    if k == "Trace":
        return "Trace(%s)" % show(t[1])
    if k == "TraceI":
        return "Trace(%s)*I" % show(t[1])
    if k == "Scale":
        return "%s*%s" % (t[1], show(t[2]))
    if k == "Add":
        return "(%s + %s)" % (show(t[1]), show(t[2]))
    if k == "Contr":
        return "<%s | %s>_%s" % (show(t[2]), show(t[3]).replace("u", "v"), t[1])
    if k == "FScale":
        return "%s*%s" % (t[1], show(t[2]))
    return "(%s + %s)" % (show(t[1]), show(t[2]))


def uses_val(t):
    return t[0] in ("Val", "ValOp") or any(isinstance(x, tuple) and x and isinstance(x[0], str) and uses_val(x) for x in t[1:])


# ------------------------------------------------------------------------------------------
def case_random_form(gname, mesh, vector, seed, idx, depth, dof_n=None):
    from EasyFEA.FEM import Field, BiLinearForm, MatrixType, FeArray
    rng = random.Random("%s|%s|%d|%d|%s" % (gname, vector, seed, idx, dof_n))
    g = mesh.groupElem
    dim = g.dim
    if dof_n is None:
        dof_n = dim if vector else 1
    mt = rng.choice([MatrixType.rigi, MatrixType.mass])
    ast_ = gen_form(rng, vector, depth)
    D = Data(g, dof_n, mt)
    coefs = {k: FeArray.asfearray(v) for k, v in D.coefs.items()}
    form = BiLinearForm(closure_form(ast_, coefs, dim))
    field = Field(g, dof_n, mt)
    recs = []
    cid = "form:%s:%s:%d" % (gname, ("dof%d" % dof_n) if vector == "rect" else "vec" if vector else "sca", idx)
    desc = show(ast_)
    tag = "vector-val" if (vector and uses_val(ast_)) else "generic"
    try:
        Ke = np.asarray(form.Integrate_e(field))
        Km = model_integrate(ast_, D)
        ok, d = close(Ke, Km)
        recs.append({"id": cid, "what": "Integrate_e vs model semantics", "ok": ok, "detail": d, "form": desc, "kind": "integrate", "tag": tag})
        A = form.Assemble(field).toarray()
        ok2, d2 = close(A, scatter(g, dof_n, Ke))
        recs.append({"id": cid, "what": "Assemble vs scatter_add(Integrate_e)", "ok": ok2, "detail": d2, "form": desc, "kind": "assemble", "tag": "generic"})
    except Exception as ex:
        recs.append({"id": cid, "what": "form evaluation raised", "ok": False, "detail": "%s: %s" % (type(ex).__name__, str(ex)[:300]), "form": desc, "kind": "raises", "tag": tag})
    return recs


def case_builtins(gname, mesh):
    from EasyFEA.FEM import Field, BiLinearForm, LinearForm, MatrixType, FeArray, Sym_Grad, Trace
    from EasyFEA.FEM.Operators import Bilinear, Linear
    g = mesh.groupElem
    dim = g.dim
    recs = []

    def rec(name, ok, d, kind="builtin", tag="generic"):
        recs.append({"id": "builtin:%s:%s" % (gname, name), "what": name, "ok": bool(ok), "detail": d, "form": name, "kind": kind, "tag": tag})
    D = Data(g, 1, MatrixType.rigi)
    cx = FeArray.asfearray(D.coefs["cx"])
    # grad.grad
    f1 = Field(g, 1, MatrixType.rigi)
    gg = BiLinearForm(lambda u, v: cx * u.grad.dot(v.grad))
    try:
        rec("form_grad_grad=GradUGradV", *close(gg.Integrate_e(f1), Bilinear.GradUGradV(g, cx, MatrixType.rigi)))
    except Exception as ex:
        rec("form_grad_grad=GradUGradV", False, "%s: %s" % (type(ex).__name__, ex), "raises")
    # the product written with `*` on a scalar field (its values are 1-vectors): u * v == UV
    try:
        fs = Field(g, 1, MatrixType.mass)
        rec("form_u*v(scalar field)=UV", *close(BiLinearForm(lambda u, v: u * v).Integrate_e(fs), Bilinear.UV(g, 1.0, dof_n=1, matrixType=MatrixType.mass)), kind="scalar-star-product")
    except Exception as ex:
        rec("form_u*v(scalar field)=UV", False, "%s: %s" % (type(ex).__name__, ex), kind="scalar-star-product")
    # u v scalar and vector
    for dof_n in (1, dim):
        fm = Field(g, dof_n, MatrixType.mass)
        Dm = Data(g, dof_n, MatrixType.mass)
        cm = FeArray.asfearray(Dm.coefs["cy"])
        uv = BiLinearForm(lambda u, v: cm * u.dot(v))
        name = "form_uv=UV(dof_n=%d)" % dof_n
        try:
            rec(name, *close(uv.Integrate_e(fm), Bilinear.UV(g, cm, dof_n=dof_n, matrixType=MatrixType.mass)), tag="generic" if dof_n == 1 else "vector-val")
        except Exception as ex:
            rec(name, False, "%s: %s" % (type(ex).__name__, ex), "raises", tag="generic" if dof_n == 1 else "vector-val")
    # elasticity
    if dim in (2, 3):
        lam, mu = 3.0, 2.0
        fe = Field(g, dim, MatrixType.rigi)

        def el(u, v):
            Eps = Sym_Grad(u)
            Sig = 2 * mu * Eps + lam * Trace(Eps) * np.eye(dim)
            return Sig.ddot(Sym_Grad(v))
        ns = 3 if dim == 2 else 6
        C = 2 * mu * np.eye(ns)
        C[:dim, :dim] += lam
        try:
            rec("form_elastic=LinearizedElasticity", *close(BiLinearForm(el).Integrate_e(fe), Bilinear.LinearizedElasticity(g, C, MatrixType.rigi)))
        except Exception as ex:
            rec("form_elastic=LinearizedElasticity", False, "%s: %s" % (type(ex).__name__, ex), "raises")
    # linear forms
    for dof_n in (1, dim):
        fm = Field(g, dof_n, MatrixType.mass)
        Dm = Data(g, dof_n, MatrixType.mass)
        cm = FeArray.asfearray(Dm.coefs["cx"])
        if dof_n == 1:
            lf = LinearForm(lambda v: cm * v)
            tag = "generic"
        else:
            body = np.arange(1, dof_n + 1, dtype=float)
            lf = LinearForm(lambda v: cm * v.dot(body))
            tag = "vector-val"
        name = "form_v=V(dof_n=%d)" % dof_n
        try:
            Fe = np.asarray(lf.Integrate_e(fm))
            if dof_n == 1:
                ref = np.asarray(Linear.V(g, cm, 1, MatrixType.mass)).reshape(Fe.shape)
            else:
                # reference: f_d * int N_a
                ref = np.einsum("ep,pa,d->ead", Dm.w * Dm.coefs["cx"], Dm.N, body).reshape(Fe.shape)
            rec(name, *close(Fe, ref), tag=tag)
            try:
                Fa = lf.Assemble(fm)
                Fd = np.asarray(Fa.todense()).ravel()
                rec("LinearForm.Assemble(dof_n=%d)" % dof_n, *close(Fd, scatter(g, dof_n, Fe[..., 0])), kind="linear-assemble")
            except Exception as ex:
                rec("LinearForm.Assemble(dof_n=%d)" % dof_n, False, "%s: %s" % (type(ex).__name__, str(ex)[:200]), kind="linear-assemble")
        except Exception as ex:
            rec(name, False, "%s: %s" % (type(ex).__name__, ex), "raises", tag=tag)
    return recs


def case_simulations(seed, sL=1.0):
    """WeakForms simulation vs dedicated Thermal / Elastic: matrices and one solve"""
    from EasyFEA import Models, Simulations, ElemType, SolverType
    from EasyFEA.FEM import Field, BiLinearForm, LinearForm, Sym_Grad, Trace, MatrixType
    from EasyFEA.Geoms import Domain
    recs = []

    def rec(name, ok, d, tag="generic"):
        recs.append({"id": "simu%s:%s" % ("" if sL == 1.0 else "@L=%g" % sL, name), "what": name, "ok": bool(ok), "detail": d, "form": name, "kind": "simulation", "tag": tag})
    mesh = Domain((0, 0), (1, 1), 0.5).Mesh_2D([], ElemType.TRI6, isOrganised=True)
    n0 = mesh.Nodes_Conditions(lambda x, y, z: x == 0)
    n1 = mesh.Nodes_Conditions(lambda x, y, z: x == 1)
    if sL != 1.0:
        mesh.coord = mesh.coord * sL           # scaled twin: same nodes, lengths x sL
    # ---------------- thermal: K, C, static and parabolic step
    k, c = 2.0, 3.0
    try:
        th = Simulations.Thermal(mesh, Models.Thermal(k=k, c=c))
        field = Field(mesh.groupElem, 1)
        wf = Models.WeakForms(field, BiLinearForm(lambda u, v: k * u.grad.dot(v.grad)), computeC=BiLinearForm(lambda u, v: c * u.dot(v)))
        ws = Simulations.WeakForms(mesh, wf)
        Kt, Ct, _, _ = th.Get_K_C_M_F()
        Kw, Cw, _, _ = ws.Get_K_C_M_F()
        rec("thermal:K", *close(Kw.toarray(), Kt.toarray()))
        rec("thermal:C", *close(Cw.toarray(), Ct.toarray()))
        for s, unk in ((th, "t"), (ws, "u")):
            s.solver = SolverType.scipy
            s.add_dirichlet(n0, [0], [unk])
            s.add_dirichlet(n1, [1], [unk])
            s.Solve()
        rec("thermal:static-solution", *close(ws.u, th.thermal))
        for s in (th, ws):
            s.Solver_Set_Parabolic_Algorithm(dt=0.25)
            s.Solve()
        rec("thermal:parabolic-step", *close(ws.u, th.thermal))
    except Exception:
        rec("thermal", False, traceback.format_exc()[-600:])
    # ---------------- elastic: K, M, static, one Newmark step
    try:
        mat = Models.Elastic.Isotropic(2, E=8.0, v=0.25, planeStress=False, thickness=2.0)
        lam, mu, rho = mat.get_lambda(), mat.get_mu(), 2.0
        es = Simulations.Elastic(mesh, mat)
        es.rho = rho
        field = Field(mesh.groupElem, 2)

        def Kf(u, v):
            Eps = Sym_Grad(u)
            return (2 * mu * Eps + lam * Trace(Eps) * np.eye(2)).ddot(Sym_Grad(v))
        wf = Models.WeakForms(field, BiLinearForm(Kf), computeM=BiLinearForm(lambda u, v: rho * u.dot(v)), thickness=2.0)
        ws = Simulations.WeakForms(mesh, wf)
        Ke, _, Me, _ = es.Get_K_C_M_F()
        Kw, _, Mw, _ = ws.Get_K_C_M_F()
        rec("elastic:K", *close(Kw.toarray(), Ke.toarray()))
        rec("elastic:M", *close(Mw.toarray(), Me.toarray()), tag="vector-val")
        for s in (es, ws):
            s.solver = SolverType.scipy
            s.add_dirichlet(n0, [0, 0], ["x", "y"])
            s.add_dirichlet(n1, [0.125], ["x"])
            s.Solve()
        rec("elastic:static-solution", *close(ws.u, es.displacement))
        for s in (es, ws):
            s.Solver_Set_Hyperbolic_Algorithm(dt=0.125)
            s.Solve()
        rec("elastic:hyperbolic-step", *close(ws.u, es.displacement), tag="vector-val")
    except Exception:
        rec("elastic", False, traceback.format_exc()[-600:])
    return recs


def case_moved_mesh(gname, mesh):
    """the SAME Field and form objects, with coefficients read from field.Get_coords() inside
    the form, integrated again after the mesh was translated and after mesh.coord was reset:
    they must keep matching the built-in operators fed with the coefficient at the current
    Gauss points (and a freshly built field)."""
    from EasyFEA.FEM import Field, BiLinearForm, LinearForm, MatrixType
    from EasyFEA.FEM.Operators import Bilinear, Linear
    recs = []
    g = mesh.groupElem
    mt = MatrixType.mass
    field = Field(g, 1, mt)

    def coef(x, y):
        return 1.0 + 0.5 * x + 0.25 * y * y

    def diffusion(u, v):
        x, y, _ = u.Get_coords()
        return coef(x, y) * u.grad.dot(v.grad)

    def reaction(u, v):
        x, y, _ = v.Get_coords()
        return coef(x, y) * u.dot(v)

    def source(v):
        x, y, _ = v.Get_coords()
        return coef(x, y) * v
    fd, fr, fs = BiLinearForm(diffusion), BiLinearForm(reaction), LinearForm(source)

    def rec(step, name, ok, d):
        recs.append({"id": "moved:%s:%s:%s" % (gname, step, name), "what": "%s after %s" % (name, step), "ok": bool(ok), "detail": d,
                     "form": "c(x,y)*%s with c from field.Get_coords()" % name, "kind": "moved-mesh", "tag": "generic"})

    def compare(step):
        xyz = np.asarray(g.Get_GaussCoordinates_e_pg(mt))
        c = coef(xyz[..., 0], xyz[..., 1])
        for name, fn in (("grad(u).grad(v)=GradUGradV", lambda: close(fd.Integrate_e(field), Bilinear.GradUGradV(g, c, mt))),
                         ("u.v=UV", lambda: close(fr.Integrate_e(field), Bilinear.UV(g, c, 1, mt))),
                         ("v=V", lambda: close(np.asarray(fs.Integrate_e(field))[..., 0], np.asarray(Linear.V(g, c, 1, mt)).reshape(g.Ne, -1))),
                         ("same-field=fresh-field", lambda: close(fr.Integrate_e(field), fr.Integrate_e(Field(g, 1, mt))))):
            try:
                rec(step, name, *fn())
            except Exception as ex:
                rec(step, name, False, "%s: %s" % (type(ex).__name__, str(ex)[:200]))
    compare("initial")
    mesh.Translate(dx=2.0, dy=-1.0)
    compare("mesh.Translate")
    newCoord = mesh.coord.copy()
    newCoord[:, :2] *= 1.5
    mesh.coord = newCoord
    compare("mesh.coord=1.5*coord")
    return recs


def case_simulations_F(seed):
    """weak-form simulations with a source term (computeF) on plates of thickness != 1:
    K, C, M and F against thickness * built-in operators, solution against the dedicated one"""
    from EasyFEA import Models, Simulations, ElemType, SolverType
    from EasyFEA.FEM import Field, BiLinearForm, LinearForm, Sym_Grad, Trace, MatrixType
    from EasyFEA.FEM.Operators import Bilinear, Linear
    from EasyFEA.Geoms import Domain
    recs = []

    def rec(name, ok, d, tag="generic"):
        recs.append({"id": "simuF:%s" % name, "what": name, "ok": bool(ok), "detail": d, "form": name, "kind": "simulation", "tag": tag})

    def src(x, y, z):
        return 1.0 + 2.0 * x + y * y
    for thickness in (0.25, 2.0):
        tname = "t=%g" % thickness
        try:
            mesh = Domain((0, 0), (1, 1), 0.5).Mesh_2D([], ElemType.TRI6, isOrganised=True)
            g = mesh.groupElem
            n0 = mesh.Nodes_Conditions(lambda x, y, z: x == 0)
            n1 = mesh.Nodes_Conditions(lambda x, y, z: x == 1)
            k, c = 3.0, 2.0
            # reference with thickness 1: Dirichlet + volumetric source -> thickness-independent solution
            th = Simulations.Thermal(mesh, Models.Thermal(k=k, c=c, thickness=1.0))
            th.solver = SolverType.scipy
            th.add_dirichlet(n0, [0], ["t"])
            th.add_dirichlet(n1, [1], ["t"])
            th.add_volumeLoad(mesh.nodes, [src], ["t"])
            th.Solve()
            field = Field(g, 1)
            mt = field.matrixType

            def lf(v):
                x, y, z = v.Get_coords()
                return src(x, y, z) * v
            wf = Models.WeakForms(field, BiLinearForm(lambda u, v: k * u.grad.dot(v.grad)), computeC=BiLinearForm(lambda u, v: c * u.dot(v)),
                                  computeF=LinearForm(lf), thickness=thickness)
            ws = Simulations.WeakForms(mesh, wf)
            ws.solver = SolverType.scipy
            K, C, M, F = ws.Get_K_C_M_F()
            xyz = np.asarray(g.Get_GaussCoordinates_e_pg(mt))
            f_e_pg = src(xyz[..., 0], xyz[..., 1], xyz[..., 2])
            rec("%s:thermal:K=t*GradUGradV" % tname, *close(K.toarray(), scatter(g, 1, thickness * np.asarray(Bilinear.GradUGradV(g, k, mt)))))
            rec("%s:thermal:C=t*UV" % tname, *close(C.toarray(), scatter(g, 1, thickness * np.asarray(Bilinear.UV(g, c, 1, mt)))))
            Fe = np.asarray(Linear.V(g, f_e_pg, 1, mt)).reshape(g.Ne, -1)
            rec("%s:thermal:F=t*V" % tname, *close(np.asarray(F.todense()).ravel(), scatter(g, 1, thickness * Fe)))
            ws.add_dirichlet(n0, [0], ["u"])
            ws.add_dirichlet(n1, [1], ["u"])
            ws.Solve()
            rec("%s:thermal:solution-with-source" % tname, *close(ws.u, th.thermal))
        except Exception:
            rec("%s:thermal" % tname, False, traceback.format_exc()[-600:])
        try:
            mat = Models.Elastic.Isotropic(2, E=8.0, v=0.25, planeStress=True, thickness=thickness)
            lam, mu, rho = mat.get_lambda(), mat.get_mu(), 2.0
            es = Simulations.Elastic(mesh, mat)
            es.rho = rho
            es.solver = SolverType.scipy
            es.add_dirichlet(n0, [0, 0], ["x", "y"])
            es.add_volumeLoad(mesh.nodes, [lambda x, y, z: -2.0 * (1 + x)], ["y"])
            es.Solve()
            field2 = Field(g, 2)
            mt2 = field2.matrixType
            ey = np.array([0.0, 1.0])

            def Kf(u, v):
                Eps = Sym_Grad(u)
                return (2 * mu * Eps + lam * Trace(Eps) * np.eye(2)).ddot(Sym_Grad(v))

            def Ff(v):
                x, _, _ = v.Get_coords()
                return (-2.0 * (1 + x)) * v.dot(ey)
            wf2 = Models.WeakForms(field2, BiLinearForm(Kf), computeM=BiLinearForm(lambda u, v: rho * u.dot(v)), computeF=LinearForm(Ff), thickness=thickness)
            ws2 = Simulations.WeakForms(mesh, wf2)
            ws2.solver = SolverType.scipy
            K, C, M, F = ws2.Get_K_C_M_F()
            Ke, _, Me, _ = es.Get_K_C_M_F()
            rec("%s:elastic:K" % tname, *close(K.toarray(), Ke.toarray()))
            rec("%s:elastic:M" % tname, *close(M.toarray(), Me.toarray()), tag="vector-val")
            D = Data(g, 2, mt2)
            xyz = np.asarray(g.Get_GaussCoordinates_e_pg(mt2))
            fy = -2.0 * (1 + xyz[..., 0])
            Fe = np.zeros((D.Ne, D.nPe, 2))
            Fe[:, :, 1] = np.einsum("ep,pa->ea", D.w * fy, D.N)
            rec("%s:elastic:F=t*int(f.N)" % tname, *close(np.asarray(F.todense()).ravel(), scatter(g, 2, thickness * Fe.reshape(D.Ne, -1))), tag="vector-val")
            ws2.add_dirichlet(n0, [0, 0], ["x", "y"])
            ws2.Solve()
            rec("%s:elastic:solution-with-source" % tname, *close(ws2.u, es.displacement), tag="vector-val")
        except Exception:
            rec("%s:elastic" % tname, False, traceback.format_exc()[-600:])
    return recs


def surface_mesh_3d():
    """TRI3 surface group embedded in 3-D (dim 2, inDim 3), dyadic coordinates"""
    from corr import c16_impl as M
    return M._mesh([("TRI3", [[0, 1, 2], [1, 3, 2], [1, 4, 3]])], [[0, 0, 0], [2, 0, 0.5], [0, 2, 1], [2, 2, 1.5], [4, 1, 0.25]])


def case_rect_fields(gname, mesh, seed, nform, depth):
    """fields whose number of components differs from the dimension of the group"""
    from EasyFEA.FEM import Field, BiLinearForm, MatrixType
    from EasyFEA.FEM.Operators import Bilinear
    recs = []
    g = mesh.groupElem
    for dof_n in range(2, g.inDim + 1):
        if dof_n == g.dim:
            continue
        # grad(u):grad(v) = GradUGradV in every component
        cid = "builtin:%s:gradgrad(dof_n=%d)" % (gname, dof_n)
        try:
            f = Field(g, dof_n, MatrixType.rigi)
            Ke = np.asarray(BiLinearForm(lambda u, v: u.grad.ddot(v.grad)).Integrate_e(f))
            G = np.asarray(Bilinear.GradUGradV(g, 1.0, MatrixType.rigi))
            ref = np.zeros_like(Ke)
            for d in range(dof_n):
                ref[:, d::dof_n, d::dof_n] = G
            ok, det = close(Ke, ref)
            recs.append({"id": cid, "what": "grad(u):grad(v) = GradUGradV per component", "ok": ok, "detail": det, "form": "<grad(u)|grad(v)>_m, dof_n=%d on a %d-D group in %d-D" % (dof_n, g.dim, g.inDim), "kind": "builtin", "tag": "generic"})
        except Exception as ex:
            recs.append({"id": cid, "what": "grad(u):grad(v) = GradUGradV per component", "ok": False, "detail": "%s: %s" % (type(ex).__name__, str(ex)[:200]), "form": "dof_n=%d" % dof_n, "kind": "raises", "tag": "generic"})
        for i in range(nform):
            recs += case_random_form(gname, mesh, "rect", seed, i, depth, dof_n=dof_n)
    return recs


def case_shared_forms(seed, tier):
    """one BiLinearForm OBJECT handed to several roles (K/C/M in all pairings), thickness in
    {0.25, 1, 2}: every assembled matrix = thickness x built-in operator, idempotent under
    repeated assembly; damped dynamics with C = M (same object) vs the dedicated simulation"""
    from EasyFEA import Models, Simulations, ElemType, SolverType
    from EasyFEA.FEM import Field, BiLinearForm, Sym_Grad, Trace
    from EasyFEA.FEM.Operators import Bilinear
    from EasyFEA.Geoms import Domain
    recs = []

    def rec(name, ok, d, tag="generic"):
        recs.append({"id": "shared:%s" % name, "what": name, "ok": bool(ok), "detail": d, "form": name, "kind": "simulation", "tag": tag})
    mesh = Domain((0, 0), (1, 1), 0.5).Mesh_2D([], ElemType.TRI6, isOrganised=True)
    g = mesh.groupElem
    k, c = 3.0, 2.0
    for thickness in (0.25, 1.0, 2.0):
        for roles in ("K=C", "C=M", "K=M", "K=C=M", "distinct"):
            name = "t=%g:%s" % (thickness, roles)
            try:
                field = Field(g, 1)
                mt = field.matrixType
                gg = BiLinearForm(lambda u, v: k * u.grad.dot(v.grad))
                mm = BiLinearForm(lambda u, v: c * u.dot(v))
                mm2 = BiLinearForm(lambda u, v: c * u.dot(v))
                fK, fC, fM = {"K=C": (gg, gg, mm), "C=M": (gg, mm, mm), "K=M": (mm, gg, mm), "K=C=M": (mm, mm, mm), "distinct": (gg, mm, mm2)}[roles]
                ws = Simulations.WeakForms(mesh, Models.WeakForms(field, fK, fC, fM, thickness=thickness))
                refs = {id(gg): scatter(g, 1, thickness * np.asarray(Bilinear.GradUGradV(g, k, mt))),
                        id(mm): scatter(g, 1, thickness * np.asarray(Bilinear.UV(g, c, 1, mt)))}
                refs[id(mm2)] = refs[id(mm)]
                for rep in (1, 2):
                    K, C, M, _ = ws.Get_K_C_M_F()
                    for lab, mat, frm in (("K", K, fK), ("C", C, fC), ("M", M, fM)):
                        rec("%s:%s=t*builtin(call %d)" % (name, lab, rep), *close(mat.toarray(), refs[id(frm)]))
                    ws.Need_Update()       # force a second assembly: must give the same matrices
            except Exception:
                rec(name, False, traceback.format_exc()[-500:])
    # damped elastodynamics, C = M given as ONE form object
    for thickness in ((0.25,) if tier == "quick" else (0.25, 2.0)):
        name = "t=%g:elastic-dynamic:C=M-same-object" % thickness
        try:
            mat = Models.Elastic.Isotropic(2, E=8.0, v=0.25, planeStress=True, thickness=thickness)
            lam, mu, rho = mat.get_lambda(), mat.get_mu(), 2.0
            n0 = mesh.Nodes_Conditions(lambda x, y, z: x == 0)
            n1 = mesh.Nodes_Conditions(lambda x, y, z: x == 1)
            es = Simulations.Elastic(mesh, mat)
            es.rho = rho
            es.Set_Rayleigh_Damping_Coefs(coefM=1.0, coefK=0.0)
            field2 = Field(g, 2)

            def Kf(u, v):
                Eps = Sym_Grad(u)
                return (2 * mu * Eps + lam * Trace(Eps) * np.eye(2)).ddot(Sym_Grad(v))
            massForm = BiLinearForm(lambda u, v: rho * u.dot(v))
            ws = Simulations.WeakForms(mesh, Models.WeakForms(field2, BiLinearForm(Kf), massForm, massForm, thickness=thickness))
            Ke, Ce, Me, _ = es.Get_K_C_M_F()
            Kw, Cw, Mw, _ = ws.Get_K_C_M_F()
            rec(name + ":K", *close(Kw.toarray(), Ke.toarray()))
            rec(name + ":C", *close(Cw.toarray(), Ce.toarray()), tag="vector-val")
            rec(name + ":M", *close(Mw.toarray(), Me.toarray()), tag="vector-val")
            hist = []
            for s_, unk in ((es, ["x", "y"]), (ws, ["x", "y"])):
                s_.solver = SolverType.scipy
                s_.add_dirichlet(n0, [0, 0], unk)
                s_.add_dirichlet(n1, [-0.125], ["y"])
                s_.Solve()
                s_.Solver_Set_Hyperbolic_Algorithm(dt=0.125)
                s_.Bc_Init()
                s_.add_dirichlet(n0, [0, 0], unk)
                h = []
                for _ in range(3):
                    s_.Solve()
                    pb = s_.problemType
                    h.append(np.concatenate([s_._Get_u_n(pb), s_._Get_v_n(pb), s_._Get_a_n(pb)]).copy())
                hist.append(np.array(h))
            rec(name + ":3-steps(u,v,a)", *close(hist[1], hist[0], tol=1e-9), tag="vector-val")
        except Exception:
            rec(name, False, traceback.format_exc()[-500:])
    return recs


def case_field_object_ops(gname, mesh):
    """operators applied to Field OBJECTS (direct and reflected, constant operand on either side,
    non-symmetric matrices, vectors, scalars) against the same operation done with numpy on the
    field's values at the Gauss points; and the named forms (A @ u).dot(v), (u @ A).dot(v) against
    the reference A[e][d] * UV_ab  /  A[d][e] * UV_ab"""
    from EasyFEA.FEM import Field, BiLinearForm, MatrixType
    from EasyFEA.FEM.Operators import Bilinear
    recs = []
    g = mesh.groupElem
    mt = MatrixType.mass

    def rec(name, ok, d, kind="field-ops"):
        recs.append({"id": "fieldops:%s:%s" % (gname, name), "what": name, "ok": bool(ok), "detail": d, "form": name, "kind": kind, "tag": "generic"})
    for q in sorted({1, g.dim, g.inDim}):
        f = Field(g, q, mt)
        A, b, c = AMAT[:q, :q], BVEC[:q], CSCA
        ops = {"A@u": (lambda x: A @ x, lambda X: np.einsum("km,epm->epk", A, X)),
               "u@A": (lambda x: x @ A, lambda X: np.einsum("epm,mk->epk", X, A)),
               "b*u": (lambda x: b * x, lambda X: b * X), "u*b": (lambda x: x * b, lambda X: X * b),
               "c*u": (lambda x: c * x, lambda X: c * X), "u*c": (lambda x: x * c, lambda X: X * c),
               "c-u": (lambda x: c - x, lambda X: c - X), "u-c": (lambda x: x - c, lambda X: X - c),
               "b-u": (lambda x: b - x, lambda X: b - X), "u-b": (lambda x: x - b, lambda X: X - b),
               "c+u": (lambda x: c + x, lambda X: c + X), "b+u": (lambda x: b + x, lambda X: b + X),
               "u/c": (lambda x: x / c, lambda X: X / c), "u/b": (lambda x: x / b, lambda X: X / b)}
        if q == 1:
            ops["c/u"] = (lambda x: c / x, lambda X: c / X)          # N_a != 0 at interior Gauss points
        nd = g.nPe * q
        for i in sorted({0, nd // 2, nd - 1}):
            f._Set_current_active_node(i // q)
            f._Set_current_active_dof(i % q)
            X = np.array(np.asarray(f()), dtype=float)
            for name, (op, ref) in ops.items():
                try:
                    with np.errstate(divide="ignore", invalid="ignore"):
                        got = np.asarray(op(f), dtype=float)
                        exp = ref(X)
                    m = np.isfinite(exp)
                    ok, d = close(np.where(m, got, 0.0), np.where(m, exp, 0.0)) if got.shape == exp.shape else (False, "shape %s vs %s" % (got.shape, exp.shape))
                    rec("%s(dof_n=%d,i=%d)" % (name, q, i), ok, d)
                except Exception as ex:
                    rec("%s(dof_n=%d,i=%d)" % (name, q, i), False, "%s: %s" % (type(ex).__name__, str(ex)[:160]))
        if q > 1:
            fm = Field(g, q, mt)
            UVs = np.asarray(Bilinear.UV(g, 1.0, dof_n=1, matrixType=mt))       # int N_a N_b
            for name, form, M in (("(A@u).dot(v)", lambda u, v: (A @ u).dot(v), A.T), ("(u@A).dot(v)", lambda u, v: (u @ A).dot(v), A),
                                  ("u.dot(A@v)", lambda u, v: u.dot(A @ v), A), ("(b*u).dot(v)", lambda u, v: (b * u).dot(v), np.diag(b))):
                # entry ((a,d),(b,e)) = M[d][e] * int N_a N_b
                try:
                    ref = np.einsum("xab,de->xadbe", UVs, M).reshape(g.Ne, g.nPe * q, g.nPe * q)
                    rec("%s=M.UV(dof_n=%d)" % (name, q), *close(BiLinearForm(form).Integrate_e(fm), ref), kind="builtin")
                except Exception as ex:
                    rec("%s=M.UV(dof_n=%d)" % (name, q), False, "%s: %s" % (type(ex).__name__, str(ex)[:160]), kind="raises")
    return recs


def graded_mesh(kind):
    """meshes whose number of elements EQUALS the number of Gauss points of the rules in use,
    with non-uniform element sizes (dyadic coordinates)"""
    from corr import c16_impl as M
    if kind == "QUAD4-2x2":
        xs, ys = [0.0, 0.75, 2.0], [0.0, 1.25, 2.0]
        coord = [[x, y, 0.0] for y in ys for x in xs]
        conn = [[j * 3 + i, j * 3 + i + 1, (j + 1) * 3 + i + 1, (j + 1) * 3 + i] for j in range(2) for i in range(2)]
        return M._mesh([("QUAD4", conn)], coord)
    if kind == "TRI3-3":
        return M._mesh([("TRI3", [[0, 1, 3], [1, 4, 3], [1, 2, 4]])], [[0, 0, 0], [1.5, 0, 0], [2, 0, 0], [0, 1, 0], [1, 1.25, 0]])
    if kind == "HEXA8-2x2x2":
        xs, ys, zs = [0.0, 0.75, 2.0], [0.0, 1.25, 2.0], [0.0, 0.5, 2.0]
        coord = [[x, y, z] for z in zs for y in ys for x in xs]
        nid = lambda i, j, k: k * 9 + j * 3 + i
        conn = [[nid(i, j, k), nid(i + 1, j, k), nid(i + 1, j + 1, k), nid(i, j + 1, k),
                 nid(i, j, k + 1), nid(i + 1, j, k + 1), nid(i + 1, j + 1, k + 1), nid(i, j + 1, k + 1)] for k in range(2) for j in range(2) for i in range(2)]
        return M._mesh([("HEXA8", conn)], coord)
    raise ValueError(kind)


def case_coef_forms(gname, mesh):
    """the SAME non-uniform per-element coefficient handed in every accepted form -- (Ne,) array,
    (Ne, nPg) array, FeArray (Ne, 1) / (Ne, nPg) inside a user form -- must give the same element
    arrays: built-in == built-in == user form == dedicated simulation; also per-Gauss-point
    coefficients as (Ne, nPg) vs an explicit loop"""
    from EasyFEA import Models, Simulations
    from EasyFEA.FEM import Field, BiLinearForm, LinearForm, MatrixType, FeArray
    from EasyFEA.FEM.Operators import Bilinear, Linear
    recs = []
    g = mesh.groupElem
    Ne = g.Ne

    def rec(name, ok, d, kind="coef-forms"):
        recs.append({"id": "coef:%s:%s" % (gname, name), "what": name, "ok": bool(ok), "detail": d, "form": name, "kind": kind, "tag": "generic"})
    k_e = 1.0 + 0.5 * np.arange(Ne) ** 2            # non-uniform, dyadic
    for mt in (MatrixType.rigi, MatrixType.mass):
        D = Data(g, 1, mt)
        nPg = D.nPg
        tagm = "%s,Ne=%d,nPg=%d" % (str(mt).split(".")[-1], Ne, nPg)
        full = np.repeat(k_e[:, None], nPg, axis=1)
        # explicit references from the raw arrays
        refK = np.einsum("ep,epka,epkb->eab", D.w * full, D.dN, D.dN)
        refM = np.einsum("ep,pa,pb->eab", D.w * full, D.N, D.N)
        refF = np.einsum("ep,pa->ea", D.w * full, D.N)
        fld = Field(g, 1, mt)
        kfe1 = FeArray.asfearray(k_e.reshape(Ne, 1))
        kfe2 = FeArray.asfearray(full)
        variants = {"(Ne,)": k_e, "(Ne,nPg)": full, "FeArray(Ne,nPg)": kfe2}
        for vn, kv in variants.items():
            try:
                rec("GradUGradV[%s] %s" % (vn, tagm), *close(Bilinear.GradUGradV(g, kv, mt), refK))
                rec("UV[%s] %s" % (vn, tagm), *close(Bilinear.UV(g, kv, 1, mt), refM))
                rec("V[%s] %s" % (vn, tagm), *close(np.asarray(Linear.V(g, kv, 1, mt)).reshape(Ne, -1), refF))
                A = np.array([[2.0, 0.5, 0.0], [-0.25, 1.0, 0.5], [0.0, 0.25, 3.0]])[:g.dim, :g.dim]
                refA = np.einsum("ep,epka,kl,eplb->eab", D.w * full, D.dN, A, D.dN)
                rec("GradU_A_GradV[%s] %s" % (vn, tagm), *close(Bilinear.GradU_A_GradV(g, A, kv, mt), refA))
            except Exception as ex:
                rec("builtins[%s] %s" % (vn, tagm), False, "%s: %s" % (type(ex).__name__, str(ex)[:200]), kind="raises")
        for vn, kv in (("FeArray(Ne,1)", kfe1), ("FeArray(Ne,nPg)", kfe2)):
            try:
                rec("user k*grad.grad[%s] %s" % (vn, tagm), *close(BiLinearForm(lambda u, v: kv * u.grad.dot(v.grad)).Integrate_e(fld), refK))
                rec("user k*u.v[%s] %s" % (vn, tagm), *close(BiLinearForm(lambda u, v: kv * u.dot(v)).Integrate_e(fld), refM))
                rec("user k*v[%s] %s" % (vn, tagm), *close(np.asarray(LinearForm(lambda v: kv * v).Integrate_e(fld))[..., 0], refF))
            except Exception as ex:
                rec("user[%s] %s" % (vn, tagm), False, "%s: %s" % (type(ex).__name__, str(ex)[:200]), kind="raises")
        # genuinely per-Gauss-point coefficient, different in every element
        kp = 1.0 + 0.25 * np.arange(Ne * nPg).reshape(Ne, nPg)
        try:
            rec("GradUGradV[(Ne,nPg) per point] %s" % tagm, *close(Bilinear.GradUGradV(g, kp, mt), np.einsum("ep,epka,epkb->eab", D.w * kp, D.dN, D.dN)))
            if Ne != nPg:
                k1 = 1.0 + 0.5 * np.arange(nPg)
                rec("UV[(nPg,)] %s" % tagm, *close(Bilinear.UV(g, k1, 1, mt), np.einsum("ep,pa,pb->eab", D.w * k1[None, :], D.N, D.N)))
        except Exception as ex:
            rec("per-point %s" % tagm, False, "%s: %s" % (type(ex).__name__, str(ex)[:200]), kind="raises")
    # dedicated simulation with a heterogeneous conductivity vs the weak form
    try:
        th = Simulations.Thermal(mesh, Models.Thermal(k=k_e, c=1.0, thickness=1.0))
        fld = Field(g, 1)
        kf = FeArray.asfearray(k_e.reshape(Ne, 1))
        ws = Simulations.WeakForms(mesh, Models.WeakForms(fld, BiLinearForm(lambda u, v: kf * u.grad.dot(v.grad))))
        rec("Thermal(k=(Ne,)) K vs weak form", *close(ws.Get_K_C_M_F()[0].toarray(), th.Get_K_C_M_F()[0].toarray()), kind="simulation")
        Dr = Data(g, 1, fld.matrixType)
        refK = np.einsum("ep,epka,epkb->eab", Dr.w * k_e[:, None], Dr.dN, Dr.dN)
        rec("Thermal(k=(Ne,)) K vs explicit", *close(th.Get_K_C_M_F()[0].toarray(), scatter(g, 1, np.einsum("ep,epka,epkb->eab", Data(g, 1, MatrixType.rigi).w * k_e[:, None], Data(g, 1, MatrixType.rigi).dN, Data(g, 1, MatrixType.rigi).dN))), kind="simulation")
    except Exception as ex:
        rec("Thermal heterogeneous", False, "%s: %s" % (type(ex).__name__, str(ex)[:300]), kind="raises")
    return recs


def case_param_sequences(seed):
    """assemble -> change a parameter of the weak-form model -> assemble again: the second
    assembly must equal that of a freshly built weak-form simulation in the final configuration
    and that of the dedicated simulation taken through the same change"""
    from EasyFEA import Models, Simulations, ElemType
    from EasyFEA.FEM import Field, BiLinearForm, LinearForm, Sym_Grad, Trace
    from EasyFEA.Geoms import Domain
    recs = []

    def rec(name, ok, d):
        recs.append({"id": "seq:%s" % name, "what": name, "ok": bool(ok), "detail": d, "form": name, "kind": "sequence", "tag": "generic"})
    mesh = Domain((0, 0), (1, 1), 0.5).Mesh_2D([], ElemType.TRI6, isOrganised=True)
    g = mesh.groupElem
    rho = 2.0

    def build_elastic(t):
        mat = Models.Elastic.Isotropic(2, E=8.0, v=0.25, planeStress=True, thickness=t)
        es = Simulations.Elastic(mesh, mat)
        es.rho = rho
        return es, mat

    def build_weak(t, lam, mu):
        fld = Field(g, 2)

        def Kf(u, v):
            Eps = Sym_Grad(u)
            return (2 * mu * Eps + lam * Trace(Eps) * np.eye(2)).ddot(Sym_Grad(v))
        ey = np.array([0.0, 1.0])
        wf = Models.WeakForms(fld, BiLinearForm(Kf), computeM=BiLinearForm(lambda u, v: rho * u.dot(v)),
                              computeF=LinearForm(lambda v: -2.0 * v.dot(ey)), thickness=t)
        return Simulations.WeakForms(mesh, wf), wf
    for t0, t1 in ((1.0, 0.25), (0.5, 2.0)):
        name = "thickness %g->%g" % (t0, t1)
        try:
            es, mat = build_elastic(t0)
            lam, mu = mat.get_lambda(), mat.get_mu()
            ws, wf = build_weak(t0, lam, mu)
            K0w, _, M0w, F0w = ws.Get_K_C_M_F()
            K0e, _, M0e, _ = es.Get_K_C_M_F()
            rec(name + ": K before", *close(K0w.toarray(), K0e.toarray()))
            wf.thickness = t1
            mat.thickness = t1
            K1w, _, M1w, F1w = ws.Get_K_C_M_F()
            K1e, _, M1e, _ = es.Get_K_C_M_F()
            fresh, _ = build_weak(t1, lam, mu)
            Kf_, _, Mf_, Ff_ = fresh.Get_K_C_M_F()
            rec(name + ": K after == fresh weak-form simulation", *close(K1w.toarray(), Kf_.toarray()))
            rec(name + ": M after == fresh weak-form simulation", *close(M1w.toarray(), Mf_.toarray()))
            rec(name + ": F after == fresh weak-form simulation", *close(np.asarray(F1w.todense()), np.asarray(Ff_.todense())))
            rec(name + ": K after == dedicated simulation", *close(K1w.toarray(), K1e.toarray()))
            rec(name + ": M after == dedicated simulation", *close(M1w.toarray(), M1e.toarray()))
            # and back again
            wf.thickness = t0
            rec(name + ": K after change back", *close(ws.Get_K_C_M_F()[0].toarray(), K0w.toarray()))
        except Exception:
            rec(name, False, traceback.format_exc()[-500:])
    # near-equal changes (1e-6, 1e-9 relative, one ulp) must be observed like large ones
    try:
        es, mat = build_elastic(1.5)
        lam, mu = mat.get_lambda(), mat.get_mu()
        ws, wf = build_weak(1.5, lam, mu)
        ws.Get_K_C_M_F()
        for label, t1 in (("1e-6", 1.5 * (1 + 1e-6)), ("1e-9", 1.5 * (1 + 1e-9)), ("1ulp", float(np.nextafter(1.5, 2.0)))):
            wf.thickness = t1
            K1, _, M1, F1 = ws.Get_K_C_M_F()
            fresh, _ = build_weak(t1, lam, mu)
            Kf_, _, Mf_, Ff_ = fresh.Get_K_C_M_F()
            for lab, A, B in (("K", K1, Kf_), ("M", M1, Mf_)):
                D = (A - B)
                e = float(np.max(np.abs(D.data))) if D.nnz else 0.0
                rec("near-equal thickness %s: %s == fresh weak-form simulation (bitwise)" % (label, lab), e == 0.0, "max |diff| = %.3g (max |ref| %.3g)" % (e, float(np.max(np.abs(B.data)))))
    except Exception:
        rec("near-equal thickness", False, traceback.format_exc()[-500:])
    # scalar model: thickness change + solution
    try:
        from EasyFEA import SolverType
        n0 = mesh.Nodes_Conditions(lambda x, y, z: x == 0)
        fld = Field(g, 1)
        wf = Models.WeakForms(fld, BiLinearForm(lambda u, v: 3.0 * u.grad.dot(v.grad)), computeF=LinearForm(lambda v: 2.0 * v), thickness=1.0)
        ws = Simulations.WeakForms(mesh, wf)
        ws.solver = SolverType.scipy
        ws.add_dirichlet(n0, [0], ["u"])
        ws.add_neumann(mesh.Nodes_Conditions(lambda x, y, z: x == 1), [1.0], ["u"])   # nodal load: not scaled by the thickness
        u0 = ws.Solve().copy()
        wf.thickness = 4.0
        u1 = ws.Solve().copy()
        fld2 = Field(g, 1)
        wf2 = Models.WeakForms(fld2, BiLinearForm(lambda u, v: 3.0 * u.grad.dot(v.grad)), computeF=LinearForm(lambda v: 2.0 * v), thickness=4.0)
        ws2 = Simulations.WeakForms(mesh, wf2)
        ws2.solver = SolverType.scipy
        ws2.add_dirichlet(n0, [0], ["u"])
        ws2.add_neumann(mesh.Nodes_Conditions(lambda x, y, z: x == 1), [1.0], ["u"])
        rec("scalar: solution after thickness 1->4 == fresh simulation", *close(u1, ws2.Solve()))
        rec("scalar: the change matters (discriminating)", not np.allclose(u0, u1, rtol=1e-6), "max |u0-u1| = %.3g" % float(np.max(np.abs(u0 - u1))))
    except Exception:
        rec("scalar thickness sequence", False, traceback.format_exc()[-500:])
    return recs


def big_grid(n):
    """(n x n) QUAD4 grid built without gmsh; (n+1)^2 nodes"""
    from corr import c16_impl as M
    xs = np.arange(n + 1, dtype=float)
    X, Y = np.meshgrid(xs, xs)
    coord = np.stack([X.ravel(), Y.ravel(), np.zeros(X.size)], axis=1)
    i, j = np.meshgrid(np.arange(n), np.arange(n))
    n0 = (j * (n + 1) + i).ravel()
    conn = np.stack([n0, n0 + 1, n0 + n + 2, n0 + n + 1], axis=1)
    return M._mesh([("QUAD4", conn)], coord)


def case_large_system(tier):
    """more than 46341 dofs (row * Ndof no longer fits a 32-bit integer): the matrices assembled by the
    SIMULATION against Form.Assemble and an explicit int64 coo scatter-add of Integrate_e, symmetry,
    constants in the kernel of K"""
    from EasyFEA import Models, Simulations
    from EasyFEA.FEM import Field, BiLinearForm, MatrixType, Sym_Grad, Trace
    from scipy import sparse
    recs = []

    def rec(name, ok, d):
        recs.append({"id": "large:%s" % name, "what": name, "ok": bool(ok), "detail": d, "form": name, "kind": "large-system", "tag": "generic"})

    def coo(g, dof_n, Ke):
        asm = np.asarray(g.Get_assembly_e(dof_n)).astype(np.int64)
        m = asm.shape[1]
        rows = np.repeat(asm, m, axis=1).ravel()
        cols = np.tile(asm, (1, m)).ravel()
        Nd = g.Ncoords * dof_n
        return sparse.coo_matrix((np.asarray(Ke).ravel(), (rows, cols)), shape=(Nd, Nd)).tocsr()

    def relerr(A, B):
        D = (A - B).tocsr()
        return (float(np.max(np.abs(D.data))) if D.nnz else 0.0) / float(np.max(np.abs(B.data)))
    configs = [("scalar-216x216", 216, 1)] + ([("vector-160x160", 160, 2)] if tier == "thorough" else [])
    for name, n, dof_n in configs:
        try:
            mesh = big_grid(n)
            g = mesh.groupElem
            fld = Field(g, dof_n)
            if dof_n == 1:
                fK = BiLinearForm(lambda u, v: 3.0 * u.grad.dot(v.grad))
            else:
                fK = BiLinearForm(lambda u, v: (2 * 2.0 * Sym_Grad(u) + 3.0 * Trace(Sym_Grad(u)) * np.eye(2)).ddot(Sym_Grad(v)))
            fM = BiLinearForm(lambda u, v: 2.0 * u.dot(v))
            ws = Simulations.WeakForms(mesh, Models.WeakForms(fld, fK, computeM=fM, thickness=1.0))
            K, _, M, _ = ws.Get_K_C_M_F()
            Nd = g.Ncoords * dof_n
            rec("%s:Ndof=%d>46341" % (name, Nd), Nd > 46341, "Ndof = %d" % Nd)
            for lab, mat, frm in (("K", K, fK), ("M", M, fM)):
                ref = coo(g, dof_n, frm.Integrate_e(fld))
                e = relerr(mat.tocsr(), ref)
                rec("%s:%s simulation == coo scatter-add of Integrate_e" % (name, lab), e <= 1e-12, "max |diff| / max |ref| = %.3g" % e)
                e2 = relerr(frm.Assemble(fld).tocsr(), ref)
                rec("%s:%s Form.Assemble == coo scatter-add" % (name, lab), e2 <= 1e-12, "max |diff| / max |ref| = %.3g" % e2)
                e3 = relerr(mat.tocsr(), mat.T.tocsr())
                rec("%s:%s symmetric" % (name, lab), e3 <= 1e-12, "max |A - A'| / max |A| = %.3g" % e3)
            for d in range(dof_n):
                t = np.zeros(Nd)
                t[d::dof_n] = 1.0
                r = float(np.max(np.abs(K @ t))) / float(np.max(np.abs(K.data)))
                rec("%s:K.translation[%d]=0" % (name, d), r <= 1e-12, "max |K t| / max |K| = %.3g" % r)
        except Exception:
            rec(name, False, traceback.format_exc()[-500:])
    return recs


def case_scaled_twins(tier):
    """the same comparisons at nano / micro / milli / kilo length scales (through the coordinates) and
    with coefficients x 2^+-40: every quantity is homogeneous under a change of units, all
    tolerances are relative; and the predicted scaling laws K ~ s^(dim-2), M ~ s^dim"""
    from corr import c16_impl as M_
    from EasyFEA.FEM import Field, BiLinearForm, MatrixType
    from EasyFEA.FEM.Operators import Bilinear
    recs = []
    base = {"TRI3-fan": M_.mesh_2d_fan, "TETRA4": M_.mesh_3d_tets}
    scales = [(1e-9, 2.0 ** 40), (1e-6, 2.0 ** -40), (1e-3, 1.0), (1e3, 2.0 ** 40)] if tier == "thorough" else [(1e-6, 2.0 ** -40), (1e-9, 2.0 ** 40), (1e3, 1.0)]
    for gname, mk in base.items():
        ref_mesh = mk()
        g0 = ref_mesh.groupElem
        K0 = np.asarray(Bilinear.GradUGradV(g0, 1.0, MatrixType.rigi))
        M0 = np.asarray(Bilinear.UV(g0, 1.0, 1, MatrixType.mass))
        for sL, sC in scales:
            tag = "%s@L=%g,c=2^%d" % (gname, sL, int(round(np.log2(sC))))
            try:
                mesh = mk()
                mesh.coord = mesh.coord * sL
                g = mesh.groupElem
                COEF_SCALE[0] = sC
                recs_ = case_builtins(tag, mesh)
                for i in range(2):
                    recs_ += case_random_form(tag, mesh, False, 7, i, 2)
                    recs_ += case_random_form(tag, mesh, True, 7, i, 2)
                COEF_SCALE[0] = 1.0
                for r in recs_:
                    r["id"] = "scaled:" + r["id"]
                    r["kind"] = "scaled-" + r["kind"]
                recs += recs_
                dim = g.dim
                f1 = Field(g, 1, MatrixType.rigi)
                fm = Field(g, 1, MatrixType.mass)
                for nm, got, ref in (("GradUGradV ~ s^(dim-2)", Bilinear.GradUGradV(g, 1.0, MatrixType.rigi), K0 * sL ** (dim - 2)),
                                     ("UV ~ s^dim", Bilinear.UV(g, 1.0, 1, MatrixType.mass), M0 * sL ** dim),
                                     ("form grad.grad ~ s^(dim-2)", BiLinearForm(lambda u, v: u.grad.dot(v.grad)).Integrate_e(f1), K0 * sL ** (dim - 2)),
                                     ("form u.v ~ s^dim", BiLinearForm(lambda u, v: u.dot(v)).Integrate_e(fm), M0 * sL ** dim)):
                    ok, d = close(got, ref, tol=1e-9)
                    recs.append({"id": "scaled:%s:%s" % (tag, nm), "what": nm, "ok": ok, "detail": d, "form": nm, "kind": "scaled-homogeneity", "tag": "generic"})
            except Exception:
                COEF_SCALE[0] = 1.0
                recs.append({"id": "scaled:%s" % tag, "what": "harness", "ok": False, "detail": traceback.format_exc()[-600:], "form": "", "kind": "harness", "tag": "generic"})
    return recs


def case_field_state(gname, mesh):
    """state carried by a Field between uses: grad-based forms re-integrated on the SAME Field object
    after each public method was called on it with a solution (Evaluate_e with both returnMeanValues,
    Evaluate_n, Interpolate, copy, __call__, grad) must keep matching the built-in operators"""
    from EasyFEA.FEM import Field, BiLinearForm, LinearForm, MatrixType, Sym_Grad, Trace
    from EasyFEA.FEM.Operators import Bilinear, Linear
    recs = []
    g = mesh.groupElem
    dim = g.dim

    def rec(name, ok, d):
        recs.append({"id": "fieldstate:%s:%s" % (gname, name), "what": name, "ok": bool(ok), "detail": d, "form": name, "kind": "field-state", "tag": "generic"})
    for q in (1, dim):
        mt = MatrixType.rigi
        fld = Field(g, q, mt)
        sol = 0.25 * np.arange(g.Ncoords * q, dtype=float) - 1.0
        if q == 1:
            form = BiLinearForm(lambda u, v: u.grad.dot(v.grad))
            ref = np.asarray(Bilinear.GradUGradV(g, 1.0, mt))
            post = lambda f: f.grad.dot(f.grad)
        else:
            lam, mu = 3.0, 2.0
            form = BiLinearForm(lambda u, v: (2 * mu * Sym_Grad(u) + lam * Trace(Sym_Grad(u)) * np.eye(dim)).ddot(Sym_Grad(v)))
            ns = 3 if dim == 2 else 6
            C = 2 * mu * np.eye(ns)
            C[:dim, :dim] += lam
            ref = np.asarray(Bilinear.LinearizedElasticity(g, C, mt))
            post = lambda f: Sym_Grad(f).ddot(Sym_Grad(f))
        mass = BiLinearForm(lambda u, v: u.dot(v))
        refM = np.asarray(Bilinear.UV(g, 1.0, dof_n=q, matrixType=mt))
        steps = [("fresh", lambda: None),
                 ("Evaluate_e(mean)", lambda: fld.Evaluate_e(post, sol, returnMeanValues=True)),
                 ("Evaluate_e(gauss points)", lambda: fld.Evaluate_e(post, sol, returnMeanValues=False)),
                 ("Evaluate_n", lambda: fld.Evaluate_n(post, sol)),
                 ("Interpolate", lambda: fld.Interpolate(sol)),
                 ("copy", lambda: fld.copy()),
                 ("__call__ and grad", lambda: (fld(), fld.grad)),
                 ("Integrate_e of another form", lambda: mass.Integrate_e(fld))]
        for sname, act in steps:
            try:
                act()
                rec("dof_n=%d: grad form == built-in after %s" % (q, sname), *close(form.Integrate_e(fld), ref))
                rec("dof_n=%d: u.v == UV after %s" % (q, sname), *close(mass.Integrate_e(fld), refM))
                rec("dof_n=%d: Assemble after %s" % (q, sname), *close(form.Assemble(fld).toarray(), scatter(g, q, ref)))
            except Exception as ex:
                rec("dof_n=%d: after %s" % (q, sname), False, "%s: %s" % (type(ex).__name__, str(ex)[:200]))
    return recs


def run(seed, tier, only=None):
    cases = []
    nform = 4 if tier == "quick" else 14
    depth = 2 if tier == "quick" else 3
    for gname, mesh in groups(tier):
        try:
            cases += case_builtins(gname, mesh)
            for vector in (False, True):
                for i in range(nform):
                    cases += case_random_form(gname, mesh, vector, seed, i, depth)
        except Exception:
            cases.append({"id": "group:%s" % gname, "what": "harness", "ok": False, "detail": traceback.format_exc()[-800:], "form": "", "kind": "harness", "tag": "generic"})
    cases += case_simulations(seed)
    cases += case_simulations(seed, sL=1e-6)
    cases += case_simulations_F(seed)
    cases += case_shared_forms(seed, tier)
    cases += case_param_sequences(seed)
    cases += case_large_system(tier)
    from corr import c16_impl as M16
    for gname, mesh in [("TRI3-fan", M16.mesh_2d_fan()), ("TETRA4", M16.mesh_3d_tets())] + ([("QUAD4-skew", [m for gn, m in groups(tier) if gn == "QUAD4-skew"][0])] if tier == "thorough" else []):
        try:
            cases += case_field_state(gname, mesh)
        except Exception:
            cases.append({"id": "fieldstate:%s" % gname, "what": "harness", "ok": False, "detail": traceback.format_exc()[-800:], "form": "", "kind": "harness", "tag": "generic"})
    cases += case_scaled_twins(tier)
    for gname, mesh in [(gn, m) for gn, m in groups(tier) if gn in ("TRI3-fan", "TETRA4", "QUAD4-skew")] + [("TRI3-surf3d", surface_mesh_3d())]:
        try:
            cases += case_field_object_ops(gname, mesh)
        except Exception:
            cases.append({"id": "fieldops:%s" % gname, "what": "harness", "ok": False, "detail": traceback.format_exc()[-800:], "form": "", "kind": "harness", "tag": "generic"})
    for kind in ["QUAD4-2x2", "TRI3-3"] + (["HEXA8-2x2x2"] if tier == "thorough" else []):
        try:
            cases += case_coef_forms(kind, graded_mesh(kind))
        except Exception:
            cases.append({"id": "coef:%s" % kind, "what": "harness", "ok": False, "detail": traceback.format_exc()[-800:], "form": "", "kind": "harness", "tag": "generic"})
    rect = [(gn, m) for gn, m in groups(tier) if gn in ("TETRA4", "HEXA8-skew", "PRISM6")] + [("TRI3-surf3d", surface_mesh_3d())]
    for gname, mesh in rect:
        try:
            cases += case_rect_fields(gname, mesh, seed, 2 if tier == "quick" else 6, depth)
        except Exception:
            cases.append({"id": "rect:%s" % gname, "what": "harness", "ok": False, "detail": traceback.format_exc()[-800:], "form": "", "kind": "harness", "tag": "generic"})
    from corr import c16_impl as M
    from EasyFEA import ElemType
    from EasyFEA.Geoms import Domain
    moved = [("TRI3-fan", M.mesh_2d_fan()), ("QUAD8", Domain((0, 0), (1, 1), 0.5).Mesh_2D([], ElemType.QUAD8, isOrganised=True))]
    if tier == "thorough":
        moved.append(("TETRA4", M.mesh_3d_tets()))
        moved.append(("TRI6", Domain((0, 0), (1, 1), 0.5).Mesh_2D([], ElemType.TRI6, isOrganised=True)))
    for gname, mesh in moved:
        try:
            cases += case_moved_mesh(gname, mesh)
        except Exception:
            cases.append({"id": "moved:%s" % gname, "what": "harness", "ok": False, "detail": traceback.format_exc()[-800:], "form": "", "kind": "harness", "tag": "generic"})
    if only:
        cases = [c for c in cases if c["id"] in only]
    return cases


def replay(seed, tier, cid):
    cases = [c for c in run(seed, tier) if c["id"] == cid]
    for c in cases:
        print(("ok   " if c["ok"] else "FAIL ") + "%s | %s | %s | %s" % (c["id"], c["what"], c["form"][:120], c["detail"]))
    return [c for c in cases if not c["ok"]]


def main():
    req = json.loads(sys.stdin.read() or "{}")
    cases = run(int(req.get("seed", 0)), req.get("tier", "quick"), req.get("only"))
    print("\n@@JSON@@" + json.dumps({"cases": cases}))


if __name__ == "__main__":
    main()
