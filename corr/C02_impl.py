"""C02 implementation side: build real EasyFEA meshes/simulations for generated cases and return
spectral / total-mass metrics of simu.Get_K_C_M_F().

stdin : {"cases": [case, ...]}     stdout: {"results": [result, ...]}

case kinds
  patch : hand-built mesh (GroupElemFactory.Create + Mesh, no gmsh) from exact rational coordinates
  gmsh  : Mesher on a small rectangle/box, coordinates mapped by an affine map, nodes renumbered
  beam  : Mesher.Mesh_Beams on a straight line (Euler-Bernoulli or Timoshenko, beam dim 1..3)
  layout: one element: B_e_pg against the Kelvin-Mandel layout applied to dN_e_pg, and the arrays
          F, invF, dN_e_pg, wJ for the exact comparison done by the caller
Also importable (helpers shared with corr/C01_impl.py).
"""
import json
import sys

import numpy as np


def fr(r):
    return int(r[0]) / int(r[1])


def build_patch_mesh(case):
    from EasyFEA.FEM import Mesh
    from EasyFEA.FEM._group_elem import GroupElemFactory
    from EasyFEA.FEM._utils import ElemType
    dim = case["dim"]
    X = np.zeros((len(case["coords"]), 3))
    X[:, :dim] = np.array([[fr(x) for x in nd] for nd in case["coords"]], dtype=float)
    et = getattr(ElemType, case["elem"])
    g = GroupElemFactory.Create(et, np.array(case["conn"], dtype=int), X)
    return Mesh({et: g})


def rebuild(mesh, A=None, b=None, perm=None):
    """new Mesh with the same groups, coordinates x -> A x + b (first inDim comps), nodes renumbered
    new = perm[old]."""
    from EasyFEA.FEM import Mesh
    from EasyFEA.FEM._group_elem import GroupElemFactory
    X = np.array(mesh.coord, dtype=float)
    Nn = X.shape[0]
    if A is not None:
        A = np.asarray(A, dtype=float)
        d = A.shape[0]
        Y = X.copy()
        Y[:, :d] = X[:, :d] @ A.T + (np.asarray(b, dtype=float) if b is not None else 0.0)
        X = Y
    if perm is None:
        perm = np.arange(Nn)
    perm = np.asarray(perm, dtype=int)
    Xn = np.zeros_like(X)
    Xn[perm] = X
    d = {}
    for et, g in mesh.dict_groupElem.items():
        if g.connect.size == 0:
            continue
        d[et] = GroupElemFactory.Create(et, perm[np.asarray(g.connect, dtype=int)], Xn)
    return Mesh(d)


def gmsh_mesh(case):
    from EasyFEA import Mesher
    from EasyFEA.FEM._utils import ElemType
    from EasyFEA.Geoms import Domain, Point, Line
    et = getattr(ElemType, case["elem"])
    dim = case["dim"]
    L, H, h = case["L"], case.get("H", 1.0), case["size"]
    if dim == 1:
        mesh = Mesher().Mesh_1D([Line(Point(0, 0), Point(L, 0), h)], et)
    elif dim == 2:
        mesh = Mesher().Mesh_2D(Domain(Point(0, 0), Point(L, H), h), [], et, isOrganised=case.get("organised", False))
    else:
        mesh = Mesher().Mesh_Extrude(Domain(Point(0, 0), Point(L, H), h), [], [0, 0, case["D"]], [case["layers"]], et,
                                     isOrganised=case.get("organised", False))
    perm = None
    if case.get("perm_seed") is not None:
        perm = np.random.RandomState(case["perm_seed"]).permutation(mesh.Nn)
    if case.get("A") is not None or perm is not None:
        mesh = rebuild(mesh, case.get("A"), case.get("b"), perm)
    return mesh


def apply_ops(mesh, case):
    """geometric operations and getter / point-location calls performed on the mesh BEFORE the
    simulation is built and assembled (interleavings): case["ops"] is a list of
      ["mirror", [nx,ny,nz]]  Mesh.Symmetry through the mesh centre (elements change orientation)
      ["rotate", theta_deg, [dx,dy,dz]]  Mesh.Rotate about the mesh centre
      ["evaluate"]   Mesh.Evaluate_dofsValues_at_coordinates of the field x at element centroids
      ["signed_jacobian"]  Get_jacobian_e_pg(matrixType, absoluteValues=False) for rigi and mass
      ["measure"]    mesh.area/volume/length and mesh.center
    returns a log (errors of the calls are recorded, they do not abort the case)."""
    from EasyFEA.FEM._utils import MatrixType
    log = []
    for op in case.get("ops") or []:
        try:
            if op[0] == "mirror":
                mesh.Symmetry(mesh.center, tuple(op[1]))
            elif op[0] == "rotate":
                mesh.Rotate(op[1], mesh.center, tuple(op[2]))
            elif op[0] == "scale":
                # change of length unit through the public coordinate setter
                mesh.coord = np.asarray(mesh.coord, dtype=float) * float(op[1])
            elif op[0] == "evaluate":
                X = np.asarray(mesh.coord, dtype=float)
                conn = np.asarray(mesh.groupElem.connect)
                sel = conn[:: max(1, conn.shape[0] // 5)][:5]
                pts = X[sel].mean(axis=1)
                vals = np.asarray(mesh.Evaluate_dofsValues_at_coordinates(pts, X[:, 0].copy())).ravel()
                log.append(["evaluate_maxerr", float(np.abs(vals - pts[:, 0]).max())])
            elif op[0] == "signed_jacobian":
                for g in mesh.Get_list_groupElem():
                    for mt in (MatrixType.rigi, MatrixType.mass):
                        j = np.asarray(g.Get_jacobian_e_pg(mt, absoluteValues=False))
                        log.append(["signed_jacobian_min", float(j.min())])
            elif op[0] == "measure":
                log.append(["measure", measure_of(mesh)])
                mesh.center
            else:
                log.append(["unknown-op", op[0]])
        except Exception as ex:
            log.append(["op-error", op[0], "%s: %s" % (type(ex).__name__, ex)])
    return log


def rel_residual(K, r):
    """unit-free residual of a candidate kernel vector: max_i |(K r)_i| / sum_j |K_ij||r_j| (0 for an exact
    kernel vector up to n*eps, O(1) when r is not in the kernel), whatever the length unit / dof mix"""
    Kd = K.toarray() if hasattr(K, "toarray") else np.asarray(K)
    num = np.abs(Kd @ r)
    den = np.abs(Kd) @ np.abs(r)
    ok = den > 0
    return float((num[ok] / den[ok]).max()) if ok.any() else 0.0


def spectrum(K, tolzero=1e-9):
    Kd = K.toarray() if hasattr(K, "toarray") else np.asarray(K)
    nrm = float(np.abs(Kd).max())
    sym = float(np.abs(Kd - Kd.T).max())
    ev = np.linalg.eigvalsh((Kd + Kd.T) / 2)
    big = float(np.abs(ev).max())
    return {"n": int(Kd.shape[0]), "absmax": nrm, "sym_defect": sym, "eig_max": big, "eig_min": float(ev[0]),
            "n_below": int((ev < tolzero * big).sum()), "first": [float(x) for x in ev[:12]],
            "sum": float(Kd.sum())}, Kd


def used_dofs(mesh, dof_n):
    nodes = np.unique(np.concatenate([np.asarray(g.connect).ravel() for g in mesh.Get_list_groupElem()]))
    return (nodes[:, None] * dof_n + np.arange(dof_n)[None, :]).ravel()


def measure_of(mesh):
    return float({1: lambda: mesh.length, 2: lambda: mesh.area, 3: lambda: mesh.volume}[mesh.dim]())


def run_continuum(case, mesh):
    from EasyFEA import Models, Simulations
    p = case["params"]
    dim = mesh.dim
    from EasyFEA.FEM._utils import MatrixType
    res = {"Nn": int(mesh.Nn), "Ne": int(mesh.Ne), "dim": int(dim), "measure": measure_of(mesh),
           "measure_rigi": float(sum(np.asarray(g.Get_weightedJacobian_e_pg(MatrixType.rigi)).sum() for g in mesh.Get_list_groupElem())),
           "wJ_mass_sum": float(sum(np.asarray(g.Get_weightedJacobian_e_pg(MatrixType.mass)).sum() for g in mesh.Get_list_groupElem()))}
    res["ops_log"] = case.get("_ops_log", [])
    rs = np.random.RandomState(case.get("field_seed", 0))
    X = np.asarray(mesh.coord, dtype=float)[:, :dim]
    if case["phys"] == "elastic":
        if dim == 3:
            mat = Models.Elastic.Isotropic(3, E=p["E"], v=p["v"])
        else:
            mat = Models.Elastic.Isotropic(2, E=p["E"], v=p["v"], planeStress=p["planeStress"], thickness=p["thickness"])
        simu = Simulations.Elastic(mesh, mat)
        simu.rho = p["rho"]
        K, C, M, F = simu.Get_K_C_M_F()
        dof_n = dim
        dofs = used_dofs(mesh, dof_n)
        sK, Kd = spectrum(K[dofs][:, dofs])
        sM, Md = spectrum(M[dofs][:, dofs])
        res["K"], res["M"] = sK, sM
        res["mass_prop"] = float(simu.mass)
        # energy of a random linear displacement u = A x + c
        # homogeneous in the length unit: dimensionless gradient, offset proportional to the size
        Lc = float(np.ptp(X, axis=0).max())
        A = rs.uniform(-1, 1, (dim, dim))
        c = rs.uniform(-1, 1, dim) * Lc
        U = X @ A.T + c
        u = np.zeros(mesh.Nn * dim)
        u[:] = U.ravel()
        eps = (A + A.T) / 2
        cm = 1 / np.sqrt(2)
        if dim == 2:
            e = np.array([eps[0, 0], eps[1, 1], 2 * cm * eps[0, 1]])
        else:
            e = np.array([eps[0, 0], eps[1, 1], eps[2, 2], 2 * cm * eps[1, 2], 2 * cm * eps[0, 2], 2 * cm * eps[0, 1]])
        Cmat = np.asarray(mat.C, dtype=float)
        res["lin_energy"] = float(u @ (K @ u))
        res["lin_density"] = float(e @ Cmat @ e)
        # per-direction translational mass
        res["M_dir"] = []
        for m in range(dim):
            t = np.zeros(mesh.Nn * dim)
            t[m::dim] = 1.0
            res["M_dir"].append(float(t @ (M @ t)))
        # rigid modes in the kernel: residual of translations and infinitesimal rotations
        rig = []
        for m in range(dim):
            t = np.zeros((mesh.Nn, dim)); t[:, m] = 1
            rig.append(t.ravel())
        for (a, b) in [(0, 1), (0, 2), (1, 2)][: (1 if dim == 2 else 3)]:
            t = np.zeros((mesh.Nn, dim)); t[:, a] = -X[:, b]; t[:, b] = X[:, a]
            rig.append(t.ravel())
        res["rigid_residual"] = float(max(rel_residual(K, r) for r in rig))
    else:
        mat = Models.Thermal(k=p["k"], c=p["c"], thickness=p["thickness"])
        simu = Simulations.Thermal(mesh, mat)
        simu.rho = p["rho"]
        K, C, M, F = simu.Get_K_C_M_F()
        dofs = used_dofs(mesh, 1)
        sK, Kd = spectrum(K[dofs][:, dofs])
        sC, Cd = spectrum(C[dofs][:, dofs])
        res["K"], res["M"] = sK, sC
        Lc = float(np.ptp(X, axis=0).max())
        a = rs.uniform(0.5, 1.0, dim) * rs.choice([-1.0, 1.0], dim) / Lc   # temperature varies by O(1) over the part, whatever the unit
        T = X @ a + 0.3
        res["lin_energy"] = float(T @ (K @ T))
        res["lin_density"] = float(p["k"] * (a @ a))
        one = np.ones(mesh.Nn)
        res["M_dir"] = [float(one @ (C @ one))]
        res["rigid_residual"] = rel_residual(K, one)
        res["mass_prop"] = None
    return res


def beam_rigid_modes(coord, bd):
    """rigid-body modes of a beam model with dofs [u] / [u, v, rz] / [u, v, w, rx, ry, rz] per node"""
    Nn = coord.shape[0]
    x, y, z = coord.T
    if bd == 1:
        return np.ones((Nn, 1))
    if bd == 2:
        R = np.zeros((3 * Nn, 3))
        R[0::3, 0] = 1
        R[1::3, 1] = 1
        R[0::3, 2], R[1::3, 2], R[2::3, 2] = -y, x, 1
        return R
    R = np.zeros((6 * Nn, 6))
    for d in range(3):
        R[d::6, d] = 1
    R[1::6, 3], R[2::6, 3], R[3::6, 3] = -z, y, 1
    R[0::6, 4], R[2::6, 4], R[4::6, 4] = z, -x, 1
    R[0::6, 5], R[1::6, 5], R[5::6, 5] = -y, x, 1
    return R


def run_beam(case):
    from EasyFEA import Mesher, Models, Simulations
    from EasyFEA.FEM._utils import ElemType
    from EasyFEA.Geoms import Domain, Point, Line
    bd = case["beamDim"]
    n = case["n"]
    sc = float(case.get("scale") or 1.0)
    b, h = case["b"], case["h"]
    p1 = case.get("p1", [0.0, 0.0, 0.0])
    p2 = case.get("p2", [case.get("L", 1.0), 0.0, 0.0])
    L = float(np.linalg.norm(np.array(p2) - np.array(p1)))
    mesher = Mesher()
    section = mesher.Mesh_2D(Domain(Point(-b / 2, -h / 2), Point(b / 2, h / 2)))
    if sc != 1.0:
        # a scaled twin scales the cross-section with the length unit (meshed at unit scale: gmsh has its
        # own absolute geometric tolerance, then converted with the public coordinate setter)
        section.coord = np.asarray(section.coord, dtype=float) * sc
    line = Line(Point(*p1), Point(*p2), L / n)
    kw = {} if case.get("yAxis") is None else {"yAxis": tuple(case["yAxis"])}
    beam = Models.Beam.Isotropic(bd, line, section, case["E"], case["v"], **kw)
    mesh = mesher.Mesh_Beams([beam], elemType=getattr(ElemType, case["elem"]))
    if case.get("scale") is not None:
        mesh.coord = np.asarray(mesh.coord, dtype=float) * float(case["scale"])
        L = L * float(case["scale"])
    structure = Models.Beam.BeamStructure([beam])
    simu = Simulations.Beam(mesh, structure, useTimoshenko=case["timo"], verbosity=False)
    mesh = simu.mesh
    if case.get("rho_elem") is not None:
        # per-element density field (pattern repeated over the elements, in mesh.connect order)
        pat = case["rho_elem"]
        simu.rho = np.array([pat[i % len(pat)] for i in range(mesh.Ne)], dtype=float)
    else:
        simu.rho = case["rho"]
    K, C, M, F = simu.Get_K_C_M_F()
    dof_n = simu.Get_dof_n()
    dofs = used_dofs(mesh, dof_n)
    # unit-consistent spectra: rotational dofs are multiplied by the beam length (congruence D K D, D M D:
    # same symmetry, definiteness and kernel dimension, but eigenvalues comparable whatever the length unit)
    Dd = np.ones(mesh.Nn * dof_n)
    for m in range({1: 1, 2: 2, 3: 3}[bd], dof_n):
        Dd[m::dof_n] = 1.0 / L
    Kc = (K.toarray() * Dd[:, None]) * Dd[None, :]
    Mc = (M.toarray() * Dd[:, None]) * Dd[None, :]
    sK, Kd = spectrum(Kc[dofs][:, dofs])
    sM, Md = spectrum(Mc[dofs][:, dofs])
    P = np.asarray(beam._Calc_P(), dtype=float)
    res = {"Nn": int(mesh.Nn), "Ne": int(mesh.Ne), "dof_n": int(dof_n), "K": sK, "M": sM, "L": L,
           "mass_prop": float(simu.mass), "area": float(section.area), "M_dir": [],
           "frame_orthonormality_defect": float(np.abs(P.T @ P - np.eye(3)).max())}
    Xc = np.asarray(mesh.coord, dtype=float)
    cn = np.asarray(mesh.connect)
    res["L_e"] = [float(np.linalg.norm(Xc[c[1]] - Xc[c[0]])) for c in cn]     # end nodes are the first two
    res["rho_e"] = [float(x) for x in np.broadcast_to(np.asarray(simu.rho, dtype=float), (mesh.Ne,))] if np.ndim(simu.rho) <= 1 else None
    from EasyFEA.FEM._utils import MatrixType as _MT
    xl = (Xc - Xc[cn[0][0]]) @ P[:, 0]          # abscissa along the fibre
    res["x_ends_e"] = [[float(xl[c[0]]), float(xl[c[1]])] for c in cn]
    tx = np.zeros(mesh.Nn * dof_n); wx = np.zeros(mesh.Nn * dof_n)
    for m in range({1: 1, 2: 2, 3: 3}[bd]):     # translation along the fibre and the same weighted by the abscissa
        tx[m::dof_n] = P[m, 0]; wx[m::dof_n] = P[m, 0] * xl
    res["M_moment"] = float(wx @ (M @ tx))      # = int rho A x dx (N reproduces linear functions)
    res["nPg_beam"] = int(mesh.groupElem.Get_gauss(_MT.beam).nPg)
    ntrans = {1: 1, 2: 2, 3: 3}[bd]
    for m in range(ntrans):
        t = np.zeros(mesh.Nn * dof_n)
        t[m::dof_n] = 1.0
        res["M_dir"].append(float(t @ (M @ t)))
    R = beam_rigid_modes(np.asarray(mesh.coord, dtype=float), bd)
    if bd == 1:
        R = R.reshape(-1, 1)
    KR = K @ R
    res["rigid_residual"] = [rel_residual(K, R[:, k]) for k in range(R.shape[1])]
    return res


def grid_data(case):
    """structured, NON-uniform grid (pure numpy; also used by the caller for the independent totals):
    returns X (Nn,3), connectivity, exact element measures (reference frame; the optional embedding
    is a rigid motion).  elem: SEG2/SEG3 (xs), QUAD4/QUAD8-free, TRI3/TRI6 (quads split in 2), HEXA8."""
    et = case["elem"]
    xs = np.asarray(case["xs"], dtype=float)
    ys = np.asarray(case.get("ys") or [0.0], dtype=float)
    zs = np.asarray(case.get("zs") or [0.0], dtype=float)
    if et in ("SEG2", "SEG3"):
        o = {"SEG2": 1, "SEG3": 2}[et]
        pts, conn = [], []
        for i in range(len(xs) - 1):
            base = len(pts)
            if i == 0:
                pts.append(xs[0])
            a = len(pts) - 1 if i > 0 else 0
            a = conn[-1][1] if i > 0 else 0
            pts.append(xs[i + 1]); b = len(pts) - 1
            if o == 2:
                pts.append((xs[i] + xs[i + 1]) / 2); conn.append([a, b, len(pts) - 1])
            else:
                conn.append([a, b])
        X = np.zeros((len(pts), 3)); X[:, 0] = pts
        meas = np.diff(xs)
    elif et in ("QUAD4", "TRI3", "TRI6"):
        nx, ny = len(xs) - 1, len(ys) - 1
        if et == "TRI6":
            xx = np.sort(np.concatenate([xs, (xs[:-1] + xs[1:]) / 2])); yy = np.sort(np.concatenate([ys, (ys[:-1] + ys[1:]) / 2]))
        else:
            xx, yy = xs, ys
        mx = len(xx)
        idx = lambda i, j: j * mx + i
        X = np.zeros((len(xx) * len(yy), 3))
        for j in range(len(yy)):
            for i in range(mx):
                X[idx(i, j), :2] = xx[i], yy[j]
        conn, meas = [], []
        for j in range(ny):
            for i in range(nx):
                ar = (xs[i + 1] - xs[i]) * (ys[j + 1] - ys[j])
                if et == "QUAD4":
                    conn.append([idx(i, j), idx(i + 1, j), idx(i + 1, j + 1), idx(i, j + 1)]); meas.append(ar)
                elif et == "TRI3":
                    a, b, c, d = idx(i, j), idx(i + 1, j), idx(i + 1, j + 1), idx(i, j + 1)
                    conn += [[a, b, c], [a, c, d]]; meas += [ar / 2, ar / 2]
                else:
                    I, J = 2 * i, 2 * j
                    a, b, c, d = idx(I, J), idx(I + 2, J), idx(I + 2, J + 2), idx(I, J + 2)
                    ab, bc, cd, da, ac = idx(I + 1, J), idx(I + 2, J + 1), idx(I + 1, J + 2), idx(I, J + 1), idx(I + 1, J + 1)
                    conn += [[a, b, c, ab, bc, ac], [a, c, d, ac, cd, da]]; meas += [ar / 2, ar / 2]
        meas = np.array(meas)
    elif et == "HEXA8":
        nx, ny, nz = len(xs) - 1, len(ys) - 1, len(zs) - 1
        idx = lambda i, j, k: (k * (ny + 1) + j) * (nx + 1) + i
        X = np.zeros(((nx + 1) * (ny + 1) * (nz + 1), 3))
        for k in range(nz + 1):
            for j in range(ny + 1):
                for i in range(nx + 1):
                    X[idx(i, j, k)] = xs[i], ys[j], zs[k]
        conn, meas = [], []
        for k in range(nz):
            for j in range(ny):
                for i in range(nx):
                    conn.append([idx(i, j, k), idx(i + 1, j, k), idx(i + 1, j + 1, k), idx(i, j + 1, k),
                                 idx(i, j, k + 1), idx(i + 1, j, k + 1), idx(i + 1, j + 1, k + 1), idx(i, j + 1, k + 1)])
                    meas.append((xs[i + 1] - xs[i]) * (ys[j + 1] - ys[j]) * (zs[k + 1] - zs[k]))
        meas = np.array(meas)
    else:
        raise ValueError("grid: element type %s" % et)
    if case.get("embed") is not None:       # rigid motion into 3-D: x -> R x + t
        R = np.asarray(case["embed"]["R"], dtype=float)
        X = X @ R.T + np.asarray(case["embed"]["t"], dtype=float)
    return X, np.array(conn, dtype=int), np.asarray(meas, dtype=float)


def coef_array(spec, Ne, nPg):
    """spec: {"mode": "scalar"|"elem"|"gauss"|"full", "values": ...} -> what the user would pass"""
    m = spec["mode"]
    v = np.asarray(spec["values"], dtype=float)
    if m == "scalar":
        return float(v)
    if m == "elem":
        assert v.shape == (Ne,)
    elif m == "gauss":
        assert v.shape == (nPg,)
    else:
        assert v.shape == (Ne, nPg)
    return v


def run_grid(case):
    """non-uniform structured mesh (optionally embedded in 3-D) with coefficient FIELDS"""
    from EasyFEA import Models, Simulations
    from EasyFEA.FEM import Mesh
    from EasyFEA.FEM._group_elem import GroupElemFactory
    from EasyFEA.FEM._utils import ElemType, MatrixType
    X, conn, meas = grid_data(case)
    et = getattr(ElemType, case["elem"])
    mesh = Mesh({et: GroupElemFactory.Create(et, conn, X)})
    if case.get("scale") is not None:
        # the mesh is built at unit scale and converted to another length unit with the public setter
        mesh.coord = np.asarray(mesh.coord, dtype=float) * float(case["scale"])
        X = X * float(case["scale"])
    g = mesh.groupElem
    Ne = int(conn.shape[0])
    npg = {"mass": int(g.Get_gauss(MatrixType.mass).nPg), "rigi": int(g.Get_gauss(MatrixType.rigi).nPg)}
    p, co = case["params"], case["coefs"]
    dim = mesh.dim
    res = {"Nn": int(mesh.Nn), "Ne": Ne, "dim": int(dim), "inDim": int(mesh.inDim), "nPg": npg, "measure": measure_of(mesh),
           "connect_same": bool(np.array_equal(np.asarray(g.connect), conn))}
    rs = np.random.RandomState(case.get("field_seed", 0))
    if case["phys"] == "elastic":
        E = coef_array(co["E"], Ne, npg["rigi"])
        mat = Models.Elastic.Isotropic(dim, E=E, v=p["v"], planeStress=p.get("planeStress", True), thickness=p.get("thickness", 1.0)) if dim == 2 \
            else Models.Elastic.Isotropic(3, E=E, v=p["v"])
        simu = Simulations.Elastic(mesh, mat)
        simu.rho = coef_array(co["rho"], Ne, npg["mass"])
        K, C, M, F = simu.Get_K_C_M_F()
        A = rs.uniform(-1, 1, (dim, dim))
        U = (X[:, :dim] @ A.T).ravel()
        eps = (A + A.T) / 2
        cm = 1 / np.sqrt(2)
        e = np.array([eps[0, 0], eps[1, 1], 2 * cm * eps[0, 1]]) if dim == 2 else \
            np.array([eps[0, 0], eps[1, 1], eps[2, 2], 2 * cm * eps[1, 2], 2 * cm * eps[0, 2], 2 * cm * eps[0, 1]])
        Cm = np.asarray(mat.C, dtype=float)
        if Cm.ndim == 2:
            Cm = np.broadcast_to(Cm, (Ne,) + Cm.shape)
        res["density_e"] = [float(e @ Cm[i] @ e) for i in range(Ne)]
        res["lin_energy"] = float(U @ (K @ U))
        res["M_dir"] = []
        for m in range(dim):
            t = np.zeros(mesh.Nn * dim); t[m::dim] = 1.0
            res["M_dir"].append(float(t @ (M @ t)))
        res["mass_prop"] = float(simu.mass)
        sM, _ = spectrum(M); sK, _ = spectrum(K)
    else:
        mat = Models.Thermal(k=coef_array(co["k"], Ne, npg["rigi"]), c=coef_array(co["c"], Ne, npg["mass"]), thickness=p.get("thickness", 1.0))
        simu = Simulations.Thermal(mesh, mat)
        simu.rho = coef_array(co["rho"], Ne, npg["mass"])
        K, C, M, F = simu.Get_K_C_M_F()
        # gradient lying in the (possibly embedded) element plane / line
        a_ref = np.zeros(3); a_ref[:dim] = rs.uniform(0.5, 1.0, dim) * rs.choice([-1.0, 1.0], dim)
        a_ref = a_ref / float(case.get("scale") or 1.0)
        a = (np.asarray(case["embed"]["R"], dtype=float) @ a_ref) if case.get("embed") is not None else a_ref
        T = X @ a + 0.3
        res["density_e"] = [float(a_ref @ a_ref)] * Ne        # |grad T|^2 ; conductivity applied by the caller
        res["lin_energy"] = float(T @ (K @ T))
        one = np.ones(mesh.Nn)
        res["M_dir"] = [float(one @ (C @ one))]
        res["mass_prop"] = None
        sM, _ = spectrum(C); sK, _ = spectrum(K)
    res["K"], res["M"] = sK, sM
    return res


def run_layout(case):
    """one element of the given patch: B against layout(dN_e_pg); arrays for the exact pipeline"""
    from EasyFEA.FEM._utils import MatrixType
    mesh = build_patch_mesh(case)
    g = mesh.groupElem
    mt = MatrixType.rigi
    dN = np.asarray(g.Get_dN_e_pg(mt))
    out = {"F": np.asarray(g.Get_F_e_pg(mt)).tolist(), "invF": np.asarray(g.Get_invF_e_pg(mt)).tolist(),
           "dN": dN.tolist(), "wJ": np.asarray(g.Get_weightedJacobian_e_pg(mt)).tolist(),
           "wJ_mass": np.asarray(g.Get_weightedJacobian_e_pg(MatrixType.mass)).tolist(),
           "N_mass": np.asarray(g.Get_N_pg(MatrixType.mass)).tolist()}
    dim, nPe = g.dim, g.nPe
    if dim >= 2:
        B = np.asarray(g.Get_B_e_pg(mt))
        cM = 1 / np.sqrt(2)
        Bl = np.zeros_like(B)
        for i in range(nPe):
            gx = dN[:, :, 0, i]; gy = dN[:, :, 1, i]
            if dim == 2:
                Bl[:, :, 0, 2 * i] = gx; Bl[:, :, 1, 2 * i + 1] = gy
                Bl[:, :, 2, 2 * i] = gy * cM; Bl[:, :, 2, 2 * i + 1] = gx * cM
            else:
                gz = dN[:, :, 2, i]
                Bl[:, :, 0, 3 * i] = gx; Bl[:, :, 1, 3 * i + 1] = gy; Bl[:, :, 2, 3 * i + 2] = gz
                Bl[:, :, 3, 3 * i + 1] = gz * cM; Bl[:, :, 3, 3 * i + 2] = gy * cM
                Bl[:, :, 4, 3 * i] = gz * cM; Bl[:, :, 4, 3 * i + 2] = gx * cM
                Bl[:, :, 5, 3 * i] = gy * cM; Bl[:, :, 5, 3 * i + 1] = gx * cM
        out["B_layout_maxdiff"] = float(np.abs(B - Bl).max())
        out["B_absmax"] = float(np.abs(B).max())
        out["B_shape"] = list(B.shape)
    return out


def run_case(case):
    try:
        if case["kind"] in ("patch", "gmsh"):
            mesh = build_patch_mesh(case) if case["kind"] == "patch" else gmsh_mesh(case)
            case = dict(case, _ops_log=apply_ops(mesh, case))
            return run_continuum(case, mesh)
        if case["kind"] == "beam":
            return run_beam(case)
        if case["kind"] == "grid":
            return run_grid(case)
        if case["kind"] == "layout":
            return run_layout(case)
        return {"error": "unknown kind"}
    except Exception as ex:  # reported to the caller as a failed case
        import traceback
        return {"error": "%s: %s" % (type(ex).__name__, ex), "trace": traceback.format_exc()[-1500:]}


if __name__ == "__main__":
    req = json.load(sys.stdin)
    import time
    results = []
    for c in req["cases"]:
        t0 = time.time()
        r = run_case(c)
        r["secs"] = round(time.time() - t0, 3)
        results.append(r)
    sys.stdout.write("\n@@JSON@@\n")
    json.dump({"results": results}, sys.stdout)
