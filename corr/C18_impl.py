"""C18 — implementation side of the correspondence (run with EasyFEA importable from VERIF_REPO).

stdin : JSON {"states": [...], "fd": [...], "drift": [...]}
stdout: JSON with, per state case, the right Cauchy-Green tensor at the Gauss points and
        Compute_W / Compute_dWde / Compute_d2Wde of the real law objects; per fd case the
        max relative defect between operator tangents and central differences of the
        operator residuals (SAMPLED check); per drift case the energy history of a short
        free vibration.
Nothing random here: every number comes from the driver (ctx.rng)."""
import json
import os
import sys
import traceback

import numpy as np

from EasyFEA import Models
from EasyFEA.FEM import FeArray, MatrixType
from EasyFEA.FEM import Operators
from EasyFEA.FEM._group_elem import GroupElemFactory
from EasyFEA.FEM._utils import ElemType
from EasyFEA.Models.HyperElastic._state import HyperElasticState

NL = Operators.NonLinear


MODULI = {"NeoHookean": ["K"], "MooneyRivlin": ["K", "K1", "K2"], "CiarletGeymonat": ["K", "K1", "K2"], "AutoDiff": ["K", "K1", "K2"],
          "SaintVenantKirchhoff": ["lmbda", "mu", "K"], "HolzapfelOgden": ["C0", "C2", "C4", "C6", "K", "Mu1", "Mu2"]}


def scales(c):
    """change of units of a case: lengths x sL, moduli (stresses) x sE, time x sT.  Everything the property talks about
    is homogeneous, so the same relative criteria must hold for the scaled twin."""
    sc = c.get("scale") or {}
    return float(sc.get("sL", 1.0)), float(sc.get("sE", 1.0)), float(sc.get("sT", 1.0))


def scaled_params(law, params, sE):
    return {k: (v * sE if k in MODULI.get(law, []) else v) for k, v in params.items()}


def make_group(elemType, A):
    et = getattr(ElemType, elemType)
    gid, nPe, dim = GroupElemFactory.DICT_ELEMTYPE[et][:3]
    cls = GroupElemFactory.GROUP_CLASS_MAP[et]
    tmp = cls(gid, np.arange(nPe, dtype=int).reshape(1, -1), np.zeros((nPe, 3)))
    loc = np.asarray(tmp.Get_Local_Coords(), dtype=float)          # (nPe, dim)
    X = np.zeros((nPe, 3))
    X[:, :dim] = loc @ np.asarray(A, dtype=float)[:dim, :dim].T
    g = GroupElemFactory.Create(et, np.arange(nPe, dtype=int).reshape(1, -1), X)
    return g, X, dim, nPe


def displacement(X, dim, G, pert, amp):
    G = np.asarray(G, dtype=float)[:dim, :dim]
    nPe = X.shape[0]
    u = X[:, :dim] @ G.T + amp * np.asarray(pert[: nPe * dim], dtype=float).reshape(nPe, dim)
    return u.ravel()


def make_law(name, dim, params, T1=None, T2=None):
    H = Models.HyperElastic
    if name == "AutoDiff":
        import jax.numpy as jnp
        from EasyFEA.Models._autodiff import Enable_x64
        Enable_x64()                      # documented prerequisite: jax defaults to float32
        K1, K2, K = params["K1"], params["K2"], params["K"]

        def W(C):
            I1 = jnp.trace(C)
            I2 = 0.5 * (I1 ** 2 - jnp.trace(C @ C))
            I3 = jnp.linalg.det(C)
            return K * (jnp.sqrt(I3) - 1) ** 2 + K1 * (I1 / I3 ** (1 / 3) - 3) + K2 * (I2 / I3 ** (2 / 3) - 3)
        return H.AutoDiff(dim, W)
    cls = getattr(H, name)
    if name == "HolzapfelOgden":
        p = dict(params)
        return cls(dim, p["C0"], p["C1"], p["C2"], p["C3"], p["C4"], p["C5"], p["C6"], p["C7"], p["K"], p["Mu1"], p["Mu2"],
                   np.asarray(T1, dtype=float), np.asarray(T2, dtype=float), ks=p["ks"])
    return cls(dim, **params)


def run_state(c):
    sL, sE, sT = scales(c)
    g, X, dim, nPe = make_group(c["elemType"], (np.asarray(c["A"], dtype=float) * sL).tolist())
    u = displacement(X, dim, c["G"], c["pert"], c["amp"] * sL)
    st = HyperElasticState(g, u, MatrixType.rigi)
    mat = make_law(c["law"], dim, scaled_params(c["law"], c["params"], sE), c.get("T1"), c.get("T2"))
    res = {"id": c["id"], "dim": dim,
           "J": np.asarray(st.Compute_J())[0].tolist(),
           "C": np.asarray(st.Compute_C())[0].tolist(),
           "W": np.asarray(mat.Compute_W(st), dtype=float)[0].tolist(),
           "dW": np.asarray(mat.Compute_dWde(st), dtype=float)[0].tolist(),
           "d2W": np.asarray(mat.Compute_d2Wde(st), dtype=float)[0].tolist()}
    if c["law"] == "HolzapfelOgden":
        res["T1n"] = np.asarray(mat.T1, dtype=float).ravel().tolist()
        res["T2n"] = np.asarray(mat.T2, dtype=float).ravel().tolist()
    return res


# ----------------------------------------------------------------------------------------
def central(f, u, idx, h):
    cols = []
    for i in idx:
        e = np.zeros_like(u)
        e[i] = h
        cols.append((f(u + e) - f(u - e)) / (2 * h))
    return np.array(cols).T          # (n, len(idx))


def rel(a, b):
    s = max(np.abs(b).max(), np.abs(a).max(), 1e-300)
    return float(np.abs(a - b).max() / s)


def run_fd(c):
    sL, sE, sT = scales(c)
    c = dict(c, h=c["h"] * sL, tau=c["tau"] * sE, eta=c["eta"] * sE * sT, thickness=c.get("thickness", 1.0) * (sL if False else 1.0))
    g, X, dim, nPe = make_group(c["elemType"], (np.asarray(c["A"], dtype=float) * sL).tolist())
    u1 = displacement(X, dim, c["G"], c["pert"], c["amp"] * sL)
    u0 = displacement(X, dim, c["G0"], c["pert"][::-1], c["amp"] * sL)
    v = np.asarray(c["vel"][: nPe * dim], dtype=float) * sL / sT
    mat = make_law(c["law"], dim, scaled_params(c["law"], c["params"], sE), c.get("T1"), c.get("T2"))
    mat.thickness = c.get("thickness", 1.0)
    th = mat.thickness if dim == 2 else 1.0
    mt = MatrixType.rigi
    n = nPe * dim
    idx = list(range(n)) if n <= 24 else sorted(set(int(i) % n for i in c["dofs"]))
    h = c["h"]
    wJ = np.asarray(g.Get_weightedJacobian_e_pg(mt))
    out = {"id": c["id"], "ndof": n, "checked_dofs": len(idx)}

    def S(u):
        return HyperElasticState(g, u, mt)

    # stored energy and pointwise operator
    def energy(u):
        return np.array([th * float((wJ * np.asarray(mat.Compute_W(S(u)))).sum())])
    K, R = NL.SecondPiolaKirchhoffStressTensor(mat, S(u1))
    out["pointwise:K=dR/du"] = rel(K[0][:, idx], central(lambda u: NL.SecondPiolaKirchhoffStressTensor(mat, S(u))[1][0], u1, idx, h))
    out["pointwise:R=dPi/du"] = rel(R[0][idx], central(energy, u1, idx, h)[0])
    out["pointwise:K symmetric"] = rel(K[0], K[0].T)

    # discrete gradient (midpoint): 0.5 K_e = dR/du_{n+1}
    def gz(u):
        return NL.GonzalezStressTensor(mat, S(u0), S((u0 + u)/2), S(u), True)
    K, R = gz(u1)
    out["gonzalez:coefK*K=dR/du_np1"] = rel(0.5 * K[0][:, idx], central(lambda u: gz(u)[1][0], u1, idx, h))
    out["gonzalez:R.du=dPi"] = float(abs(R[0] @ (u1 - u0) - (energy(u1)[0] - energy(u0)[0])) / max(abs(energy(u1)[0] - energy(u0)[0]), 1e-300))

    # strain-path quadrature, fixed rule
    for coefK, npts in ((0.5, 3), (1.0, 2), (0.7, 5)):
        def tq(u):
            ut = coefK * u + (1 - coefK) * u0
            return NL.TimeQuadratureStressTensor(mat, S(u0), S(ut), S(u), coefK, npts)
        K, R, _ = tq(u1)
        out["quadrature(coefK=%g,n=%d):coefK*K=dR/du_np1" % (coefK, npts)] = rel(coefK * K[0][:, idx], central(lambda u: tq(u)[1][0], u1, idx, h))

    # active stress
    if dim == 3:
        Tdir = np.tile(np.asarray(c["T1"], dtype=float), (1, wJ.shape[1], 1))
    else:
        Tdir = np.tile(np.asarray(c["T1"][:2] + [0.0], dtype=float), (1, wJ.shape[1], 1))
    mat.Set_active_stress_vec(FeArray.asfearray(Tdir))
    mat.active_stress = c["tau"]
    Kg, Ra = NL.ActiveStressTensor(mat, S(u1))
    out["active:K=dR/du"] = rel(Kg[0][:, idx], central(lambda u: NL.ActiveStressTensor(mat, S(u))[1][0], u1, idx, h))
    mat.active_stress = 0.0

    # Kelvin-Voigt
    mat.eta = c["eta"]
    Kg, Rv, Cv = NL.KelvinVoigtDamping(mat, S(u1), v)
    out["kelvinvoigt:Kgeo=dR/du"] = rel(Kg[0][:, idx], central(lambda u: NL.KelvinVoigtDamping(mat, S(u), v)[1][0], u1, idx, h))
    out["kelvinvoigt:C=dR/dv"] = rel(Cv[0][:, idx], central(lambda w: NL.KelvinVoigtDamping(mat, S(u1), w)[1][0], v, idx, h / sT))
    out["kelvinvoigt:R=C v"] = rel(Rv[0], Cv[0] @ v)
    mat.eta = 0.0
    return out


def run_surface(c):
    """follower pressure and penalty contact on one surface element in 3-D."""
    g, X, dim, nPe = make_group(c["elemType"], c["A"])      # dim == 2 surface group
    X3 = np.array(X)
    X3[:, 2] = np.asarray(c["z"][:nPe], dtype=float)
    et = getattr(ElemType, c["elemType"])
    g = GroupElemFactory.Create(et, np.arange(nPe, dtype=int).reshape(1, -1), X3)
    n = 3 * nPe
    u = np.asarray(c["u"][:n], dtype=float)
    idx = list(range(n)) if n <= 27 else list(range(27))
    h = c["h"]
    out = {"id": c["id"], "ndof": n}
    p = c["pressure"]
    K, R = NL.FollowingPressure(g, u, p)
    out["follower:K=-dR/du"] = rel(K[0][:, idx], -central(lambda w: NL.FollowingPressure(g, w, p)[1][0], u, idx, h))

    # penalty contact against the rigid plane {x : (x - p0).nrm = 0}; gap and normal sampled at the
    # mass Gauss points as the operator requires
    mt = MatrixType.mass
    N_pg = np.asarray(g.Get_N_pg(mt))[:, 0, :]
    nrm = np.asarray(c["normal"], dtype=float)
    nrm = nrm / np.linalg.norm(nrm)
    p0 = np.asarray(c["p0"], dtype=float)

    def contact(w):
        x = X3 + w.reshape(nPe, 3)
        xpg = N_pg @ x                                   # (nPg, 3)
        gap = FeArray.asfearray(((xpg - p0) @ nrm)[None, :])
        nn = FeArray.asfearray(np.tile(nrm, (1, xpg.shape[0], 1)))
        return NL.PenaltyContact(g, c["penalty"], gap, nn, matrixType=mt), gap
    (K, R), gap = contact(u)
    out["contact:active_points"] = int((np.asarray(gap) < 0).sum())
    out["contact:min_abs_gap"] = float(np.abs(np.asarray(gap)).min())
    # residual convention: R_e goes to slot F (force), K_e to slot K, i.e. K = -dR/du
    out["contact:K=-dR/du"] = rel(K[0][:, idx], -central(lambda w: contact(w)[0][1][0], u, idx, h))
    return out


# ----------------------------------------------------------------------------------------
def build_mesh(c):
    """structured mesh built by hand (no gmsh): nx x ny QUAD4 / TRI3 cells or nx x ny x nz HEXA8."""
    from EasyFEA.FEM import Mesh
    dim = c["dim"]
    nx, ny, nz = c["n"]
    L = c["L"]
    if dim == 2:
        xs, ys = np.linspace(0, L[0], nx + 1), np.linspace(0, L[1], ny + 1)
        coords = np.array([[x, y, 0.0] for y in ys for x in xs])
        nid = lambda i, j: j * (nx + 1) + i
        quads = [[nid(i, j), nid(i + 1, j), nid(i + 1, j + 1), nid(i, j + 1)] for j in range(ny) for i in range(nx)]
        if c["elemType"] == "QUAD4":
            conn = np.array(quads)
        else:
            conn = np.array([t for q in quads for t in ([q[0], q[1], q[2]], [q[0], q[2], q[3]])])
    else:
        xs, ys, zs = (np.linspace(0, L[k], m + 1) for k, m in enumerate((nx, ny, nz)))
        coords = np.array([[x, y, z] for z in zs for y in ys for x in xs])
        nid = lambda i, j, k: (k * (ny + 1) + j) * (nx + 1) + i
        conn = np.array([[nid(i, j, k), nid(i + 1, j, k), nid(i + 1, j + 1, k), nid(i, j + 1, k),
                          nid(i, j, k + 1), nid(i + 1, j, k + 1), nid(i + 1, j + 1, k + 1), nid(i, j + 1, k + 1)]
                         for k in range(nz) for j in range(ny) for i in range(nx)])
    et = getattr(ElemType, c["elemType"])
    g = GroupElemFactory.Create(et, conn, coords)
    return Mesh({et: g}), dim, L


def apply_ops(simu, ops):
    """public setter sequence: ["algo", name, dt, alpha] | ["stress", type, nPoints, energyTol, consistent]"""
    from EasyFEA import AlgoType
    for op in ops:
        if op[0] == "algo":
            kw = {}
            if op[1] in ("hht", "hht_newmark"):
                kw["alpha"] = op[3]
            simu.Solver_Set_Hyperbolic_Algorithm(op[2], algo=getattr(AlgoType, op[1]), **kw)
        elif op[0] == "stress":
            simu.Solver_Set_Stress(simu.StressType(op[1]), nPoints=op[2], energyTol=op[3], useConsistentTangent=op[4])
        else:
            raise ValueError(op)


def scale_dyn_case(c):
    """apply the change of units (lengths sL, moduli sE, time sT) to a simulation-level case."""
    sL, sE, sT = scales(c)
    if (sL, sE, sT) == (1.0, 1.0, 1.0):
        return c, (sL, sE, sT)
    c = dict(c)
    dim = c["dim"]
    c["L"] = [x * sL for x in c["L"]]
    c["params"] = scaled_params(c["law"], c["params"], sE)
    c["rho"] = c["rho"] * sE * sT ** 2 / sL ** 2
    for k, f in (("eta", sE * sT), ("tau", sE), ("amp", sL), ("h", sL), ("dt", sT), ("v0", sL / sT), ("absTol", sE * sL ** (dim - 1))):
        if k in c and c[k] is not None:
            c[k] = c[k] * f
    if "ops" in c:
        c["ops"] = [[op[0], op[1], op[2] * sT, op[3]] if op[0] == "algo" else op for op in c["ops"]]
    if c.get("program"):
        c["program"] = [["dt", op[1] * sT] if isinstance(op, list) and op[0] == "dt" else op for op in c["program"]]
    return c, (sL, sE, sT)


def run_simfd(c):
    """assembled Newton matrix of Simulations.HyperElastic vs central differences of the assembled
    residual F_e with respect to the step unknown u_{n+1}, after a sequence of public setters."""
    from EasyFEA import Simulations
    c, (sL, sE, sT) = scale_dyn_case(c)
    mesh, dim, L = build_mesh(c)
    mat = make_law(c["law"], dim, c["params"], c.get("T1"), c.get("T2"))
    mat.eta = c.get("eta", 0.0)
    if c.get("tau"):
        g0 = mesh.groupElem
        nPg = np.asarray(g0.Get_weightedJacobian_e_pg(MatrixType.rigi)).shape[1]
        Tdir = np.tile(np.asarray((c["T1"][:dim] + [0.0, 0.0, 0.0])[:3], dtype=float), (g0.Ne, nPg, 1))
        mat.Set_active_stress_vec(FeArray.asfearray(Tdir))
        mat.active_stress = c["tau"]
    simu = Simulations.HyperElastic(mesh, mat, absTol=1e-9 * sE * sL ** (dim - 1), incTol=1e-13 * sL, maxIter=40, verbosity=False)
    simu.rho = c["rho"]
    try:
        apply_ops(simu, c["ops"])
    except AssertionError as ex:
        return {"id": c["id"], "rejected": "setter: %s" % str(ex)[:120]}
    pt = simu.problemType
    n = mesh.Nn * dim
    r = np.asarray(c["rand"], dtype=float)
    take = lambda k: np.resize(r[k::4], n)
    simu._Set_solutions(pt, take(0) * c["amp"], take(1) * 10 * c["amp"] / sT, take(2) * 10 * c["amp"] / sT ** 2)
    # history before the check: solves with or without Save_Iter, rewinds (free body: the mass term keeps A regular)
    for op in c.get("presteps", []):
        if op == "solve":
            simu.Solve()
        elif op == "save":
            simu.Save_Iter()
        elif op[0] == "set_iter":
            simu.Set_Iter(op[1])
    u_np1 = simu._Get_u_n(pt) + take(3) * c["amp"]
    out = {"id": c["id"], "algo": str(simu.algo), "stress": str(simu.stressType)}
    if c.get("presteps"):
        # a simulation with this history must assemble what a fresh one in the same state assembles
        fresh = Simulations.HyperElastic(mesh, mat, absTol=1e-9 * sE * sL ** (dim - 1), incTol=1e-13 * sL, verbosity=False)
        fresh.rho = c["rho"]
        apply_ops(fresh, c["ops"])
        fresh._Set_solutions(pt, simu._Get_u_n(pt).copy(), simu._Get_v_n(pt).copy(), simu._Get_a_n(pt).copy())
        fresh._Simu__Solver_Set_Newton_Raphson_current_solution(u_np1.copy())
        simu._Simu__Solver_Set_Newton_Raphson_current_solution(u_np1.copy())
        ra, rb = simu.Construct_local_matrix_system(pt), fresh.Construct_local_matrix_system(pt)
        dK = dF = 0.0
        for (ga, a), (gb, b) in zip(ra.items(), rb.items()):
            dK = max(dK, rel(np.asarray(a[0]), np.asarray(b[0])))
            dF = max(dF, rel(np.asarray(a[3]), np.asarray(b[3])))
        out["sim:K same as fresh simulation"] = dK
        out["sim:F same as fresh simulation"] = dF

    def local(u):
        simu._Simu__Solver_Set_Newton_Raphson_current_solution(u.copy())
        res = simu.Construct_local_matrix_system(pt)
        npts = simu._HyperElastic__nPts_e
        return res, (None if npts is None else np.array(npts))
    try:
        res0, npts0 = local(u_np1)
    except AssertionError as ex:
        return {"id": c["id"], "rejected": "assembly: %s" % str(ex)[:120]}
    coefK, coefC, coefM = simu._Solver_Get_K_C_M_coefs_for_time_scheme()
    worst, ncols, skipped = 0.0, 0, 0
    h = c["h"]
    for g, (K_e, C_e, M_e, F_e) in res0.items():
        A_e = coefK * K_e + coefM * M_e + (coefC * C_e if C_e is not None else 0.0)
        asse = g.Get_assembly_e(dim)
        elems = sorted(set(int(e) % g.Ne for e in c["elems"]))
        for e in elems:
            cols = sorted(set(int(j) % asse.shape[1] for j in c["cols"]))
            fd = np.zeros((asse.shape[1], len(cols)))
            ok = True
            for q, j in enumerate(cols):
                up, um = u_np1.copy(), u_np1.copy()
                up[asse[e, j]] += h
                um[asse[e, j]] -= h
                (rp, np_p), (rm, np_m) = local(up), local(um)
                if npts0 is not None and not (np.array_equal(np_p, npts0) and np.array_equal(np_m, npts0)):
                    ok = False       # the adaptive rule switched inside the difference step: not differentiable there
                    break
                fd[:, q] = -(rp[g][3][e] - rm[g][3][e]) / (2 * h)
            if not ok:
                skipped += 1
                continue
            worst = max(worst, rel(A_e[e][:, cols], fd))
            ncols += len(cols)
    out["sim:A=-dF/du_np1"] = worst
    out["columns"] = ncols
    # ---- the ASSEMBLED system: (i) global K, C, M equal the explicit scatter-add of the element matrices,
    #      (ii) A d = -dF/du_{n+1} . d by central differences of the assembled residual, for a random direction d
    def assembled(u):
        simu._Simu__Solver_Set_Newton_Raphson_current_solution(u.copy())
        simu.Need_Update()
        return simu.Get_K_C_M_F(pt)
    Kg, Cg, Mg, Fg = assembled(u_np1)
    res0, _ = local(u_np1)
    ndof = mesh.Nn * dim
    dsc = 0.0
    for which, G in ((0, Kg), (1, Cg), (2, Mg)):
        ref = np.zeros((ndof, ndof))
        have = False
        for g, mats in res0.items():
            if mats[which] is None:
                continue
            have = True
            asse = g.Get_assembly_e(dim)
            for e in range(g.Ne):
                ref[np.ix_(asse[e], asse[e])] += np.asarray(mats[which])[e]
        if have:
            dsc = max(dsc, rel(np.asarray(G.todense()), ref))
    out["sim:assembled K,C,M = scatter-add of element matrices"] = dsc
    d = np.resize(r[1::3], ndof)
    d = d / np.abs(d).max()
    A = coefK * Kg + coefC * Cg + coefM * Mg
    hh = c["h"]
    Fp = np.asarray(assembled(u_np1 + hh * d)[3].todense()).ravel()
    Fm = np.asarray(assembled(u_np1 - hh * d)[3].todense()).ravel()
    out["sim:assembled A.d=-dF/du_np1.d"] = rel(np.asarray(A @ d).ravel(), -(Fp - Fm) / (2 * hh))
    out["skipped_elements"] = skipped
    out["nPts"] = None if npts0 is None else sorted(set(int(x) for x in npts0))
    return out


def run_quad(c):
    """discrete-gradient identity of the strain-path quadrature stress at midpoint:
    R_e . (u_{n+1} - u_n) = integral of W(u_{n+1}) - W(u_n), per number of points."""
    g, X, dim, nPe = make_group(c["elemType"], c["A"])
    u1 = displacement(X, dim, c["G"], c["pert"], c["amp"])
    u0 = displacement(X, dim, c["G0"], c["pert"] if c.get("same_pert") else c["pert"][::-1], c["amp"])
    mat = make_law(c["law"], dim, c["params"], c.get("T1"), c.get("T2"))
    mt = MatrixType.rigi
    wJ = np.asarray(g.Get_weightedJacobian_e_pg(mt))
    S = lambda u: HyperElasticState(g, u, mt)
    dW = float((wJ * (np.asarray(mat.Compute_W(S(u1))) - np.asarray(mat.Compute_W(S(u0))))).sum())
    W1, W0 = np.asarray(mat.Compute_W(S(u1))), np.asarray(mat.Compute_W(S(u0)))
    # robust scale: the energy increment can be close to zero between two states of similar energy
    scale = max(abs(dW), 0.1 * float((wJ * (np.abs(W1) + np.abs(W0))).sum()), 1e-300)
    out = {"id": c["id"], "dW": dW, "scale": scale, "defect": {}, "wsum": {}}
    for npts in c["nPoints"]:
        _, R, _ = NL.TimeQuadratureStressTensor(mat, S(u0), S((u0 + u1) / 2), S(u1), 0.5, npts)
        out["defect"][str(npts)] = abs(float(R[0] @ (u1 - u0)) - dW) / scale
        nodes, weights = getattr(NL, "__clenshaw_curtis")(npts)
        out["wsum"][str(npts)] = float(sum(weights))
    # adaptive path: the operator's own acceptance contract  sum_p V |S:de - dW| <= tol * sum_p V |dW|  per element,
    # unless the cap maxPoints = 33 was reached
    out["adaptive"] = {}
    ref = float((wJ * np.abs(W1 - W0)).sum())
    for tol in c.get("energyTols", []):
        _, R, npts_e = NL.TimeQuadratureStressTensor(mat, S(u0), S((u0 + u1) / 2), S(u1), 0.5, 1, tol)
        out["adaptive"][repr(tol)] = {"abs_defect": abs(float(R[0] @ (u1 - u0)) - dW), "ref": ref, "npts": int(np.max(npts_e))}
    return out


def run_drift(c):
    from EasyFEA import Simulations, AlgoType
    c, (sL, sE, sT) = scale_dyn_case(c)
    mesh, dim, L = build_mesh(c)
    mat = make_law(c["law"], dim, c["params"], c.get("T1"), c.get("T2"))
    simu = Simulations.HyperElastic(mesh, mat, absTol=c["absTol"], relTol=1e-14, incTol=1e-14 * sL, maxIter=40, verbosity=False)
    simu.rho = c["rho"]
    n0 = mesh.Nodes_Conditions(lambda x, y, z: x == 0)
    newton_iters = []
    unk = simu.Get_unknowns()
    simu.add_dirichlet(n0, [0] * dim, unk)
    simu.Solver_Set_Hyperbolic_Algorithm(c["dt"], algo=getattr(AlgoType, c["algo"]))
    if c["stress"] == "gonzalez":
        simu.Solver_Set_Stress(simu.StressType.gonzalez)
    elif c["stress"] == "quadrature":
        simu.Solver_Set_Stress(simu.StressType.quadrature, nPoints=c.get("nPoints", 9), energyTol=c.get("energyTol"))
    pt = simu.problemType
    # initial condition: at rest in the reference placement with a smooth transverse velocity
    v0 = np.zeros(mesh.Nn * dim)
    amp = c["v0"]
    X = mesh.coord
    v0[1::dim] = amp * (X[:, 0] / L[0]) ** 2
    if dim == 3:
        v0[2::dim] = 0.5 * amp * (X[:, 0] / L[0]) ** 2
    simu._Set_solutions(pt, np.zeros(mesh.Nn * dim), v0, np.zeros(mesh.Nn * dim))
    # step program: "solve" | "save" | ["set_iter", k] | ["dt", value]; default = save after every solve
    program = c.get("program") or ["solve", "save"] * c["nStep"]
    snaps = []          # per solve: (v_before, W_before, v_after, W_after)
    M = None
    npts_max = 0
    for op in program:
        if op == "solve":
            vb, Wb = simu._Get_v_n(pt).copy(), float(simu._Calc_W())
            simu.Solve()
            if M is None:
                _, _, M, _ = simu.Get_K_C_M_F(pt)
            snaps.append((vb, Wb, simu._Get_v_n(pt).copy(), float(simu._Calc_W())))
            newton_iters.append(int(simu._Simu__newtonIter))
            if simu._HyperElastic__nPts_e is not None:
                npts_max = max(npts_max, int(np.max(simu._HyperElastic__nPts_e)))
        elif op == "save":
            simu.Save_Iter()
        elif op[0] == "set_iter":
            simu.Set_Iter(op[1])
        elif op[0] == "dt":
            simu.Solver_Set_Hyperbolic_Algorithm(op[1], algo=getattr(AlgoType, c["algo"]))
        else:
            raise ValueError(op)
    ke = lambda v: 0.5 * float(v @ (M @ v))
    steps = [(ke(vb) + Wb, ke(va) + Wa) for vb, Wb, va, Wa in snaps]
    E0 = steps[0][0]
    energies = [E0] + [a for _, a in steps]
    step_defect = max(abs(a - b) for b, a in steps) / abs(E0)
    umax = float(np.abs(simu.displacement).max())
    return {"id": c["id"], "energies": energies, "step_defect": step_defect, "nsolves": len(steps), "newton_iters": newton_iters, "npts_max": npts_max, "umax": umax, "W_end": float(simu._Calc_W())}


def main():
    req = json.load(sys.stdin)
    real_stdout = sys.stdout
    sys.stdout = open(os.devnull, "w")      # the Newton loop prints its convergence history
    out = {"states": [], "fd": [], "surface": [], "drift": [], "simfd": [], "quad": []}
    for kind, fn in (("states", run_state), ("fd", run_fd), ("surface", run_surface), ("drift", run_drift),
                     ("simfd", run_simfd), ("quad", run_quad)):
        for c in req.get(kind, []):
            try:
                out[kind].append(fn(c))
            except Exception as ex:        # reported to the driver, which decides
                out[kind].append({"id": c.get("id"), "error": "%s: %s" % (type(ex).__name__, ex), "trace": traceback.format_exc()[-1500:]})
    json.dump(out, real_stdout)


if __name__ == "__main__":
    main()
