"""C19: predicates evaluated on the harness output (pure python; shared by props/C19.py and replays).

Tolerances (all relative to the yield stress sy, the strain scale, or ||C||; none below 1e-10):
  admissibility   f <= 1e-8 * max(sy, 1)          local solvers stop at 1e-10*sy resp. 1e-10*max(sy,1)
  dGamma >= 0     dp >= -1e-13                    p ~ 1e-3; exact for the spectral path (p + theta*phi)
  traceless       |tr d eps_p| <= 1e-9 + 1e-9*|d eps_p|   strain rows of the Newton solve stop at 1e-10
  dissipation     xi : d eps_p >= -1e-9 * |xi|    same reason
  flow rule       |d eps_p - dp N(xi)| <= 2e-9 + 1e-6*|d eps_p|
  stress/state    |sig - Compute_sigma(eps6, z)| <= 1e-8 * max(sy, 1)
  tangent         |C_alg - C_fd| <= 2e-4 * |C_fd| (1e-3 in plane stress)  Richardson central differences, same branch only
  solvers         |dsig| <= 1e-6*max(|sig|, sy) (1e-5 plane stress), |dz| <= 1e-8, |dC| <= 1e-3*|C|
  batch           batched field vs each point alone: see evaluate_batch
  plane stress    |sig_zz| <= 2*max(1e-8*max(sy,1), 1e-9*Czz) + 1e-8*max(sy,1)   (the code's own stop test)
"""


def sy_of(c):
    return (c.get("yield") or {}).get("sigma_y", 1.0)


def evaluate(c, r):
    """Returns list of (kind, step, detail) for one case `c` and its harness result `r`."""
    V = []
    sy = sy_of(c)
    sc = max(sy, 1.0)
    if r.get("error"):
        if r["error"].startswith("constructor"):
            return [("constructor-rejects", -1, r["error"][:200])]
        return [("harness-error", -1, r["error"][-300:])]
    V += eigen_violations(r.get("eigen_res"), -1)
    rate = bool(c.get("rate"))
    yk = (c.get("yield") or {}).get("kind")
    custom = (c.get("hardening") or {}).get("kind") == "Softening"
    reducible = r.get("reducible", False)
    for s in r["steps"]:
        k = s["k"]
        if "exception" in s:
            continue                      # the step did not converge and said so
        if not s.get("pure", True):
            V.append(("integrate-writes-its-arguments", k, "zOld or eps changed bitwise during Integrate"))
        if not s.get("deterministic", True):
            V.append(("integrate-not-a-function", k, "two calls with identical inputs returned different bits"))
        ok = s.get("ok", False)
        if "dp" in s and reducible and s["dp"] < -1e-13:
            # proved for EVERY iteration count: no convergence filter on the spectral path
            V.append(("dgamma-negative", k, "p_new - p_old = %.3e (spectral return)" % s["dp"]))
        if reducible and s.get("f_trial") is not None and s["f_trial"] < -1e-9 * sc and s.get("finite", True):
            # proved for every iteration count and every hardening law: a point whose trial state is
            # inside the surface is frozen -- no flow, trial stress returned
            if abs(s["dp"]) > 0 or (s.get("elastic_trial_returned") or 0.0) > 1e-8 * sc:
                V.append(("idle-point-flows", k, "f_trial = %.3e < 0 but dp = %.3e, |sig - sig_trial| = %.3e" % (s["f_trial"], s["dp"], s.get("elastic_trial_returned") or 0.0)))
        if not ok:
            continue
        if not s.get("finite", True):
            V.append(("non-finite-output", k, "nan/inf in sigma, C_alg or state of a step reported converged"))
            continue
        if s["sig_vs_state"] > 1e-8 * sc:
            V.append(("stress-state-inconsistent", k, "|sig - C:(eps-eps_p) + branches| = %.3e" % s["sig_vs_state"]))
        if "f" in s and not custom:
            if not rate and s["f"] > 1e-8 * sc:
                V.append(("inadmissible", k, "f = %.6e > 1e-8*max(sy,1) on a step reported converged" % s["f"]))
            if s["dp"] < -1e-13:
                V.append(("dgamma-negative", k, "p_new - p_old = %.3e" % s["dp"]))
            if yk in ("VonMises", "Hill") and abs(s["tr_dep"]) > 1e-9 + 1e-9 * s["dep_norm"]:
                V.append(("plastic-strain-not-traceless", k, "tr d eps_p = %.3e, |d eps_p| = %.3e" % (s["tr_dep"], s["dep_norm"])))
            xin = max(sum(x * x for x in s["sig6"]) ** 0.5, sy)
            if s["diss"] < -1e-9 * xin:
                V.append(("dissipation-negative", k, "(sig - X) : d eps_p = %.3e" % s["diss"]))
            if s["flow_res"] > 2e-9 + 1e-6 * s["dep_norm"] and not (yk == "DruckerPrager" and s["dep_norm"] == 0):
                V.append(("flow-rule", k, "|d eps_p - dGamma N| = %.3e (|d eps_p| = %.3e)" % (s["flow_res"], s["dep_norm"])))
            if s.get("elastic_trial_returned") is not None and s["elastic_trial_returned"] > 1e-8 * sc and not c.get("branches"):
                V.append(("elastic-step-not-trial", k, "f_trial <= 0 but sigma differs from the trial stress by %.3e" % s["elastic_trial_returned"]))
        if "elastic_sig_err" in s:
            n = max(abs(x) for x in s["sig6"]) if s["sig6"] else 1.0
            if s["elastic_sig_err"] > 1e-12 * max(n, 1.0):
                V.append(("elastic-not-C-eps", k, "|sig - C eps| = %.3e" % s["elastic_sig_err"]))
            if s.get("elastic_C_bitwise") is False:
                V.append(("elastic-tangent-not-C", k, "C_alg differs from C"))
        if c["mode"] == "PS":
            lim = 2 * max(1e-8 * sc, 1e-9 * r.get("Czz", 0.0)) + 1e-8 * sc
            if abs(s["szz"]) > lim:
                V.append(("plane-stress-szz", k, "sig_zz = %.3e > %.3e" % (s["szz"], lim)))
        fd = s.get("fd")
        if fd and "err" in fd and fd["same_branch"] and not custom:
            # plane stress: sigma is only as accurate as the sig_zz stop test (1e-9*Czz), which the
            # difference quotient amplifies by 1/h
            if fd["err"] > (1e-3 if c["mode"] == "PS" else 2e-4) * fd["norm"]:
                V.append(("tangent-vs-fd", k, "|C_alg - C_fd| / |C_fd| = %.3e" % (fd["err"] / fd["norm"])))
        so = s.get("solver")
        if so and "dsig" in so and so.get("ok_other") and not custom:
            ts = 1e-5 if c["mode"] == "PS" else 1e-6
            if so["dsig"] > ts * max(so["nsig"], sy) or so["dz"] > 1e-8:
                V.append(("solvers-disagree", k, "|dsig|/|sig| = %.3e, max|dz| = %.3e, |dC|/|C| = %.3e" % (so["dsig"] / max(so["nsig"], sy), so["dz"], so["dC"] / max(so["nC"], 1e-300))))
            elif so["dC"] > 1e-3 * so["nC"] and (s.get("dp", 0) > 1e-9 or "dp" not in s):
                V.append(("solvers-disagree-tangent", k, "|dC|/|C| = %.3e" % (so["dC"] / so["nC"])))
            if not so.get("pure_other", True):
                V.append(("integrate-writes-its-arguments", k, "newton solver"))
    for rec in r.get("batch", []):
        k = rec["k"]
        if reducible and rec.get("f_trial") is not None and rec["f_trial"] < -1e-9 * sc and not c.get("branches"):
            if rec["dp_b"] != 0.0 or rec["dtrial"] > 1e-8 * sc:
                V.append(("idle-point-flows", k, "batched call: f_trial = %.3e < 0 but p = %.3e, |sig - sig_trial| = %.3e" % (rec["f_trial"], rec["dp_b"], rec["dtrial"])))
        if rec["ok_b"] and rec["ok_s"] and not custom:
            if rec["dsig"] > 1e-7 * max(rec["nsig"], sy) or rec["dz"] > 1e-9:
                V.append(("gauss-points-not-independent", k, "batched vs single-point call: |dsig| = %.3e, |dz| = %.3e" % (rec["dsig"], rec["dz"])))
    return V


def sig_key(c):
    """Specific violation-key suffix: which configuration family."""
    cb = c.get("combo") or []
    return "/".join(str(x) for x in cb[:6]) if cb else c.get("id", "?")


def evaluate_sim(c, r):
    V = []
    if r.get("error"):
        # events recorded before the run stopped are still evaluated
        V.append(("sim-error", len(r.get("events", [])), r["error"][-300:]))
    for i, ev in enumerate(r.get("events", [])):
        op = ev["op"][0]
        if op in ("solve", "assemble", "result") and ev.get("unchanged") is False:
            V.append(("committed-state-changed-without-save", i, "%s changed simu.__zOld bitwise" % op))
        if op == "save":
            if ev.get("committed_equals_trial") is False:
                V.append(("save-does-not-commit-trial", i, "after Save_Iter __zOld != the trial state of the last assembly"))
            if ev.get("history_equals_committed") is False:
                V.append(("saved-history-differs", i, "results[-1]['state'] != committed state"))
        if op == "set" and not ev.get("skipped"):
            if ev.get("restored") is False:
                V.append(("set-iter-does-not-restore", i, "Set_Iter(%s) did not restore the saved state" % ev["op"][1]))
            if ev.get("trial_reset") is False:
                V.append(("set-iter-leaves-stale-trial", i, "Set_Iter(%s) left a stale trial state" % ev["op"][1]))
        if op == "remesh" and ev.get("state_reset") is False:
            V.append(("mesh-replacement-keeps-history", i, "after simu.mesh = new mesh the internal variables of the old mesh are still there"))
        if ev.get("history_intact") is False:
            V.append(("saved-history-mutated", i, "a previously saved state changed after %s" % op))
    return V


def evaluate_batch(c, r):
    """Batched field vs its points integrated alone; sig_zz at every point; oddness (no state).
    Tolerances: a batch shares the iteration count of its slowest point, so converged points take
    extra Newton steps -> agreement to the local solver tolerance (1e-7*max(|sig|,sy); plane stress
    1e-5 because of the 1e-9*Czz stop test), 1e-12 relative for a material without internal
    variables (linear: no iteration beyond the first)."""
    V = []
    if r.get("error"):
        return [("harness-error", -1, r["error"][-300:])]
    sy = sy_of(c)
    sc = max(sy, 1.0)
    rate = bool(c.get("rate"))
    nostate = r.get("nz", 1) == 0
    lim_zz = 2 * max(1e-8 * sc, 1e-9 * r.get("Czz", 0.0)) + 1e-8 * sc
    for rec in r["calls"]:
        k = rec["call"]
        if "exception" in rec:
            continue
        if rec.get("pure") is False:
            V.append(("integrate-writes-its-arguments", k, "batched call changed zOld"))
        if "odd_err" in rec and rec["odd_err"] > 1e-12 * max(rec["odd_scale"], 1e-300):
            V.append(("not-odd-without-internal-variables", k, "max|sig(-eps) + sig(eps)| = %.3e (|sig| = %.3e)" % (rec["odd_err"], rec["odd_scale"])))
        scale_call = max([pr.get("nsig", 0.0) for pr in rec["points"]] + [rec.get("odd_scale", 0.0), 1e-300])
        stop_ps = 2 * max(1e-8 * sc, 1e-9 * r.get("Czz", 0.0)) if c["mode"] == "PS" else 0.0
        for pr in rec["points"]:
            tag = "call %d point (%d,%d)" % (k, pr["e"], pr["g"])
            if "single_exception" in pr or not pr["ok_b"]:
                continue
            if c["mode"] == "PS" and abs(pr["szz"]) > lim_zz:
                V.append(("plane-stress-szz", k, "%s: sig_zz = %.3e > %.3e in a batched field" % (tag, pr["szz"], lim_zz)))
            if "elastic_err" in pr and pr["elastic_err"] > 1e-11 * scale_call + stop_ps:
                V.append(("elastic-not-C-eps", k, "%s: |sig - C eps| = %.3e (field |sig| = %.3e)" % (tag, pr["elastic_err"], scale_call)))
            if pr.get("ok_s"):
                if nostate:
                    tol = 1e-12 * scale_call + stop_ps
                else:
                    tol = (1e-5 if c["mode"] == "PS" else 1e-7) * max(pr["nsig"], sy)
                if pr["dsig"] > tol or pr["dz"] > (1e-8 if c["mode"] == "PS" else 1e-9):
                    V.append(("batch-differs-from-pointwise", k, "%s: |dsig| = %.3e (|sig| = %.3e), |dz| = %.3e" % (tag, pr["dsig"], pr["nsig"], pr["dz"])))
                elif pr["dC"] > (1e-3 if not nostate else 1e-10) * max(pr["nC"], 1e-300) and abs(pr.get("dp", 1.0)) > 1e-9:
                    V.append(("batch-differs-from-pointwise", k, "%s: |dC|/|C| = %.3e" % (tag, pr["dC"] / pr["nC"])))
            if "f" in pr and not rate and pr["f"] > 1e-8 * sc:
                V.append(("inadmissible", k, "%s: f = %.3e" % (tag, pr["f"])))
            if "dp" in pr and pr["dp"] < -1e-13:
                V.append(("dgamma-negative", k, "%s: dp = %.3e" % (tag, pr["dp"])))
            if pr["sig_vs_state"] > 1e-8 * sc:
                V.append(("stress-state-inconsistent", k, "%s: %.3e" % (tag, pr["sig_vs_state"])))
    return V


EIG_TOL = 1e-9     # relative; eigh/inv round-off on a 6x6 SPD matrix with cond <= 1e3 is ~1e-13


def eigen_violations(res, where):
    V = []
    if res:
        bad = {k: v for k, v in res.items() if not (v <= EIG_TOL)}
        if bad:
            V.append(("eigen-decomposition-inconsistent", where, "identities of the spectral decomposition handed to _spectral.Solve fail: %s (Ti T = I, Cinv C = I, T'PT = diag(lam), T'Cinv T = I)" % ", ".join("%s=%.2e" % kv for kv in sorted(bad.items()))))
    return V


def evaluate_memo(c, r):
    if r.get("error"):
        return [("harness-error", -1, r["error"][-300:])]
    V = []
    mode = r.get("law_change", "params")
    if mode == "params":
        # same constructor path on both sides: bit-for-bit
        if not r["changed_equals_fresh"]:
            V.append(("stale-after-parameter-change", 0, "Integrate after changing (E, v) differs from a Behavior built with the new values: max|dsig| = %.3e (|sig| = %.3e)" % (r["dsig"], r["scale"])))
        if not r["back_equals_first"]:
            V.append(("stale-after-parameter-change", 1, "changing (E, v) back does not give the first result again"))
    else:
        # the law is changed through %s; the fresh law goes through the constructor's basis change,
        # so equality is required to 1e-10 relative rather than bitwise
        tol = 1e-10 * max(r["scale"], 1e-300)
        if r["dsig"] > tol or r["dz"] > 1e-12 or r["dsig_back"] > tol:
            V.append(("stale-after-law-change", 0, "law changed by %s: Integrate differs from a Behavior built afresh on the new stiffness: max|dsig| = %.3e, max|dz| = %.3e, back-change |dsig| = %.3e (|sig| = %.3e)" % (mode, r["dsig"], r["dz"], r["dsig_back"], r["scale"])))
    V += eigen_violations(r.get("eigen_res_changed"), 0)
    return V


def evaluate_units(cb, rb, cs, rs):
    """Unit invariance: `cs` is `cb` with every stress-like parameter times s = cs["unit_scale"].
    Required per step: sig_s = s*sig, same p, same active set.  Tolerance: 1e-6 relative, widened by
    the solvers' ABSOLUTE stop tests when s*sigma_y < 1 (yield row 1e-10*max(sy,1), plane stress
    1e-8*max(sy,1)): tol = 1e-6 + 1e3 * abs_tol / (s*sy)."""
    V = []
    s = cs["unit_scale"]
    if rb.get("error") or rs.get("error"):
        if rs.get("error") and not rb.get("error"):
            V.append(("units-change-outcome", -1, "scaled by %g: %s" % (s, rs["error"][:200])))
        return V
    sy = sy_of(cb)
    sys_ = sy * s
    abs_tol = (1e-8 if cb["mode"] == "PS" else 1e-10)
    tol = 1e-6 + (1e3 * abs_tol / sys_ if sys_ < 1 else 0.0) + (1e-5 if cb["mode"] == "PS" else 0.0)
    for a, b in zip(rb["steps"], rs["steps"]):
        k = a["k"]
        if "exception" in a or "exception" in b or not a.get("ok") or not b.get("ok"):
            if ("exception" in a or not a.get("ok")) != ("exception" in b or not b.get("ok")):
                # convergence itself must not depend on the units -- reported, but it ends the comparison
                V.append(("units-change-convergence", k, "converged in base units: %s, scaled by %g: %s" % (bool(a.get("ok")), s, bool(b.get("ok")))))
            break
        n6 = max(max(abs(x) for x in a["sig6"]), sy)
        d = max(abs(x * s - y) for x, y in zip(a["sig6"], b["sig6"])) / s
        if d > tol * n6:
            V.append(("not-unit-invariant", k, "stress scaled by %g%s: |sig_s/s - sig| = %.3e (|sig| = %.3e, sigma_y = %.4g -> %.4g)" % (s, (", time scaled by %g" % cs["time_scale"]) if cs.get("time_scale") else "", d, n6, sy, sys_)))
            break
        if "dp" in a:
            pe = max(abs(a["p"]), cb["eps_y"])
            if abs(a["p"] - b["p"]) > 10 * tol * pe:
                V.append(("not-unit-invariant", k, "accumulated plastic strain: %.6e in base units, %.6e with stresses scaled by %g" % (a["p"], b["p"], s)))
                break
            if (a["dp"] > 0) != (b["dp"] > 0) and abs(a["f_trial"]) > 1e-6 * sy:
                V.append(("not-unit-invariant", k, "active set: dp = %.3e in base units, %.3e with stresses scaled by %g" % (a["dp"], b["dp"], s)))
                break
    return V
