"""C12 correspondence, implementation side.  Runs inside the EasyFEA environment of the tree
under check (PYTHONPATH = ctx.repo).  stdin: {"cases": [...]}, stdout: {"results": [...]}.

Every case is one FeArray / Field expression on small integer- or dyadic-valued arrays (float
arithmetic exact); the result is returned as (kind, shape, exact rationals):
  kind 0 plain ndarray / numpy scalar, 1 FeArray, 2 python float, 10+c exception
  (c: 1 ValueError, 2 TypeError, 3 KeyError, 9 anything else), 20 = not an array at all
  (e.g. an object array of FeArrays).
"""
import json
import operator
import sys

import numpy as np

from EasyFEA.FEM._linalg import FeArray, Transpose, Trace, Det, Inv, TensorProd, Norm, Normalize
from EasyFEA.FEM._field import Field

BIN = {0: (operator.add, np.add), 1: (operator.sub, np.subtract), 2: (operator.mul, np.multiply),
       3: (operator.truediv, np.true_divide), 4: (None, np.maximum), 5: (None, np.minimum),
       6: (operator.gt, np.greater), 7: (operator.le, np.less_equal), 8: (operator.eq, np.equal),
       9: (operator.lt, np.less), 10: (operator.ge, np.greater_equal), 11: (operator.ne, np.not_equal)}
IOP = {0: operator.iadd, 1: operator.isub, 2: operator.imul, 3: operator.itruediv}
UN = {0: (operator.neg, np.negative), 1: (abs, np.absolute), 2: (lambda x: x ** 2, np.square)}
RED = {0: "sum", 1: "prod", 2: "max", 3: "min", 4: "mean"}
EXC = {ValueError: 1, TypeError: 2, KeyError: 3}


class StubField(Field):
    """A real Field as far as its operators are concerned (they are inherited unchanged);
    only the evaluation is replaced by a given integer-valued FeArray so results are exact."""

    def __init__(self, fe):  # noqa: super().__init__ needs a mesh; not needed for the operators
        self._fe = fe

    def __call__(self):
        return self._fe


def num(x):
    if isinstance(x, list):
        return x[0] / x[1]
    return float(x)


def build(o):
    k = o["k"]
    if k == "scalar":
        v = num(o["data"][0])
        return v
    a = np.array([num(x) for x in o["data"]], dtype=float).reshape(o["shape"])
    if k == "plain":
        return a
    fe = FeArray.asfearray(a)
    if k == "fe":
        return fe
    if k == "field":
        return StubField(fe)
    raise SystemExit("bad operand kind " + k)


def subs(labs):
    return "".join(chr(ord("i") + l) for l in labs)


def run_case(c):
    op = c["op"]
    A = [build(o) for o in c["args"]]
    how = c.get("how", "operator")
    if op == "ufunc2":
        f = BIN[c["code"]][0 if how == "operator" else 1]
        return f(A[0], A[1])
    if op == "ufunc1":
        f = UN[c["code"]][0 if how == "operator" else 1]
        return f(A[0])
    if op == "matmul":
        return A[0] @ A[1]
    if op == "dot":
        return A[0].dot(A[1])
    if op == "ddot":
        return A[0].ddot(A[1])
    if op == "T":
        return A[0].T
    if op == "Transpose":
        return Transpose(A[0])
    if op == "reduce":
        axis = c["axis"]
        if axis is not None:
            axis = tuple(axis) if (len(axis) != 1 or c.get("tuple")) else axis[0]
        name = RED[c["code"]]
        extra = {"keepdims": True} if c.get("keepdims") else {}
        if how == "method":
            return getattr(A[0], name)(axis=axis, **extra) if c.get("kw", True) else getattr(A[0], name)(axis, **extra)
        f = getattr(np, name)
        return f(A[0], axis=axis, **extra) if c.get("kw", True) else f(A[0], axis, **extra)
    if op == "TensorProd":
        kw = {} if c.get("nd") is None else {"ndim": c["nd"]}
        return TensorProd(A[0], A[1], symmetric=bool(c["sym"]), **kw)
    if op == "Norm":
        ax = c["axis"]
        return Norm(A[0]) if ax is None else Norm(A[0], axis=tuple(ax) if isinstance(ax, list) else ax)
    if op == "Normalize":
        return Normalize(A[0], axis=c["axis"])
    if op == "concat":
        return np.concatenate(A, axis=c["axis"])
    if op == "stack":
        return np.stack(A, axis=c["axis"])
    if op == "swapaxes":
        return np.swapaxes(A[0], c["axes"][0], c["axes"][1])
    if op == "linalg":
        return getattr(np.linalg, c["fn"])(*A)
    if op == "inplace":
        x = A[0]
        y = IOP[c["code"]](x, A[1])
        if y is not x:
            raise RuntimeError("in-place operator returned a new object")
        return y
    if op == "out":
        shape = c["out_shape"]
        out = np.zeros(shape)
        if c["out_kind"] == "fe":
            out = FeArray.asfearray(out)
        r = BIN[c["code"]][1](A[0], A[1], out=out)
        if r is not out:
            raise RuntimeError("out= result is not the out array")
        return r
    if op == "npreduce":
        ax = c["axis"]
        ax = None if ax is None else (tuple(ax) if len(ax) > 1 else ax[0])
        return getattr(np, c["fn"])(A[0], axis=ax)
    if op == "einsum":
        s = ",".join("..." + subs(l) for l in c["labels"]) + "->..." + subs(c["out"])
        return np.einsum(s, *A)
    if op == "where":
        return np.where(A[0] != 0, A[1], A[2])
    if op == "Trace":
        return Trace(A[0])
    if op == "Det":
        return Det(A[0])
    if op == "Inv":
        return Inv(A[0])
    if op == "broadcast":
        return FeArray.broadcast(A[0], c["Ne"], c["nPg"], c["td"])
    raise SystemExit("bad op " + op)


def frac(x):
    n, d = float(x).as_integer_ratio()
    return n if d == 1 else [n, d]


def observe(r):
    if isinstance(r, float) and not isinstance(r, np.floating):
        return {"kind": 2, "shape": [], "data": [frac(r)]}
    if isinstance(r, (np.ndarray, np.generic)):
        a = np.asarray(r)
        if a.dtype == object:
            return {"kind": 20, "shape": list(a.shape), "data": [], "note": "object array of %s" % type(a.ravel()[0]).__name__ if a.size else "object"}
        kind = 1 if isinstance(r, FeArray) else 0
        a = a.astype(float)
        if not np.all(np.isfinite(a)):
            return {"kind": 21, "shape": list(a.shape), "data": [], "note": "non-finite"}
        return {"kind": kind, "shape": list(a.shape), "data": [frac(x) for x in a.ravel()]}
    return {"kind": 20, "shape": [], "data": [], "note": type(r).__name__}


def same_obs(a, b, tol=None):
    if a["kind"] >= 10 and b["kind"] >= 10:
        return True
    if a["kind"] != b["kind"] or list(a["shape"]) != list(b["shape"]) or len(a["data"]) != len(b["data"]):
        return False
    if tol:
        xa = [float(tofrac(x)) for x in a["data"]]
        xb = [float(tofrac(x)) for x in b["data"]]
        # RELATIVE to the magnitude of the expected values (no absolute floor: scaled twins are tiny)
        scale = max([abs(x) for x in xa] + [0.0])
        return all(abs(x - y) <= tol * scale for x, y in zip(xa, xb))
    return [tofrac(x) for x in a["data"]] == [tofrac(x) for x in b["data"]]


# ---------------------------------------------------------------------------------------
# dtype preservation: integer (also beyond 2**53), float32 and complex operands on either side of
# the operators and through the constructor paths; result dtype and values must be numpy's for
# the per-point operation
# ---------------------------------------------------------------------------------------
def build_dt(o):
    dt = np.dtype(o.get("dtype", "float64"))
    if o["k"] == "scalar":
        v = o["data"][0]
        return complex(v[0], v[1]) if dt.kind == "c" else (int(v) if dt.kind == "i" else float(v))
    if dt.kind == "c":
        a = np.array([complex(v[0], v[1]) for v in o["data"]], dtype=dt)
    else:
        a = np.array(o["data"], dtype=dt)
    a = a.reshape(o["shape"])
    return FeArray.asfearray(a) if o["k"] == "fe" else a


def _dt_entry(x):
    if isinstance(x, (complex, np.complexfloating)):
        return {"re": frac(x.real), "im": frac(x.imag)}
    if isinstance(x, (int, np.integer)) and not isinstance(x, (bool, np.bool_)):
        return int(x)
    return frac(x)


def observe_dt(r):
    if isinstance(r, (int, float, complex)) and not isinstance(r, np.generic):
        return {"kind": 2, "shape": [], "dtype": type(r).__name__, "data": [_dt_entry(r)]}
    a = np.asarray(r)
    return {"kind": 1 if isinstance(r, FeArray) else 0, "shape": list(a.shape), "dtype": str(a.dtype),
            "data": [_dt_entry(x) for x in a.ravel().tolist()] if a.dtype.kind != "f" else [frac(x) for x in a.ravel()]}


DT_BIN = {"add": operator.add, "sub": operator.sub, "mul": operator.mul}


def run_dt(c):
    A = [build_dt(o) for o in c["args"]]
    s = c["sub"]
    if s in DT_BIN:
        return DT_BIN[s](A[0], A[1])
    if s == "matmul":
        return A[0] @ A[1]
    if s == "dot":
        return A[0].dot(A[1])
    if s == "T":
        return A[0].T
    if s == "sum":
        return A[0].sum(axis=-1)
    if s == "neg":
        return -A[0]
    if s == "FeArray":
        return FeArray(np.asarray(A[0]))
    if s == "asfearray_bc":
        return FeArray.asfearray(np.asarray(A[0]), broadcastFeArrays=True)
    if s == "Transpose":
        return Transpose(A[0])
    if s == "Trace":
        return Trace(A[0])
    raise SystemExit("bad dtype sub-op " + s)


def oracle_dt(c):
    """per-(e, p) loop with plain numpy arrays of the same dtypes"""
    kinds = [o["k"] for o in c["args"]]
    arrs = [np.asarray(build_dt(o)) if o["k"] != "scalar" else build_dt(o) for o in c["args"]]
    s = c["sub"]
    if s == "FeArray":
        return dict(observe_dt(arrs[0]), kind=1)
    if s == "asfearray_bc":
        return dict(observe_dt(arrs[0][None, None]), kind=1)
    f = {"add": operator.add, "sub": operator.sub, "mul": operator.mul, "matmul": operator.matmul,
         "dot": lambda a, b: np.tensordot(a, b, axes=1), "T": lambda a: np.transpose(a), "Transpose": lambda a: np.swapaxes(a, -1, -2),
         "sum": lambda a: a.sum(axis=-1), "neg": operator.neg, "Trace": lambda a: np.trace(a, axis1=-2, axis2=-1)}[s]
    leads = [a.shape[:2] for a, k in zip(arrs, kinds) if k == "fe"]
    Ne, nPg = np.broadcast_shapes(*leads)

    def at(a, k, e, p):
        return a[e if a.shape[0] > 1 else 0, p if a.shape[1] > 1 else 0] if k == "fe" else a
    rows = [[f(*[at(a, k, e, p) for a, k in zip(arrs, kinds)]) for p in range(nPg)] for e in range(Ne)]
    return dict(observe_dt(np.array(rows)), kind=1)


def check_case(c):
    """-> (observation of the implementation, independent oracle or None, agreement or None)"""
    dt = c["op"] == "dtype"
    try:
        with np.errstate(all="ignore"):
            r = run_dt(c) if dt else run_case(c)
        o = observe_dt(r) if dt else observe(r)
    except SystemExit:
        raise
    except Exception as ex:  # the error branches are part of the model
        code = 9
        for t_, v in EXC.items():
            if isinstance(ex, t_):
                code = v
                break
        o = {"kind": 10 + code, "shape": [], "data": [], "note": "%s: %s" % (type(ex).__name__, str(ex)[:160])}
    try:
        orc = oracle_dt(c) if dt else loop_oracle(c)
    except Exception:
        orc = _err() if dt else None
    ok = None if orc is None else same_any(orc, o, c)
    return o, orc, ok


def same_any(a, b, c):
    if c["op"] == "dtype":
        if a["kind"] >= 10 and b["kind"] >= 10:
            return True
        return all(a.get(k) == b.get(k) for k in ("kind", "shape", "dtype", "data"))
    return same_obs(a, b, c.get("tol"))


def main():
    req = json.load(sys.stdin)
    out = []
    for c in req["cases"]:
        o, orc, ok = check_case(c)
        o["id"] = c["id"]
        if ok is not None:
            o["oracle_ok"] = ok
            if not ok:
                o["oracle"] = orc
        out.append(o)
    # real Field objects (a small mesh): operator(c, field) must be operator(c, field())
    real = []
    if req.get("real_fields"):
        real = real_field_checks(req["real_fields"])
    sweep = field_sweep_checks(req["field_sweeps"]) if req.get("field_sweeps") else None
    missing = None
    if req.get("reference_reducers"):
        # which reference reduction functions does the implementation's dispatch table NOT contain
        # (membership of function OBJECTS: np.max and np.amax may or may not be the same object)
        try:
            from EasyFEA.FEM import _linalg as L
            missing = [n for n in req["reference_reducers"] if getattr(np, n) not in L._REDUCERS]
        except Exception as ex:
            missing = ["<_REDUCERS not readable: %s>" % ex]
    json.dump({"results": out, "real_fields": real, "field_sweeps": sweep, "missing_reducers": missing}, sys.stdout)


def field_sweep_checks(spec):
    """STATE carried between evaluations of one Field object: the (node, dof) sweep that
    BiLinearForm / LinearForm.Integrate_e perform.  The SAME two Field objects u, w are moved
    through every (node, dof) state (forms order, then a scrambled order, revisiting states); after
    every move each operator of the operator table is applied and compared with plain numpy on the
    field's own Gauss-point values, rebuilt here from groupElem.Get_N_pg (never from field())."""
    from EasyFEA.FEM._group_elem import GroupElemFactory
    from EasyFEA.FEM._utils import ElemType, MatrixType
    bad = []
    nchecks = 0
    for item in spec:
        et = getattr(ElemType, item["elem"])
        gid, nPe, dim = GroupElemFactory.DICT_ELEMTYPE[et][:3]
        g = GroupElemFactory.GROUP_CLASS_MAP[et](gid, np.array(item["connect"], dtype=int), np.array(item["coords"], dtype=float))
        dof_n = item["dof_n"]
        try:
            u, w = Field(g, dof_n, MatrixType.mass), Field(g, dof_n, MatrixType.mass)
        except AssertionError:
            continue
        N_pg = np.asarray(g.Get_N_pg(MatrixType.mass))
        nPg = N_pg.shape[0]

        def values(node, dof):
            E = np.zeros((1, nPg, dof_n))
            E[..., dof] = N_pg[:, 0, node].reshape(1, nPg)
            return E
        c = 2.0
        cv = np.array(item["vec"][:dof_n], dtype=float)
        C = np.array(item["mat"], dtype=float)[:dof_n, :dof_n]
        for step, (nu, du, nw, dw) in enumerate(item["states"]):
            u._Set_current_active_node(nu)
            u._Set_current_active_dof(du)
            w._Set_current_active_node(nw)
            w._Set_current_active_dof(dw)
            Eu, Ew = values(nu, du), values(nw, dw)
            table = [("u()", lambda: u(), Eu), ("u*c", lambda: u * c, Eu * c), ("c*u", lambda: c * u, c * Eu),
                     ("u+c", lambda: u + c, Eu + c), ("c+u", lambda: c + u, c + Eu), ("u-c", lambda: u - c, Eu - c),
                     ("c-u", lambda: c - u, c - Eu), ("u/c", lambda: u / c, Eu / c),
                     ("u*cv", lambda: u * cv, Eu * cv), ("cv*u", lambda: cv * u, cv * Eu), ("u-cv", lambda: u - cv, Eu - cv),
                     ("cv-u", lambda: cv - u, cv - Eu), ("u/cv", lambda: u / cv, Eu / cv),
                     ("C@u", lambda: C @ u, np.einsum("ij,epj->epi", C, Eu)), ("u@C", lambda: u @ C, np.einsum("epi,ij->epj", Eu, C)),
                     ("u.dot(w)", lambda: u.dot(w), np.einsum("epi,epi->ep", Eu, Ew)), ("u@w", lambda: u @ w, np.einsum("epi,epi->ep", Eu, Ew)),
                     ("u*w", lambda: u * w, Eu * Ew), ("u-w", lambda: u - w, Eu - Ew)]
            for name, f, want in table:
                nchecks += 1
                try:
                    with np.errstate(all="ignore"):
                        got = f()
                    ok = isinstance(got, FeArray) and np.shape(got) == want.shape and np.array_equal(np.asarray(got), want, equal_nan=True)
                    info = {"type": type(got).__name__, "shape": list(np.shape(got)), "got": [float(x) for x in np.asarray(got, dtype=float).ravel()[:8]]}
                except Exception as ex:
                    ok, info = False, {"error": "%s: %s" % (type(ex).__name__, str(ex)[:100])}
                if not ok:
                    bad.append(dict(info, elem=item["elem"], dof_n=dof_n, step=step, state=[nu, du, nw, dw], op=name,
                                    want=[float(x) for x in want.ravel()[:8]]))
    return {"checks": nchecks, "bad": bad}


def real_field_checks(spec):
    """On genuine Field objects nothing is stubbed; the values N_i(gauss point) are not integers,
    so we do not compare with the model but with the same operator applied to the evaluated
    FeArray `field()` (identical float operations, hence bit-equal when the property holds)."""
    from EasyFEA.FEM._group_elem import GroupElemFactory
    from EasyFEA.FEM._utils import ElemType, MatrixType
    res = []
    for item in spec:
        et = getattr(ElemType, item["elem"])
        gid, nPe, dim = GroupElemFactory.DICT_ELEMTYPE[et][:3]
        coords = np.array(item["coords"], dtype=float)
        conn = np.array(item["connect"], dtype=int)
        g = GroupElemFactory.GROUP_CLASS_MAP[et](gid, conn, coords)
        fld = Field(g, 1, MatrixType.mass)
        fld._Set_current_active_node(item.get("node", 0))
        fe = fld()
        for t in item["tests"]:
            other = build(t["other"])
            f = {"add": operator.add, "sub": operator.sub, "mul": operator.mul, "div": operator.truediv, "matmul": operator.matmul}[t["op"]]
            rec = {"id": t["id"], "elem": item["elem"], "op": t["op"], "side": t["side"], "fe_shape": list(fe.shape), "other": t["other"]}
            try:
                want = f(fe, other) if t["side"] == "field-left" else f(other, fe)
                w = observe(want)
            except Exception as ex:
                w = {"kind": 10, "note": type(ex).__name__}
            try:
                got = f(fld, other) if t["side"] == "field-left" else f(other, fld)
                gobs = observe(got)
            except Exception as ex:
                gobs = {"kind": 10, "note": type(ex).__name__ + ": " + str(ex)[:100]}
            rec["want"] = w
            rec["got"] = gobs
            res.append(rec)
    return res


# ---------------------------------------------------------------------------------------
# independent oracle: the property's own predicate -- explicit loops over (e, p) with plain
# numpy arrays (no FeArray involved).  Used by the replays and to classify disagreements.
# ---------------------------------------------------------------------------------------
def tofrac(x):
    from fractions import Fraction
    return Fraction(x[0], x[1]) if isinstance(x, list) else Fraction(x)


KNAME = {"fe": "FeArray", "field": "Field", "plain": "ndarray", "scalar": "float"}


def describe(c):
    if c["op"] == "dtype":
        return "%s(%s)" % (c["sub"], ", ".join("%s%s[%s]" % (KNAME[o["k"]], tuple(o["shape"]), o.get("dtype", "float64")) for o in c["args"]))
    ops = ["%s%s" % (KNAME[o["k"]], tuple(o["shape"]) if o["k"] != "scalar" else "") for o in c["args"]]
    op = c["op"]
    if op == "ufunc2":
        sym = {0: "+", 1: "-", 2: "*", 3: "/", 6: ">", 7: "<=", 8: "=="}.get(c["code"])
        if c.get("how") == "operator" and sym:
            return "%s %s %s" % (ops[0], sym, ops[1])
        return "np.%s(%s, %s)" % (BIN[c["code"]][1].__name__, ops[0], ops[1])
    if op == "matmul":
        return "%s @ %s" % (ops[0], ops[1])
    if op in ("dot", "ddot"):
        return "%s.%s(%s)" % (ops[0], op, ops[1])
    return "%s(%s)%s" % (op, ", ".join(ops), " " + json.dumps({k: c[k] for k in c if k in ("axis", "axes", "code", "how", "labels", "out", "Ne", "nPg", "td", "sym", "nd", "fn", "keepdims", "out_kind")}))


def _err():
    return {"kind": 10, "shape": [], "data": []}


def _matfun_oracle(c):
    """exact rational Leibniz determinant / adjugate inverse / trace of every trailing matrix"""
    import itertools
    from fractions import Fraction
    o = c["args"][0]
    sh = o["shape"]
    if o["k"] == "scalar" or len(sh) < 2 or sh[-1] != sh[-2] or sh[-1] == 0:
        return None
    if o["k"] == "fe" and len(sh) < 4:
        return None
    n = sh[-1]
    vals = [tofrac(x) for x in o["data"]]
    nb = len(vals) // (n * n)
    out = []
    for b in range(nb):
        m = [[vals[b * n * n + i * n + j] for j in range(n)] for i in range(n)]

        def det(mm):
            k = len(mm)
            tot = Fraction(0)
            for perm in itertools.permutations(range(k)):
                inv = sum(1 for x in range(k) for y in range(x + 1, k) if perm[x] > perm[y])
                term = Fraction(-1 if inv % 2 else 1)
                for i in range(k):
                    term *= mm[i][perm[i]]
                tot += term
            return tot
        if c["op"] == "Trace":
            out.append(sum(m[i][i] for i in range(n)))
        elif c["op"] == "Det":
            out.append(det(m))
        else:
            d = det(m)
            if d == 0:
                return None
            for i in range(n):
                for j in range(n):
                    minor = [[m[r][s] for s in range(n) if s != i] for r in range(n) if r != j]
                    cof = (det(minor) if n > 1 else Fraction(1)) * (-1 if (i + j) % 2 else 1)
                    out.append(cof / d)
    shape = list(sh) if c["op"] == "Inv" else list(sh[:-2])
    data = [x.numerator if x.denominator == 1 else [x.numerator, x.denominator] for x in out]
    return {"kind": 1 if o["k"] == "fe" else 0, "shape": shape, "data": data}


def _arr(o):
    if o["k"] == "scalar":
        return num(o["data"][0])
    return np.array([num(x) for x in o["data"]], dtype=float).reshape(o["shape"])


def _obs(kind, res):
    res = np.asarray(res, dtype=float)
    return {"kind": kind, "shape": list(res.shape), "data": [frac(x) for x in res.ravel()]}


def _per_point(arrs, kinds, f):
    """apply f to the tensors held at each (e, p) -- plain numpy arrays only -- and stack"""
    leads = [a.shape[:2] for a, k in zip(arrs, kinds) if k in ("fe", "field")]
    Ne, nPg = np.broadcast_shapes(*leads)

    def at(a, k, e, p):
        if k in ("fe", "field"):
            return np.asarray(a[e if a.shape[0] > 1 else 0, p if a.shape[1] > 1 else 0])
        return a
    rows = [[np.asarray(f(*[at(a, k, e, p) for a, k in zip(arrs, kinds)]), dtype=float) for p in range(nPg)] for e in range(Ne)]
    return np.array(rows, dtype=float).reshape((Ne, nPg) + rows[0][0].shape)


def _tensorprod_point(sym):
    def f(A, B):
        if A.ndim != B.ndim or A.ndim not in (1, 2):
            raise ValueError("rank")
        O = np.multiply.outer(A, B)
        if A.ndim == 1 or not sym:
            return O
        # O[i,a,j,b] = A_ia B_jb ;  A_ik B_jl = O[i,k,j,l] ;  A_il B_jk = O[i,l,j,k]
        return 0.5 * (O.transpose(0, 2, 1, 3) + O.transpose(0, 2, 3, 1))
    return f


def _extra_oracle(c):
    op = c["op"]
    kinds = [o["k"] for o in c["args"]]
    arrs = [_arr(o) for o in c["args"]]
    if op == "TensorProd":
        if "scalar" in kinds or len(set(kinds)) != 1:
            return _err()
        if kinds[0] == "plain":
            if c.get("nd") not in (None, arrs[0].ndim) or arrs[0].size != arrs[1].size:
                return None if c.get("nd") is not None else _err()
            return _obs(0, _tensorprod_point(c["sym"])(arrs[0], arrs[1]))
        if c.get("nd") not in (None, arrs[0].ndim - 2):
            return None
        return _obs(1, _per_point(arrs, kinds, _tensorprod_point(c["sym"])))
    if op in ("Norm", "Normalize"):
        x = arrs[0]
        ax = c["axis"]
        if ax is None:
            return _obs(0, np.sqrt(np.sum(x * x)))
        if isinstance(ax, list):       # Frobenius norm over two axes
            js = tuple(a if a >= 0 else a + x.ndim for a in ax)
            if kinds[0] == "fe" and all(j >= 2 for j in js):
                return _obs(1, _per_point(arrs, kinds, lambda t: np.sqrt(np.sum(t * t, axis=tuple(j - 2 for j in js)))))
            return _obs(0, np.sqrt(np.sum(x * x, axis=js)))
        j = ax if ax >= 0 else ax + x.ndim

        def nrm(t, a, keep):
            return np.sqrt(np.sum(t * t, axis=a, keepdims=keep))
        if op == "Norm":
            if kinds[0] == "fe" and j >= 2:
                return _obs(1, _per_point(arrs, kinds, lambda t: nrm(t, j - 2, False)))
            return _obs(0, nrm(x, j, False))

        def normalize(t, a):
            n = nrm(t, a, True)
            return t / np.where(n == 0.0, 1.0, n)
        if kinds[0] == "fe" and j >= 2:
            return _obs(1, _per_point(arrs, kinds, lambda t: normalize(t, j - 2)))
        return _obs(1 if kinds[0] == "fe" else 0, normalize(x, j))
    if op == "npreduce":
        # any numpy reduction function called as np.<f>(fe, axis=...): the value is numpy's on the plain
        # array, the type is a FeArray exactly when every reduced axis is a tensor axis
        x = arrs[0]
        ax = c["axis"]
        axn = None if ax is None else (tuple(ax) if len(ax) > 1 else ax[0])
        want = np.asarray(getattr(np, c["fn"])(x, axis=axn))
        keeps = ax is not None and all((a if a >= 0 else a + x.ndim) >= 2 for a in ax) and want.ndim >= 2
        return _obs(1 if (kinds[0] == "fe" and keeps) else 0, want)
    if op == "reduce":
        x = arrs[0]
        f = getattr(np, RED[c["code"]])
        kd = bool(c.get("keepdims"))
        if c["axis"] is None:
            return _obs(0, f(x, axis=None, keepdims=kd))
        axes = tuple(a if a >= 0 else a + x.ndim for a in c["axis"])
        if all(a >= 2 for a in axes):
            return _obs(1, _per_point(arrs, kinds, lambda t: f(t, axis=tuple(a - 2 for a in axes), keepdims=kd)))
        return _obs(0, f(x, axis=axes, keepdims=kd))
    if op in ("concat", "stack"):
        nd = arrs[0].ndim + (1 if op == "stack" else 0)
        j = c["axis"] if c["axis"] >= 0 else c["axis"] + nd
        g = np.concatenate if op == "concat" else np.stack
        if j >= 2:
            return _obs(1, _per_point(arrs, kinds, lambda *ts: g(list(ts), axis=j - 2)))
        return _obs(0, g(arrs, axis=j))          # the (Ne, nPg) axes are not preserved
    if op == "swapaxes":
        x = arrs[0]
        a, b = [v if v >= 0 else v + x.ndim for v in c["axes"]]
        if a >= 2 and b >= 2:
            return _obs(1, _per_point(arrs, kinds, lambda t: np.swapaxes(t, a - 2, b - 2)))
        return _obs(0 if a != b else 1, np.swapaxes(x, a, b))
    if op == "linalg":
        g = getattr(np.linalg, c["fn"])
        return _obs(1, _per_point(arrs, kinds, lambda *ts: g(*ts)))
    if op in ("inplace", "out"):
        base = loop_oracle(dict(c, op="ufunc2"))
        if base is None or base["kind"] >= 10:
            return base
        want = c["args"][0]["shape"] if op == "inplace" else c["out_shape"]
        if list(base["shape"]) != list(want):
            return _err()
        base["kind"] = 1 if (op == "inplace" or c["out_kind"] == "fe") else 0
        return base
    return None


def loop_oracle(c):
    op = c["op"]
    if op in ("Det", "Inv", "Trace"):
        return _matfun_oracle(c)
    if op in ("TensorProd", "Norm", "Normalize", "reduce", "npreduce", "concat", "stack", "swapaxes", "linalg", "inplace", "out"):
        try:
            with np.errstate(all="ignore"):
                return _extra_oracle(c)
        except Exception:
            return _err()
    if op not in ("ufunc2", "matmul", "dot", "ddot"):
        return None
    kinds = [o["k"] for o in c["args"]]
    arrs = []
    for o in c["args"]:
        if o["k"] == "scalar":
            arrs.append(num(o["data"][0]))
        else:
            arrs.append(np.array([num(x) for x in o["data"]], dtype=float).reshape(o["shape"]))
    leads = [a.shape[:2] for a, k in zip(arrs, kinds) if k in ("fe", "field")]
    if not leads:
        return None
    try:
        Ne, nPg = np.broadcast_shapes(*leads)
    except ValueError:
        return _err()

    def at(a, k, e, p):
        if k in ("fe", "field"):
            return np.asarray(a[e if a.shape[0] > 1 else 0, p if a.shape[1] > 1 else 0])
        return a

    def point(x, y):
        if op == "ufunc2":
            return BIN[c["code"]][1](x, y)
        if isinstance(x, float) or isinstance(y, float):
            raise ValueError("scalar operand")
        r1, r2 = np.ndim(x), np.ndim(y)
        lo = 2 if op == "ddot" else 1
        if r1 < lo or r2 < lo or r1 not in (1, 2, 4) or r2 not in (1, 2, 4):
            raise ValueError("rank")
        if op == "matmul" and r1 == 2 and r2 == 2:
            return x @ y
        L = "abcdefgh"
        i1 = L[:r1]
        i2 = i1[r1 - lo:] + L[r1:r1 + r2 - lo]
        return np.einsum("%s,%s->%s" % (i1, i2, i1[:r1 - lo] + i2[lo:]), x, y)

    try:
        with np.errstate(all="ignore"):
            rows = [[np.asarray(point(at(arrs[0], kinds[0], e, p), at(arrs[1], kinds[1], e, p)), dtype=float)
                     for p in range(nPg)] for e in range(Ne)]
        res = np.array(rows, dtype=float)
    except Exception:
        return _err()
    if res.shape[:2] != (Ne, nPg):
        return None
    return {"kind": 1, "shape": list(res.shape), "data": [frac(x) for x in res.ravel()]}


if __name__ == "__main__":
    main()
