"""Run in the implementation's environment: dump every quadrature table the running EasyFEA
produces, as exact integer ratios of the doubles, plus the factory's decisions."""
import json, sys, ast, inspect, re
import numpy as np
from EasyFEA.FEM._gauss import Gauss
from EasyFEA.FEM._utils import ElemType, MatrixType

def ratio(x):
    n, d = float(x).as_integer_ratio()
    return [str(n), str(d)]

def docinfo(fn):
    doc = fn.__doc__ or ""
    av = re.search(r"available\s*\[([0-9,\s]+)\]", doc)
    orders = re.findall(r"order[^=\n]*=\s*\[([0-9,\s]+)\]", doc)
    return ([int(x) for x in av.group(1).split(",")] if av else None,
            [[int(x) for x in o.split(",")] for o in orders])

shapes = {
    "Seg": (ElemType.SEG2, None), "Tri": (ElemType.TRI3, Gauss._Triangle), "Quad": (ElemType.QUAD4, Gauss._Quadrangle),
    "Tet": (ElemType.TETRA4, Gauss._Tetrahedron), "Hex": (ElemType.HEXA8, Gauss._Hexahedron), "Prism": (ElemType.PRISM6, Gauss._Prism)}
out = {"rules": [], "factory": [], "errors": []}
for sh, (et, fn) in shapes.items():
    if fn is None:
        avail, orders = list(range(1, 9)), [[2 * n - 1 for n in range(1, 9)]]
    else:
        avail, orders = docinfo(fn)
        if avail is None or not orders or any(len(o) != len(avail) for o in orders):
            out["errors"].append("docstring of %s: cannot read 'available'/'order' lists" % fn.__name__)
            continue
    for k, n in enumerate(avail):
        try:
            g = Gauss(et, n)
            out["rules"].append({"shape": sh, "npg": n, "doc": [o[k] for o in orders],
                                 "pts": [[ratio(x) for x in p] for p in g.coord], "w": [ratio(w) for w in g.weights]})
        except Exception as ex:
            out["errors"].append("Gauss(%s, %d) raises %s: %s" % (et, n, type(ex).__name__, ex))
topo = {"SEG": "Seg", "TRI": "Tri", "QUAD": "Quad", "TETRA": "Tet", "HEXA": "Hex", "PRISM": "Prism"}
for et in ElemType:
    if et == ElemType.POINT:
        continue
    mts = [MatrixType.rigi, MatrixType.mass] + ([MatrixType.beam, MatrixType.beam_shear] if et in ElemType.Get_1D() else [])
    for mt in mts:
        try:
            g = Gauss(et, mt)
            out["factory"].append({"elem": et.name, "matrix": mt.name, "shape": topo[et.topology], "npg": int(g.nPg),
                                   "pts": [[ratio(x) for x in p] for p in g.coord], "w": [ratio(w) for w in g.weights]})
        except Exception as ex:
            out["errors"].append("Gauss(%s, %s) raises %s: %s" % (et.name, mt.name, type(ex).__name__, ex))
# the rules as element GROUPS obtain them (Get_gauss / Get_weight_pg), for every type in one
# process, in the order given on the command line (a shared cache must not leak between types)
from EasyFEA.FEM._group_elem import GroupElemFactory
order = list(ElemType)
if len(sys.argv) > 1 and sys.argv[1] == "rev":
    order = order[::-1]
out["group_order"] = [e.name for e in order]
out["group"] = []
for et in order:
    if et == ElemType.POINT:
        continue
    gid, nPe, dim = GroupElemFactory.DICT_ELEMTYPE[et][:3]
    cls = GroupElemFactory.GROUP_CLASS_MAP[et]
    g0 = cls(gid, np.arange(nPe).reshape(1, -1), np.zeros((nPe, 3)))
    loc = np.asarray(g0.Get_Local_Coords(), dtype=float)
    coords = np.zeros((nPe, 3)); coords[:, :dim] = loc
    g = cls(gid, np.arange(nPe).reshape(1, -1), coords)
    mts = [MatrixType.rigi, MatrixType.mass] + ([MatrixType.beam, MatrixType.beam_shear] if et in ElemType.Get_1D() else [])
    for mt in mts:
        try:
            gs = g.Get_gauss(mt)
            w = np.asarray(g.Get_weight_pg(mt)).ravel()
            out["group"].append({"elem": et.name, "matrix": mt.name, "npg": int(gs.nPg),
                                 "pts": [[ratio(x) for x in p] for p in gs.coord], "w": [ratio(x) for x in gs.weights],
                                 "w_pg": [ratio(x) for x in w]})
        except Exception as ex:
            out["errors"].append("group %s Get_gauss(%s) raises %s: %s" % (et.name, mt.name, type(ex).__name__, ex))
json.dump(out, sys.stdout)
