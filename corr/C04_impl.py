"""C04 implementation side.

mode "plumb": synthetic INTEGER systems pushed through the real solver plumbing
  (Solvers.Solve_simu -> __Solver_1 / __Solver_2 -> _Solve_Axb) on a real simulation object; the
  linear backend is intercepted: it records the (A, b) it is given and answers a prescribed integer
  vector, so the bookkeeping (known/unknown split, summed duplicate values, Aii/Aic split, bordered
  system, orphan diagonal, Newton increments, scatter of the backend's answer) is compared EXACTLY
  with the Gallina model for ANY backend answer.
mode "phys": real small Elastic / Thermal / Beam / HyperElastic problems with dyadic data; evaluates the
  property predicates on the implementation (constrained values exact, free residual, r1 vs Lagrange,
  backends).

stdin {"mode":..., "cases":[...]} -> stdout {"results":[...]}
"""
import io
import json
import sys
import contextlib
import warnings

import numpy as np


# ---------------------------------------------------------------------------------------------
# plumbing
# ---------------------------------------------------------------------------------------------
def as_int_list(a):
    a = np.asarray(a, dtype=float).ravel()
    out = []
    for v in a:
        if not np.isfinite(v) or v != int(v):
            raise ValueError("non-integer value %r" % v)
        out.append(int(v))
    return out


def build_plumb(case):
    from EasyFEA import Models, Simulations
    from EasyFEA.FEM import Mesh, LagrangeCondition
    from EasyFEA.FEM._group_elem import GroupElemFactory
    from EasyFEA.FEM._utils import ElemType
    from EasyFEA.Simulations._problem_type import ProblemType

    Nn, dof_n = case["Nn"], case["dof_n"]
    coords = np.zeros((Nn, 3))
    coords[:, 0] = np.arange(Nn)
    et = getattr(ElemType, case["type"])
    connect = np.array(case["connect"], dtype=int)
    g = GroupElemFactory.Create(et, connect, coords)
    mesh = Mesh({et: g})
    pt = ProblemType("p0")
    Ne, n = connect.shape[0], connect.shape[1] * dof_n

    class Simu(Simulations.Thermal):
        def Get_problemTypes(self):
            return [pt]

        def Get_dof_n(self, problemType=None):
            return dof_n

        def Get_unknowns(self, problemType=None):
            return ["u%d" % i for i in range(dof_n)]

        def Get_x0(self, problemType=None):
            return np.zeros(self.mesh.Nn * dof_n)

        def Construct_local_matrix_system(self, problemType):
            K = np.array(case["K_e"], dtype=float).reshape(Ne, n, n)
            F = None if case["F_e"] is None else np.array(case["F_e"], dtype=float).reshape(Ne, n, 1)
            return {g: (K, None, None, F)}

    simu = Simu(mesh, Models.Thermal(k=1, c=1, thickness=1))
    for dofs, vals in case["neumann"]:
        simu._Bc_Add_Neumann(pt, np.array([0]), np.array(vals, dtype=float), np.array(dofs, dtype=int), ["u0"])
    for dofs, vals in case["dirichlet"]:
        simu._Bc_Add_Dirichlet(pt, np.array([0]), np.array(vals, dtype=float), np.array(dofs, dtype=int), ["u0"])
    for dofs, coefs, val in case["lagrange"]:
        simu._Bc_Add_Lagrange(LagrangeCondition(pt, np.array([0]), np.array(dofs, dtype=int), ["u0"],
                                                np.array([val], dtype=float), np.array(coefs, dtype=float)))
    if case["nonlinear"]:
        simu._Solver_Set_Newton_Raphson_Algorithm()
        simu._Simu__Solver_Set_Newton_Raphson_current_solution(np.array(case["u"], dtype=float))
    return simu, pt


def canon_r2(A, b, n, nD):
    """order the Dirichlet lines of the bordered system by the dof they constrain (stable)."""
    lines = []
    for k in range(nD):
        row = A[n + k, :n]
        nz = np.nonzero(row)[0]
        lines.append((int(nz[0]) if nz.size else -1, k))
    order = [k for _, k in sorted(lines, key=lambda t: (t[0], t[1]))]
    N = A.shape[0]
    perm = list(range(n)) + [n + k for k in order] + list(range(n + nD, N))
    return A[np.ix_(perm, perm)], b[perm]


def plumb_pass(case):
    """one pass through the real solver plumbing with the backend intercepted: (A given, b given, x returned, extra)"""
    from EasyFEA.Simulations import Solvers
    simu, pt = build_plumb(case)
    cap = {}
    real = Solvers._Solve_Axb

    def fake(simu_, problemType, A, b, x0, lb, ub, resol=None, ownedDofs=None, mapping=None):
        cap["A"] = np.asarray(A.todense(), dtype=float)
        cap["b"] = np.asarray(b.todense(), dtype=float).ravel()
        N = cap["A"].shape[0]
        ans = case["answer"]
        return np.array([ans[i % len(ans)] for i in range(N)], dtype=float)
    Solvers._Solve_Axb = fake
    try:
        with contextlib.redirect_stdout(io.StringIO()):
            x, extra = Solvers.Solve_simu(simu, pt)
    finally:
        Solvers._Solve_Axb = real
    return cap["A"], cap["b"], np.asarray(x, dtype=float), extra


def scaled_case(case, s):
    """the same problem in other units: every prescribed value, load, current Newton state and backend answer
    multiplied by s (a power of two: exact in floating point); the matrix is unchanged"""
    c = json.loads(json.dumps(case))
    c["F_e"] = None if c["F_e"] is None else [v * s for v in c["F_e"]]
    c["neumann"] = [[d, [v * s for v in vals]] for d, vals in c["neumann"]]
    c["dirichlet"] = [[d, [v * s for v in vals]] for d, vals in c["dirichlet"]]
    c["lagrange"] = [[d, cs, v * s] for d, cs, v in c["lagrange"]]
    c["u"] = [v * s for v in c["u"]]
    c["answer"] = [v * s for v in c["answer"]]
    return c


def scale_twins(case):
    """homogeneity: the reduced / bordered system handed to the backend and the returned vector must be EXACTLY s times
    the unscaled ones (s = 2^k), however small or large the prescribed values are"""
    fails = []
    A0, b0, x0, _ = plumb_pass(case)
    for k in case.get("scales", []):
        s = 2.0 ** k
        A1, b1, x1, _ = plumb_pass(scaled_case(case, s))
        if A1.shape != A0.shape or not np.array_equal(A1, A0):
            fails.append({"k": k, "what": "matrix given to the backend changes with the scale of the data"})
        elif not np.array_equal(b1, s * b0):
            i = int(np.nonzero(b1 != s * b0)[0][0])
            fails.append({"k": k, "what": "right-hand side given to the backend is not s * (unscaled one)", "index": i,
                          "observed/s": float(b1[i] / s), "expected": float(b0[i])})
        elif not np.array_equal(x1, s * x0):
            i = int(np.nonzero(x1 != s * x0)[0][0])
            fails.append({"k": k, "what": "returned vector is not s * (unscaled one)", "index": i, "observed/s": float(x1[i] / s), "expected": float(x0[i])})
    return fails


def run_plumb(case):
    from EasyFEA.Simulations import Solvers
    simu, pt = build_plumb(case)
    n = case["Nn"] * case["dof_n"]
    cap = {}
    real = Solvers._Solve_Axb

    def fake(simu_, problemType, A, b, x0, lb, ub, resol=None, ownedDofs=None, mapping=None):
        cap["A"] = np.asarray(A.todense(), dtype=float)
        cap["b"] = np.asarray(b.todense(), dtype=float).ravel()
        N = cap["A"].shape[0]
        ans = case["answer"]
        return np.array([ans[i % len(ans)] for i in range(N)], dtype=float)

    res = {"id": case["id"], "error": None}
    K, _, _, F = simu.Get_K_C_M_F(pt)
    res["Ndof"] = int(K.shape[0])
    res["K"] = [as_int_list(r) for r in np.asarray(K.todense())[:n, :n]]
    res["F"] = as_int_list(np.asarray(F.todense()).ravel()[:n])
    kn, un = simu.Bc_dofs_known_unknown(pt)
    res["known"], res["unknown"] = [int(v) for v in kn], [int(v) for v in un]
    Solvers._Solve_Axb = fake
    try:
        with contextlib.redirect_stdout(io.StringIO()):
            x, extra = Solvers.Solve_simu(simu, pt)
    finally:
        Solvers._Solve_Axb = real
    res["A_cap_shape"] = list(cap["A"].shape)
    if case["lagrange"]:
        nD = cap["A"].shape[0] - n - len(case["lagrange"])
        A2, b2 = canon_r2(cap["A"], cap["b"], n, nD)
        res["A_cap"] = [as_int_list(r) for r in A2]
        res["b_cap"] = as_int_list(b2)
        res["x"] = as_int_list(x)
        res["lagrange_part"] = as_int_list(extra)
    else:
        res["A_cap"] = [as_int_list(r) for r in cap["A"]]
        res["b_cap"] = as_int_list(cap["b"])
        res["x"] = as_int_list(x)
    # ---- property predicates on the implementation (no model involved) ----
    sums = {}
    for dofs, vals in case["dirichlet"]:
        for d, v in zip(dofs, vals):
            sums[d] = sums.get(d, 0) + v
    pred = {}
    if not case["lagrange"]:
        u = case["u"] if case["nonlinear"] else [0] * n
        bad = [(d, float(x[d] + u[d]), s) for d, s in sorted(sums.items()) if float(x[d] + u[d]) != float(s)]
        pred["constrained_values"] = bad[:3]
    else:
        # solve the captured bordered system for real and look at the constrained dofs
        with warnings.catch_warnings():
            warnings.simplefilter("ignore")
            with contextlib.redirect_stdout(io.StringIO()):
                simu2, pt2 = build_plumb(case)
                try:
                    xs, _ = Solvers.Solve_simu(simu2, pt2)
                    xs = np.asarray(xs, dtype=float)
                    bad = [(d, float(xs[d]), s) for d, s in sorted(sums.items()) if not (np.isfinite(xs[d]) and abs(xs[d] - s) <= 1e-9 * max(1.0, abs(s)))]
                    for dofs, coefs, val in case["lagrange"]:
                        lhs = float(sum(c * xs[d] for d, c in zip(dofs, coefs)))
                        if not (np.isfinite(lhs) and abs(lhs - val) <= 1e-9 * max(1.0, abs(val), max(abs(xs[d]) for d in dofs))):
                            bad.append(("mpc", lhs, val))
                    pred["constrained_values"] = bad[:3]
                except Exception as ex:
                    pred["constrained_values"] = [("raised", type(ex).__name__, str(ex)[:100])]
    res["pred"] = pred
    res["scale_fail"] = scale_twins(case) if case.get("scales") else []
    return res


# ---------------------------------------------------------------------------------------------
# physics
# ---------------------------------------------------------------------------------------------
def grid_mesh(nx, ny, elem, orphans=0):
    from EasyFEA.FEM import Mesh
    from EasyFEA.FEM._group_elem import GroupElemFactory
    from EasyFEA.FEM._utils import ElemType
    xs, ys = np.meshgrid(np.arange(nx + 1, dtype=float), np.arange(ny + 1, dtype=float), indexing="xy")
    coords = np.c_[xs.ravel(), ys.ravel(), np.zeros(xs.size)]
    if orphans:
        coords = np.r_[coords, np.array([[20.0 + i, 20.0, 0.0] for i in range(orphans)])]
    conn = []
    for j in range(ny):
        for i in range(nx):
            a = j * (nx + 1) + i
            if elem == "QUAD4":
                conn.append([a, a + 1, a + nx + 2, a + nx + 1])
            else:
                conn.append([a, a + 1, a + nx + 2])
                conn.append([a, a + nx + 2, a + nx + 1])
    et = getattr(ElemType, elem)
    g = GroupElemFactory.Create(et, np.array(conn), coords)
    return Mesh({et: g}, verbosity=False), coords


def make_value(spec):
    k = spec["kind"]
    if k == "const":
        return spec["v"]
    if k == "array":
        return np.array(spec["v"], dtype=float)
    a, b, c = spec["abc"]
    return lambda x, y, z: a * x + b * y + c


def eval_value(spec, xyz):
    k = spec["kind"]
    if k == "const":
        return [spec["v"]] * len(xyz)
    if k == "array":
        return list(spec["v"])
    a, b, c = spec["abc"]
    return [a * p[0] + b * p[1] + c for p in xyz]


def new_simu(case, solver=None):
    from EasyFEA import Models, Simulations
    kind = case["kind"]
    mesh, coords = grid_mesh(case["nx"], case["ny"], case["elem"], case.get("orphans", 0))
    if kind == "elastic":
        mat = Models.Elastic.Isotropic(2, E=1.0 * case.get("modulus", 1.0), v=0.25, planeStress=True, thickness=1.0)
        simu = Simulations.Elastic(mesh, mat, verbosity=False)
    elif kind == "thermal":
        simu = Simulations.Thermal(mesh, Models.Thermal(k=1.0 * case.get("modulus", 1.0), c=1.0, thickness=1.0), verbosity=False)
    else:
        raise NotImplementedError(kind)
    if solver:
        simu.solver = solver
    return simu, simu.problemType, coords


def apply_bcs(simu, pt, coords, dirichlet, neumann, lag_as=None):
    from EasyFEA.FEM import LagrangeCondition
    for i, bc in enumerate(dirichlet):
        nodes = np.array(bc["nodes"], dtype=int)
        if lag_as is not None and i == lag_as:
            unk = simu.Get_unknowns(pt)
            for u_, spec in zip(bc["unknowns"], bc["values"]):
                vals = eval_value(spec, coords[nodes])
                for nd, v in zip(nodes, vals):
                    d = int(nd) * len(unk) + unk.index(u_)
                    simu._Bc_Add_Lagrange(LagrangeCondition(pt, np.array([nd]), np.array([d]), [u_], np.array([float(v)]), np.array([1.0])))
        else:
            simu.add_dirichlet(nodes, [make_value(s) for s in bc["values"]], bc["unknowns"])
    for bc in neumann:
        simu.add_neumann(np.array(bc["nodes"], dtype=int), [make_value(s) for s in bc["values"]], bc["unknowns"])


def build_phys(case, solver=None, lag_as=None):
    """lag_as: index of a Dirichlet condition that is imposed through single-dof Lagrange conditions."""
    simu, pt, coords = new_simu(case, solver)
    apply_bcs(simu, pt, coords, case["dirichlet"], case["neumann"], lag_as)
    return simu, pt, coords


def expected_sums(case, coords, simu, pt):
    unk = simu.Get_unknowns(pt)
    sums = {}
    for bc in case["dirichlet"]:
        nodes = np.array(bc["nodes"], dtype=int)
        for u_, spec in zip(bc["unknowns"], bc["values"]):
            vals = eval_value(spec, coords[nodes])
            for nd, v in zip(nodes, vals):
                d = int(nd) * len(unk) + unk.index(u_)
                sums[d] = sums.get(d, 0.0) + float(v)
    return sums


def run_phys(case):
    from EasyFEA.Simulations import Solvers
    res = {"id": case["id"], "error": None, "checks": []}

    def add(name, ok, detail):
        res["checks"].append({"name": name, "ok": bool(ok), "detail": detail})
    with warnings.catch_warnings():
        warnings.simplefilter("ignore")
        with contextlib.redirect_stdout(io.StringIO()):
            simu, pt, coords = build_phys(case)
            u = np.asarray(simu.Solve(), dtype=float).copy()
            sums = expected_sums(case, coords, simu, pt)
            bad = [(d, float(u[d]), s) for d, s in sorted(sums.items()) if u[d] != s]
            add("r1:constrained-values-exact", not bad, {"first": bad[:3], "n": len(sums)})
            K, _, _, _ = simu.Get_K_C_M_F(pt)
            b = np.asarray(simu._Solver_Apply_Neumann(pt).todense()).ravel()
            kn, un = simu.Bc_dofs_known_unknown(pt)
            orph = simu.Bc_dofs_nodes(simu.mesh.orphanNodes, simu.Get_unknowns(pt), pt) if len(simu.mesh.orphanNodes) else np.array([], dtype=int)
            un_reg = np.setdiff1d(un, orph)
            r = K @ u - b
            scale = float(np.abs(K).dot(np.abs(u)).max() + np.abs(b).max() + 1e-300)
            rmax = float(np.abs(r[un_reg]).max()) if un_reg.size else 0.0
            add("r1:free-residual<=1e-10", rmax <= 1e-10 * scale, {"res": rmax, "scale": scale})
            if orph.size:
                free_orph = np.intersect1d(orph, un)
                add("r1:orphan-dofs-regular", bool(np.all(np.isfinite(u)) and np.all(u[free_orph] == b[free_orph])),
                    {"u_orphan": u[free_orph].tolist()[:4]})
            res["n"], res["n_known"], res["cond"] = int(u.size), int(len(kn)), None
            Aii = np.asarray(K.todense())[np.ix_(un_reg, un_reg)]
            cond = float(np.linalg.cond(Aii)) if un_reg.size else 1.0
            res["cond"] = cond
            # ---- Lagrange path: one Dirichlet condition re-expressed as single-dof Lagrange conditions
            if case.get("lag_as") is not None and not any_duplicate(case, coords, simu, pt, case["lag_as"]):
                s2, pt2, _ = build_phys(case, lag_as=case["lag_as"])
                u2 = np.asarray(s2.Solve(), dtype=float)
                umax = float(np.abs(u).max())      # tolerances are relative to the magnitude of the solution: no absolute floor
                tol = 1e-10 * max(1.0, cond) * umax
                dmax = float(np.abs(u2 - u).max()) if np.all(np.isfinite(u2)) else float("inf")
                add("r2-vs-r1:agree", dmax <= tol, {"maxdiff": dmax, "tol": tol})
                bad2 = [(d, float(u2[d]), s) for d, s in sorted(sums.items()) if not abs(u2[d] - s) <= 1e-10 * umax]
                add("r2:constraints<=1e-10", not bad2, {"first": bad2[:3]})
            # ---- scaled twins: the same problem in other units (values and loads times s = 2^k, modulus times 2^m and loads
            # accordingly): the solution must be s times the base solution, however small or large the data are
            for k, mk in case.get("scales", []):
                sV, sE = 2.0 ** k, 2.0 ** mk
                cs = json.loads(json.dumps(case))
                cs["modulus"] = sE

                def sc(spec, f):
                    if spec["kind"] == "const":
                        return {"kind": "const", "v": spec["v"] * f}
                    if spec["kind"] == "array":
                        return {"kind": "array", "v": [v * f for v in spec["v"]]}
                    return {"kind": "func", "abc": [v * f for v in spec["abc"]]}
                for bc in cs["dirichlet"]:
                    bc["values"] = [sc(v, sV) for v in bc["values"]]
                for bc in cs["neumann"]:
                    bc["values"] = [sc(v, sV * sE) for v in bc["values"]]
                s4, pt4, _ = build_phys(cs)
                u4 = np.asarray(s4.Solve(), dtype=float)
                # orphan dofs are excluded: by convention they get a unit diagonal, so they return their load, not load / modulus
                phys = np.setdiff1d(np.arange(u.size), orph)
                ref = sV * u[phys]
                umax4 = float(np.abs(ref).max()) if phys.size else 0.0
                dev = (float(np.abs(u4[phys] - ref).max()) if phys.size else 0.0) if np.all(np.isfinite(u4)) else float("inf")
                add("scaled-twin:solution-is-s-times-base", dev <= 1e-12 * umax4, {"k_values": k, "k_modulus": mk, "maxdev/|s u|max": (dev / umax4) if umax4 else dev, "exact": bool(np.array_equal(u4[phys], ref))})
                K4 = s4.Get_K_C_M_F(pt4)[0]
                b4 = np.asarray(s4._Solver_Apply_Neumann(pt4).todense()).ravel()
                r4 = (K4 @ u4 - b4)[un_reg]
                scale4 = float(np.abs(K4).dot(np.abs(u4)).max() + np.abs(b4).max() + 1e-300)
                add("scaled-twin:free-residual<=1e-10", (float(np.abs(r4).max()) if un_reg.size else 0.0) <= 1e-10 * scale4, {"k_values": k, "k_modulus": mk, "res/scale": float(np.abs(r4).max() / scale4) if un_reg.size else 0.0})
            # ---- backends (sampled)
            # (a problem whose dofs are all constrained has an empty reduced system: nothing for a backend to do)
            for solver in (case.get("backends", []) if len(un) > 0 else []):
                try:
                    s3, pt3, _ = build_phys(case, solver=solver if solver != "lsq_linear" else None)
                    if solver == "lsq_linear":
                        s3.solver = "lsq_linear"
                        # inactive bounds of the natural scale around the direct solution, one per dof
                        # (Get_lb_ub returns full-size vectors; __Solver_1 restricts them to the unknown dofs)
                        lo, hi = u - 1.0, u + 1.0
                        s3.Get_lb_ub = lambda problemType, lo=lo, hi=hi: (lo, hi)
                    u3 = np.asarray(s3.Solve(), dtype=float)
                    r3 = (K @ u3 - b)[un_reg]
                    bi = (b - np.asarray(K.todense())[:, kn] @ u3[kn])[un_reg]
                    rel = float(np.abs(r3).max() / (np.abs(bi).max() + 1e-300)) if un_reg.size else 0.0
                    tol = 1e-4 * max(1.0, cond) * float(np.abs(u).max())
                    dmax = float(np.abs(u3 - u).max())
                    bad3 = [(d, float(u3[d]), s) for d, s in sorted(sums.items()) if u3[d] != s]
                    add("backend:%s:constrained-exact" % solver, not bad3, {"first": bad3[:3]})
                    add("backend:%s:agrees-with-direct" % solver, dmax <= tol, {"maxdiff": dmax, "tol": tol, "relres": rel})
                except Exception as ex:
                    add("backend:%s:runs" % solver, False, {"raised": "%s: %s" % (type(ex).__name__, str(ex)[:200])})
    return res


def solution_checks(add, tag, simu, pt, coords, u, dirichlet):
    """constrained values exact (sum of entered values) and free residual of one solve."""
    sums = expected_sums({"dirichlet": dirichlet}, coords, simu, pt)
    bad = [(d, float(u[d]), s) for d, s in sorted(sums.items()) if u[d] != s]
    add(tag + ":constrained-values-exact", not bad, {"first": bad[:3], "n": len(sums)})
    K, _, _, _ = simu.Get_K_C_M_F(pt)
    b = np.asarray(simu._Solver_Apply_Neumann(pt).todense()).ravel()
    free = np.array([i for i in range(u.size) if i not in sums], dtype=int)
    orph = simu.Bc_dofs_nodes(simu.mesh.orphanNodes, simu.Get_unknowns(pt), pt) if len(simu.mesh.orphanNodes) else np.array([], dtype=int)
    free = np.setdiff1d(free, orph)
    r = K @ u - b
    scale = float(np.abs(K).dot(np.abs(u)).max() + np.abs(b).max() + 1e-300)
    rmax = float(np.abs(r[free]).max()) if free.size else 0.0
    add(tag + ":free-residual<=1e-10", np.isfinite(rmax) and rmax <= 1e-10 * scale, {"res": rmax, "scale": scale})


def run_multi(case):
    """several solves on ONE simulation object with boundary-condition changes in between; after each
    solve the result must be what a freshly built simulation with the same conditions returns."""
    res = {"id": case["id"], "error": None, "checks": []}

    def add(name, ok, detail):
        res["checks"].append({"name": name, "ok": bool(ok), "detail": detail})
    with warnings.catch_warnings():
        warnings.simplefilter("ignore")
        with contextlib.redirect_stdout(io.StringIO()):
            simu, pt, coords = new_simu(case)
            cumD, cumN = [], []
            for si, st in enumerate(case["stages"]):
                if st["bc_init"]:
                    simu.Bc_Init()
                    cumD, cumN = [], []
                apply_bcs(simu, pt, coords, st["dirichlet"], st["neumann"])
                cumD, cumN = cumD + st["dirichlet"], cumN + st["neumann"]
                u = np.asarray(simu.Solve(), dtype=float).copy()
                tag = "multi:stage%d:%s" % (si, st["kind"])
                solution_checks(add, tag, simu, pt, coords, u, cumD)
                fresh, ptf, _ = new_simu(case)
                apply_bcs(fresh, ptf, coords, cumD, cumN)
                uf = np.asarray(fresh.Solve(), dtype=float)
                dmax = float(np.abs(u - uf).max()) if np.all(np.isfinite(u)) else float("inf")
                add(tag + ":equals-fresh-simulation", dmax <= 1e-12 * float(np.abs(uf).max()), {"maxdiff": dmax})
                kn, un = simu.Bc_dofs_known_unknown(pt)
                knf, unf = fresh.Bc_dofs_known_unknown(ptf)
                add(tag + ":known-unknown-split-equals-fresh", np.array_equal(kn, knf) and np.array_equal(un, unf), {"known": [int(v) for v in kn][:12], "fresh": [int(v) for v in knf][:12]})
    return res


def any_duplicate(case, coords, simu, pt, skip):
    seen = set()
    unk = simu.Get_unknowns(pt)
    for i, bc in enumerate(case["dirichlet"]):
        for nd in bc["nodes"]:
            for u_ in bc["unknowns"]:
                d = int(nd) * len(unk) + unk.index(u_)
                if d in seen:
                    return True
                seen.add(d)
    return False


def constraint_rows(simu):
    """integer description of the constraint rows of a simulation (Dirichlet dofs, Lagrange dofs/coefs)"""
    pt = simu.problemType
    lg = []
    for bc in simu.Bc_Lagrange:
        cs = [float(c) for c in bc.lagrangeCoefs]
        if any(c != int(c) for c in cs):
            return None
        lg.append([[int(d) for d in bc.dofs], [int(c) for c in cs], 0])
    return {"n": int(simu.mesh.Nn * simu.Get_dof_n(pt)), "dirichlet": [int(d) for d in simu.Bc_dofs_Dirichlet(pt)], "lagrange": lg}


def run_special(case):
    """named scenarios on real simulations (duplicates with Lagrange / with Newton, beam connection)."""
    res = {"id": case["id"], "error": None, "checks": []}

    def add(name, ok, detail):
        res["checks"].append({"name": name, "ok": bool(ok), "detail": detail})
    from EasyFEA import Models, Simulations
    from EasyFEA.FEM import LagrangeCondition
    with warnings.catch_warnings():
        warnings.simplefilter("ignore")
        with contextlib.redirect_stdout(io.StringIO()):
            if case["scenario"] == "elastic-lagrange-duplicate":
                mesh, coords = grid_mesh(3, 2, "QUAD4")
                simu = Simulations.Elastic(mesh, Models.Elastic.Isotropic(2, E=1.0, v=0.25, planeStress=True, thickness=1.0), verbosity=False)
                left = np.where(coords[:, 0] == 0)[0]
                right = np.where(coords[:, 0] == 3)[0]
                simu.add_dirichlet(left, [0, 0], ["x", "y"])
                simu.add_dirichlet(right, [case["v1"]], ["x"])
                simu.add_dirichlet(right[:1], [case["v2"]], ["x"])       # overlapping condition on one node
                a, b = int(right[0]), int(right[-1])
                pt = simu.problemType
                simu._Bc_Add_Lagrange(LagrangeCondition(pt, np.array([a, b]), np.array([2 * a + 1, 2 * b + 1]), ["y"], np.array([0.25]), np.array([1.0, -1.0])))
                u = np.asarray(simu.Solve(), dtype=float)
                exp = case["v1"] + case["v2"]
                got = float(u[2 * a])
                add("r2:duplicate-dirichlet-holds-sum", np.isfinite(got) and abs(got - exp) <= 1e-10, {"observed": got, "expected": exp})
                mpc = float(u[2 * a + 1] - u[2 * b + 1])
                add("r2:mpc-holds", np.isfinite(mpc) and abs(mpc - 0.25) <= 1e-10, {"observed": mpc, "expected": 0.25})
            elif case["scenario"] == "hyperelastic-newton-duplicate":
                from EasyFEA.FEM import Mesh
                from EasyFEA.FEM._group_elem import GroupElemFactory
                from EasyFEA.FEM._utils import ElemType
                pts = [[i, j, k] for k in range(2) for j in range(2) for i in range(3)]
                coords = np.array(pts, dtype=float)
                idx = lambda i, j, k: k * 6 + j * 3 + i
                hexa = [[idx(i, 0, 0), idx(i + 1, 0, 0), idx(i + 1, 1, 0), idx(i, 1, 0), idx(i, 0, 1), idx(i + 1, 0, 1), idx(i + 1, 1, 1), idx(i, 1, 1)] for i in range(2)]
                mesh = Mesh({ElemType.HEXA8: GroupElemFactory.Create(ElemType.HEXA8, np.array(hexa), coords)}, verbosity=False)
                simu = Simulations.HyperElastic(mesh, Models.HyperElastic.NeoHookean(3, K=1.0), verbosity=False)
                left = np.where(coords[:, 0] == 0)[0]
                right = np.where(coords[:, 0] == 2)[0]
                simu.add_dirichlet(left, [0, 0, 0], ["x", "y", "z"])
                simu.add_dirichlet(right, [case["v1"]], ["x"])
                simu.add_dirichlet(right[:1], [case["v2"]], ["x"])
                exp = case["v1"] + case["v2"]
                try:
                    u = np.asarray(simu.Solve(), dtype=float)
                    got = float(u[3 * int(right[0])])
                    add("newton:duplicate-dirichlet-holds-sum", got == exp, {"observed": got, "expected": exp})
                except AssertionError as ex:
                    add("newton:duplicate-dirichlet-holds-sum", False, {"observed": "AssertionError: " + str(ex)[:120], "expected": exp})
            elif case["scenario"] in ("beam-connection-backends", "elastic-mpc-backends"):
                # problems WITH Lagrange conditions solved with every backend configured on the simulation:
                # whatever backend is selected, the answer must be the direct one and satisfy the constraints
                def build(solver):
                    if case["scenario"] == "beam-connection-backends":
                        from EasyFEA import Mesher
                        from EasyFEA.Geoms import Domain, Point, Line
                        L, bb, hh, nel = 8.0, 0.5, 0.5, case["nel"]
                        mesher = Mesher()
                        section = mesher.Mesh_2D(Domain(Point(-bb / 2, -hh / 2), Point(bb / 2, hh / 2)))
                        line1 = Line(Point(0, 0), Point(L, 0), L / nel)
                        line2 = Line(Point(L, 0), Point(L, L), L / nel)
                        beam1 = Models.Beam.Isotropic(2, line1, section, 1024.0, 0.25)
                        beam2 = Models.Beam.Isotropic(2, line2, section, 1024.0, 0.25)
                        mesh = mesher.Mesh_Beams([beam1, beam2], elemType=case.get("elem", "SEG2"))
                        simu = Simulations.Beam(mesh, Models.Beam.BeamStructure([beam1, beam2]), verbosity=False)
                        simu.solver = solver
                        simu.add_dirichlet(simu.mesh.Nodes_Point(Point(0, 0)), [0, 0, 0], ["x", "y", "rz"])
                        simu.add_connection_fixed(simu.mesh.Nodes_Point(Point(L, 0)))
                        simu.add_neumann(simu.mesh.Nodes_Point(Point(L, L)), [case["F"]], ["x"])
                    else:
                        mesh, coords = grid_mesh(case["nx"], case["ny"], "QUAD4")
                        simu = Simulations.Elastic(mesh, Models.Elastic.Isotropic(2, E=1.0, v=0.25, planeStress=True, thickness=1.0), verbosity=False)
                        simu.solver = solver
                        left = np.where(coords[:, 0] == 0)[0]
                        right = np.where(coords[:, 0] == case["nx"])[0]
                        simu.add_dirichlet(left, [0, 0], ["x", "y"])
                        simu.add_dirichlet(right, [case["v1"]], ["x"])
                        a, b = int(right[0]), int(right[-1])
                        simu._Bc_Add_Lagrange(LagrangeCondition(simu.problemType, np.array([a, b]), np.array([2 * a + 1, 2 * b + 1]), ["y"], np.array([case["v2"]]), np.array([1.0, -1.0])))
                        simu.add_neumann(right, [0.125], ["y"])
                    return simu

                def constraint_residual(simu, u):
                    worst = 0.0
                    for bc in simu.Bc_Lagrange:
                        worst = max(worst, abs(float(np.dot(bc.lagrangeCoefs, u[bc.dofs]) - bc.dofsValues[0])))
                    dd, vv = simu.Bc_dofs_Dirichlet(simu.problemType), simu.Bc_values_Dirichlet(simu.problemType)
                    if len(dd):
                        worst = max(worst, float(np.abs(u[dd] - vv).max()))
                    return worst
                s0 = build("scipy")
                res["rows"] = constraint_rows(s0)
                u0 = np.asarray(s0.Solve(), dtype=float)
                umax = float(np.abs(u0).max())      # relative to the solution: no absolute floor
                add("lagrange-backends:scipy:constraints<=1e-9", np.all(np.isfinite(u0)) and constraint_residual(s0, u0) <= 1e-9 * umax, {"worst": constraint_residual(s0, u0), "n_lagrange": len(s0.Bc_Lagrange), "n": int(u0.size)})
                for solver in case["backends"]:
                    try:
                        s1 = build(solver)
                        if solver == "lsq_linear":
                            s1.Get_lb_ub = lambda problemType: (np.full(1, -1e6), np.full(1, 1e6))
                        u1 = np.asarray(s1.Solve(), dtype=float)
                        dmax = float(np.abs(u1 - u0).max()) if np.all(np.isfinite(u1)) else float("inf")
                        cres = constraint_residual(s1, u1) if np.all(np.isfinite(u1)) else float("inf")
                        add("lagrange-backends:%s:agrees-with-direct" % solver, dmax <= 1e-6 * umax, {"maxdiff": dmax, "tol": 1e-6 * umax})
                        add("lagrange-backends:%s:constraints<=1e-9" % solver, cres <= 1e-9 * umax, {"worst": cres})
                    except Exception as ex:
                        add("lagrange-backends:%s:runs" % solver, False, {"raised": "%s: %s" % (type(ex).__name__, str(ex)[:200])})
            elif case["scenario"] == "orphan-nodes":
                # meshes WITH orphan nodes (coordinates no element uses) on every kind of simulation, incl. the
                # two-field PhaseField one: finite solution, constraints exact, free residual, orphan dofs regular
                from EasyFEA.FEM import Mesh
                from EasyFEA.FEM._group_elem import GroupElemFactory

                def with_orphans(mesh, extra):
                    coord = np.vstack([mesh.coord, np.asarray(extra, dtype=float)])
                    d = {}
                    for et, g in mesh.dict_groupElem.items():
                        ng = GroupElemFactory.Create(et, g.connect, coord)
                        for tag, nodes in g._dict_nodes_tags.items():     # beams find their elements by tag
                            ng.Set_Tag(np.asarray(nodes), tag)
                        d[et] = ng
                    return Mesh(d, verbosity=False)
                kind, k = case["kind"], case["orphans"]
                if kind == "phasefield":
                    mesh, coords = grid_mesh(case["nx"], case["ny"], case["elem"], k)
                    mat = Models.Elastic.Isotropic(2, E=1.0, v=0.25, planeStress=True, thickness=1.0)
                    pfm = Models.PhaseField(mat, case["split"], case["regu"], 1.0, 0.5)
                    simu = Simulations.PhaseField(mesh, pfm, verbosity=False)
                    left = np.where((coords[:, 0] == 0) & (coords[:, 1] < 15))[0]
                    right = np.where(coords[:, 0] == case["nx"])[0]
                    pt = simu.ProblemTypes.elastic
                    fields = None
                    for step, ud in enumerate(case["loads"]):
                        simu.Bc_Init()
                        simu.add_dirichlet(left, [0, 0], ["x", "y"])
                        simu.add_dirichlet(right, [ud], ["x"])
                        if case.get("damage_bc"):
                            simu.add_dirichlet(left, [0], ["d"], problemType=simu.ProblemTypes.damage)
                        out = simu.Solve()
                        u, d = np.asarray(out[0], dtype=float), np.asarray(out[1], dtype=float)
                        fin = bool(np.all(np.isfinite(u)) and np.all(np.isfinite(d)))
                        add("orphans:phasefield:step%d:finite" % step, fin, {"nan_u": int(np.sum(~np.isfinite(u))), "nan_d": int(np.sum(~np.isfinite(d)))})
                        if not fin:
                            break
                        orph = np.asarray(simu.mesh.orphanNodes, dtype=int)
                        add("orphans:phasefield:step%d:orphan-dofs-regular" % step, bool(np.all(d[orph] == 0) and np.all(u.reshape(-1, 2)[orph] == 0)),
                            {"d_orphan": d[orph].tolist(), "u_orphan": u.reshape(-1, 2)[orph].ravel().tolist()})
                        add("orphans:phasefield:step%d:constrained-values-exact" % step, bool(np.all(u[2 * right] == ud) and np.all(u[2 * left] == 0) and np.all(u[2 * left + 1] == 0)),
                            {"ux_right": u[2 * right].tolist()[:4], "expected": ud})
                        add("orphans:phasefield:step%d:damage-in-[0,1]" % step, bool(d.min() >= -1e-9 and d.max() <= 1 + 1e-9), {"min": float(d.min()), "max": float(d.max())})
                        K = simu.Get_K_C_M_F(pt)[0]
                        b = np.asarray(simu._Solver_Apply_Neumann(pt).todense()).ravel()
                        cons = set(int(x) for x in simu.Bc_dofs_Dirichlet(pt)) | set(int(x) for o in orph for x in (2 * o, 2 * o + 1))
                        free = np.array([i for i in range(u.size) if i not in cons], dtype=int)
                        r = K @ u - b
                        scale = float(np.abs(K).dot(np.abs(u)).max() + np.abs(b).max() + 1e-300)
                        add("orphans:phasefield:step%d:elastic-free-residual<=1e-10" % step, float(np.abs(r[free]).max()) <= 1e-10 * scale, {"res": float(np.abs(r[free]).max()), "scale": scale})
                elif kind == "hyperelastic":
                    pts = [[i, j, kk] for kk in range(2) for j in range(2) for i in range(3)] + [[9.0 + i, 9.0, 9.0] for i in range(k)]
                    coords = np.array(pts, dtype=float)
                    idx = lambda i, j, kk: kk * 6 + j * 3 + i
                    hexa = [[idx(i, 0, 0), idx(i + 1, 0, 0), idx(i + 1, 1, 0), idx(i, 1, 0), idx(i, 0, 1), idx(i + 1, 0, 1), idx(i + 1, 1, 1), idx(i, 1, 1)] for i in range(2)]
                    from EasyFEA.FEM._utils import ElemType
                    mesh = Mesh({ElemType.HEXA8: GroupElemFactory.Create(ElemType.HEXA8, np.array(hexa), coords)}, verbosity=False)
                    simu = Simulations.HyperElastic(mesh, Models.HyperElastic.NeoHookean(3, K=1.0), verbosity=False)
                    left = np.where(coords[:, 0] == 0)[0]
                    right = np.where(coords[:, 0] == 2)[0]
                    simu.add_dirichlet(left, [0, 0, 0], ["x", "y", "z"])
                    simu.add_dirichlet(right, [case["v1"]], ["x"])
                    try:
                        u = np.asarray(simu.Solve(), dtype=float)
                        orph = np.asarray(simu.mesh.orphanNodes, dtype=int)
                        add("orphans:hyperelastic:finite", bool(np.all(np.isfinite(u))), {"nan": int(np.sum(~np.isfinite(u)))})
                        add("orphans:hyperelastic:orphan-dofs-regular", bool(np.all(u.reshape(-1, 3)[orph] == 0)), {"u_orphan": u.reshape(-1, 3)[orph].ravel().tolist()})
                        add("orphans:hyperelastic:constrained-values-exact", bool(np.all(u[3 * right] == case["v1"]) and np.all(u.reshape(-1, 3)[left] == 0)), {"ux_right": u[3 * right].tolist()})
                    except Exception as ex:
                        add("orphans:hyperelastic:finite", False, {"raised": "%s: %s" % (type(ex).__name__, str(ex)[:150])})
                elif kind == "beam":
                    from EasyFEA import Mesher
                    from EasyFEA.Geoms import Domain, Point, Line
                    L, bb, hh = 8.0, 0.5, 0.5
                    mesher = Mesher()
                    section = mesher.Mesh_2D(Domain(Point(-bb / 2, -hh / 2), Point(bb / 2, hh / 2)))
                    line1 = Line(Point(0, 0), Point(L, 0), L / 4)
                    lines = [line1] + ([Line(Point(L, 0), Point(L, L), L / 4)] if case.get("connection") else [])
                    beams = [Models.Beam.Isotropic(2, ln, section, 1024.0, 0.25) for ln in lines]
                    mesh = with_orphans(mesher.Mesh_Beams(beams, elemType="SEG2"), [[30.0 + i, 30.0, 0.0] for i in range(k)])
                    simu = Simulations.Beam(mesh, Models.Beam.BeamStructure(beams), verbosity=False)
                    simu.add_dirichlet(simu.mesh.Nodes_Point(Point(0, 0)), [0, 0, 0], ["x", "y", "rz"])
                    if case.get("connection"):
                        simu.add_connection_fixed(simu.mesh.Nodes_Point(Point(L, 0)))
                        tip = simu.mesh.Nodes_Point(Point(L, L))
                    else:
                        tip = simu.mesh.Nodes_Point(Point(L, 0))
                    simu.add_neumann(tip, [case["F"]], ["y" if not case.get("connection") else "x"])
                    u = np.asarray(simu.Solve(), dtype=float)
                    orph = np.asarray(simu.mesh.orphanNodes, dtype=int)
                    fin = bool(np.all(np.isfinite(u)))
                    add("orphans:beam:finite", fin and len(orph) == k, {"nan": int(np.sum(~np.isfinite(u))), "orphans": len(orph)})
                    if fin:
                        add("orphans:beam:orphan-dofs-regular", bool(np.all(u.reshape(-1, 3)[orph] == 0)), {"u_orphan": u.reshape(-1, 3)[orph].ravel().tolist()})
                        pt = simu.problemType
                        dd = simu.Bc_dofs_Dirichlet(pt)
                        umax = float(np.abs(u).max())
                        add("orphans:beam:dirichlet<=1e-10", float(np.abs(u[dd]).max()) <= 1e-10 * umax, {"max": float(np.abs(u[dd]).max())})
                        worst = max([abs(float(np.dot(bc.lagrangeCoefs, u[bc.dofs]) - bc.dofsValues[0])) for bc in simu.Bc_Lagrange] + [0.0])
                        add("orphans:beam:connection-constraints<=1e-10", worst <= 1e-10 * umax, {"worst": worst})
                        n = simu.mesh.Nn * 3
                        K = simu.Get_K_C_M_F(pt)[0][:n, :n]
                        b = np.asarray(simu._Solver_Apply_Neumann(pt).todense()).ravel()[:n]
                        cons = set(int(d) for d in dd) | set(int(d) for bc in simu.Bc_Lagrange for d in bc.dofs) | set(int(3 * o + j) for o in orph for j in range(3))
                        free = np.array([i for i in range(n) if i not in cons], dtype=int)
                        r = K @ u - b
                        scale = float(np.abs(K).dot(np.abs(u)).max() + np.abs(b).max())
                        add("orphans:beam:free-residual<=1e-9", float(np.abs(r[free]).max()) <= 1e-9 * scale, {"res": float(np.abs(r[free]).max()), "scale": scale})
            elif case["scenario"] == "beam-connection":
                from EasyFEA import Mesher
                from EasyFEA.Geoms import Domain, Point, Line
                L, bb, hh = 8.0, 0.5, 0.5
                mesher = Mesher()
                section = mesher.Mesh_2D(Domain(Point(-bb / 2, -hh / 2), Point(bb / 2, hh / 2)))
                line1 = Line(Point(0, 0), Point(L, 0), L / 4)
                line2 = Line(Point(L, 0), Point(L, L), L / 4)
                beam1 = Models.Beam.Isotropic(2, line1, section, 1024.0, 0.25)
                beam2 = Models.Beam.Isotropic(2, line2, section, 1024.0, 0.25)
                mesh = mesher.Mesh_Beams([beam1, beam2], elemType="SEG2")
                simu = Simulations.Beam(mesh, Models.Beam.BeamStructure([beam1, beam2]), verbosity=False)
                clamp = simu.mesh.Nodes_Point(Point(0, 0))
                corner = simu.mesh.Nodes_Point(Point(L, 0))
                tip = simu.mesh.Nodes_Point(Point(L, L))
                simu.add_dirichlet(clamp, [0, 0, 0], ["x", "y", "rz"])
                if case.get("duplicate"):
                    simu.add_dirichlet(clamp, [0], ["x"])             # the clamp node fixed once more in x
                simu.add_connection_fixed(corner)
                simu.add_neumann(tip, [case["F"]], ["x"])
                res["rows"] = constraint_rows(simu)
                u = np.asarray(simu.Solve(), dtype=float)
                pt = simu.problemType
                ok_fin = bool(np.all(np.isfinite(u)))
                add("beam:solution-finite", ok_fin, {"nan": int(np.sum(~np.isfinite(u)))})
                if ok_fin:
                    worst = 0.0
                    for bc in simu.Bc_Lagrange:
                        lhs = float(np.dot(bc.lagrangeCoefs, u[bc.dofs]) - bc.dofsValues[0])
                        worst = max(worst, abs(lhs))
                    add("beam:connection-constraints<=1e-10", worst <= 1e-10 * float(np.abs(u).max()), {"worst": worst, "n": len(simu.Bc_Lagrange)})
                    dd = simu.Bc_dofs_Dirichlet(pt)
                    add("beam:dirichlet<=1e-10", float(np.abs(u[dd]).max()) <= 1e-10 * float(np.abs(u).max()), {"max": float(np.abs(u[dd]).max())})
                    K, _, _, _ = simu.Get_K_C_M_F(pt)
                    n = simu.mesh.Nn * simu.Get_dof_n(pt)
                    b = np.asarray(simu._Solver_Apply_Neumann(pt).todense()).ravel()[:n]
                    r = (K[:n, :n] @ u - b)
                    cons = set(int(d) for d in dd) | set(int(d) for bc in simu.Bc_Lagrange for d in bc.dofs)
                    free = np.array([i for i in range(n) if i not in cons])
                    scale = float(np.abs(K[:n, :n]).dot(np.abs(u)).max() + np.abs(b).max())
                    add("beam:unconstrained-dof-residual<=1e-9", float(np.abs(r[free]).max()) <= 1e-9 * scale, {"res": float(np.abs(r[free]).max()), "scale": scale})
    return res


def main():
    req = json.load(sys.stdin)
    # EasyFEA prints to stdout (Terminal.MyPrint...): keep the JSON channel clean
    import io as _io
    real_stdout = sys.stdout
    sys.stdout = _io.StringIO()
    fn = {"plumb": run_plumb, "phys": run_phys, "special": run_special, "multi": run_multi}[req["mode"]]
    out = []
    for case in req["cases"]:
        try:
            out.append(fn(case))
        except Exception as ex:
            import traceback
            out.append({"id": case["id"], "error": "%s: %s" % (type(ex).__name__, ex), "trace": traceback.format_exc()[-2000:], "checks": []})
    sys.stdout = real_stdout
    real_stdout.write("\n@@JSON@@" + json.dumps({"results": out}) + "\n")
    real_stdout.flush()


if __name__ == "__main__":
    main()
