"""C05 correspondence, implementation side (run with EasyFEA importable from the tree under check).

stdin : JSON {"scenarios": [ {kind, coords, tris, E, nu, rho, thickness, rayleigh, k, c,
                               dirichlet:[{nodes,values,dirs}], neumann:[{nodes,values,dirs}],
                               state:{u,v,a}, newton:bool,
                               steps:[{algo, dt, beta, gamma, alpha, neumann_scale}]} ]}
stdout: JSON per scenario per step: matrices, Neumann vector, constraint data, previous and new
        state, and what the four anchored methods return for that step.
All floats travel as repr (exact round trip)."""
import json
import sys

import numpy as np

from EasyFEA import Simulations, Models
from EasyFEA.FEM import Mesh
from EasyFEA.FEM._group_elem import GroupElemFactory
from EasyFEA.FEM._utils import ElemType
from EasyFEA.Simulations.Solvers import AlgoType


def build_mesh(sc):
    coords = np.array(sc["coords"], dtype=float)
    tris = np.array(sc["tris"], dtype=int)
    segs = set()
    for t in tris:
        for a, b in ((t[0], t[1]), (t[1], t[2]), (t[2], t[0])):
            key = (min(a, b), max(a, b))
            if key in segs:
                segs.remove(key)
            else:
                segs.add(key)
    segs = np.array(sorted(segs), dtype=int)
    g2 = GroupElemFactory.Create(ElemType.TRI3, tris, coords)
    g1 = GroupElemFactory.Create(ElemType.SEG2, segs, coords)
    return Mesh({ElemType.TRI3: g2, ElemType.SEG2: g1})


class NewtonElastic(Simulations.Elastic):
    """A linear elastic problem pushed through the incremental (Newton) path exactly the way
    _hyperelastic.py does it: F_e is the complete residual -R_e built from the evaluation-point
    states of _Solver_Evaluate_u_v_a_for_time_scheme at the current Newton iterate."""

    def Construct_local_matrix_system(self, problemType):
        out = super().Construct_local_matrix_system(problemType)
        if not self.isNonLinear:
            return out
        u = self._Solver_Get_Newton_Raphson_current_solution()
        u_t, v_t, a_t = self._Solver_Evaluate_u_v_a_for_time_scheme(problemType, u)
        res = {}
        dim = self.dim
        for g, (K_e, C_e, M_e, _) in out.items():
            F_e = -np.einsum("eij,ej->ei", np.asarray(K_e), g.Locates_sol_e(u_t, dim))
            if v_t is not None:
                F_e -= np.einsum("eij,ej->ei", np.asarray(C_e), g.Locates_sol_e(v_t, dim))
            if a_t is not None:
                F_e -= np.einsum("eij,ej->ei", np.asarray(M_e), g.Locates_sol_e(a_t, dim))
            res[g] = (K_e, C_e, M_e, F_e)
        return res


def dense(m):
    return np.asarray(m.todense() if hasattr(m, "todense") else m, dtype=float)


def fl(a):
    return [float(x) for x in np.asarray(a, dtype=float).ravel()]


def set_algo(simu, st):
    if st["algo"] == "parabolic":
        simu.Solver_Set_Parabolic_Algorithm(st["dt"], st["alpha"])
    else:
        simu.Solver_Set_Hyperbolic_Algorithm(st["dt"], algo=getattr(AlgoType, st["algo"]), beta=st["beta"],
                                             gamma=st["gamma"], alpha=st["alpha"])


def stored_params(simu):
    """what the scheme will use: the tuple behind __Solver_Get_{Hyperbolic,Parabolic}_Params"""
    try:
        if simu.algo == AlgoType.parabolic:
            return [float(x) for x in simu._Simu__Solver_Get_Parabolic_Params()]
        return [float(x) for x in simu._Simu__Solver_Get_Hyperbolic_Params()]
    except Exception as ex:
        return "unreadable: %s" % ex


def apply_bc(simu, sc, scale, st=None):
    """boundary conditions of a step: the step's own sets when it has some (they may change between steps)"""
    st = st or {}
    simu.Bc_Init()
    for d in st.get("dirichlet", sc["dirichlet"]):
        simu.add_dirichlet(np.array(d["nodes"], dtype=int), list(d["values"]), list(d["dirs"]))
    for d in st.get("neumann", sc["neumann"]):
        simu.add_neumann(np.array(d["nodes"], dtype=int), [v * scale for v in d["values"]], list(d["dirs"]))


def run_scenario(sc):
    mesh = build_mesh(sc)
    if sc["kind"] == "thermal":
        mat = Models.Thermal(k=sc["k"], c=sc["c"], thickness=sc["thickness"])
        simu = Simulations.Thermal(mesh, mat)
        simu.rho = sc["rho"]
    else:
        mat = Models.Elastic.Isotropic(2, E=sc["E"], v=sc["nu"], planeStress=True, thickness=sc["thickness"])
        cls = NewtonElastic if sc.get("newton") else Simulations.Elastic
        simu = cls(mesh, mat)
        simu.rho = sc["rho"]
        simu.Set_Rayleigh_Damping_Coefs(sc["rayleigh"][0], sc["rayleigh"][1])
    pt = simu.problemType
    s0 = sc["state"]
    simu._Set_solutions(pt, np.array(s0["u"], dtype=float), np.array(s0["v"], dtype=float), np.array(s0["a"], dtype=float))
    if sc.get("newton"):
        simu._Solver_Set_Newton_Raphson_Algorithm(absTol=1e-9, relTol=1e-12, incTol=1e-13, maxIter=6)
    out = []
    for st in sc["steps"]:
        rec = {"algo": st["algo"]}
        if not st.get("keep_scheme"):      # keep_scheme: same scheme and parameters as the previous step, setter not called again
            set_algo(simu, st)
        rec["algo_now"] = str(simu.algo)
        rec["stored"] = stored_params(simu)
        apply_bc(simu, sc, st.get("neumann_scale", 1.0), st)
        u_n, v_n, a_n = simu._Get_u_n(pt), simu._Get_v_n(pt), simu._Get_a_n(pt)
        rec["prev"] = {"u": fl(u_n), "v": fl(v_n), "a": fl(a_n)}
        ndof = u_n.size
        dofsN, valsN = simu.Bc_dofs_Neumann(pt), simu.Bc_values_Neumann(pt)
        bN = np.zeros(ndof)
        np.add.at(bN, np.asarray(dofsN, dtype=int), np.asarray(valsN, dtype=float))
        rec["bN"] = fl(bN)
        rec["dir_dofs"] = [int(d) for d in simu.Bc_dofs_Dirichlet(pt)]
        rec["dir_vals"] = fl(simu.Bc_values_Dirichlet(pt))
        known, unknown = simu.Bc_dofs_known_unknown(pt)
        rec["known"] = [int(d) for d in known]
        rec["unknown"] = [int(d) for d in unknown]
        if not sc.get("newton"):
            K, C, M, F = simu.Get_K_C_M_F(pt)
            rec["K"], rec["C"], rec["M"] = dense(K).tolist(), dense(C).tolist(), dense(M).tolist()
            rec["F"] = fl(dense(F))
            # the tables themselves, before the solve
            rec["coefs"] = [float(c) for c in simu._Solver_Get_K_C_M_coefs_for_time_scheme()]
            rec["rhs"] = fl(dense(simu._Solver_Apply_Neumann(pt)))
        simu.Solve()
        if sc.get("restart") is not None:
            simu.Save_Iter()
        u1, v1, a1 = simu._Get_u_n(pt), simu._Get_v_n(pt), simu._Get_a_n(pt)
        rec["new"] = {"u": fl(u1), "v": fl(v1), "a": fl(a1)}
        if sc.get("energy"):
            Ke, _, Me, _ = simu.Get_K_C_M_F(pt)
            rec["E_impl"] = float(simu.Calc_Energy(Me, v1) + simu.Calc_Energy(Ke, u1))
        if sc.get("newton"):
            K, C, M, _ = simu.Get_K_C_M_F(pt)
            rec["K"], rec["C"], rec["M"] = dense(K).tolist(), dense(C).tolist(), dense(M).tolist()
            rec["F"] = [0.0] * ndof   # the assembled F is the Newton residual; the external volume load is zero
            rec["newton_iters"] = int(simu._Simu__newtonIter) if hasattr(simu, "_Simu__newtonIter") else -1
        else:
            # evaluation-point states at the solved unknown, with the previous state restored
            x = a1 if st["algo"] == "euler_explicit" else u1
            simu._Set_solutions(pt, u_n, v_n, a_n)
            ut, vt, at = simu._Solver_Evaluate_u_v_a_for_time_scheme(pt, x.copy())
            up = simu._Solver_Update_solutions(pt, x.copy())
            mag = float(np.max(np.abs(x))) if x.size else 0.0
            p2 = 2.0 ** int(np.floor(np.log2(mag))) if mag > 0 and np.isfinite(mag) else 1.0   # probe of the unknown's own size
            d = np.array([((3 * i) % 7 - 3) / 4.0 for i in range(x.size)]) * p2
            utd, vtd, atd = simu._Solver_Evaluate_u_v_a_for_time_scheme(pt, x + d)
            rec["d"] = fl(d)
            rec["evd"] = [None if t is None else fl(t) for t in (utd, vtd, atd)]
            simu._Set_solutions(pt, u1, v1, a1)
            rec["ev"] = [None if t is None else fl(t) for t in (ut, vt, at)]
            rec["up"] = [None if t is None else fl(t) for t in up]
            rec["x"] = fl(x)
        out.append(rec)
    rs = sc.get("restart")
    if rs is not None:
        # go back to saved iteration k, read the state back, continue with step k+1's settings
        k = int(rs["k"])
        st = sc["steps"][k + 1]
        simu.Set_Iter(k)
        back = {"u": fl(simu._Get_u_n(pt)), "v": fl(simu._Get_v_n(pt)), "a": fl(simu._Get_a_n(pt))}
        set_algo(simu, st)
        apply_bc(simu, sc, st.get("neumann_scale", 1.0), st)
        simu.Solve()
        cont = {"u": fl(simu._Get_u_n(pt)), "v": fl(simu._Get_v_n(pt)), "a": fl(simu._Get_a_n(pt))}
        out[k + 1]["restart"] = {"k": k, "restored": back, "cont": cont}
    return out


def main():
    req = json.loads(sys.stdin.read())
    res = []
    for sc in req["scenarios"]:
        try:
            res.append({"ok": True, "steps": run_scenario(sc)})
        except Exception as ex:   # reported to the driver, which decides
            import traceback
            res.append({"ok": False, "error": "%s: %s" % (type(ex).__name__, ex), "tb": traceback.format_exc()[-1500:]})
    sys.stdout.write("\n@@C05JSON@@" + json.dumps({"results": res}))


if __name__ == "__main__":
    main()
