"""C11 correspondence, implementation side: run EasyFEA's laws / Get_Pmat / Apply_Pmat on the
cases given on stdin (JSON) and print the outputs (JSON).  Executed with EasyFEA importable
from the tree under check."""
import json
import sys
import numpy as np


def arr(x):
    return np.asarray(x, dtype=float)


def tolist(a):
    return np.asarray(a, dtype=float).tolist()


def param(x):
    if isinstance(x, list):
        return np.asarray(x, dtype=float)
    return float(x)


def getter(m, kind):
    """one public getter of a law object -> list of arrays (nested lists)"""
    try:
        if kind == "readC":
            return [tolist(m.C)]
        if kind == "readS":
            return [tolist(m.S)]
        if kind == "readSqrt":
            a, b = m.Get_sqrt_C_S()
            return [tolist(a), tolist(b)]
        if kind == "readWalpole":
            ci, Ei = m.Walpole_Decomposition()
            return [tolist(np.asarray(ci, dtype=float)), tolist(Ei)]
        if kind == "readHet":
            return [[1.0 if m.isHeterogeneous else 0.0]]
        if kind == "readLambda":
            return [tolist(m.get_lambda())]
        if kind == "readMu":
            return [tolist(m.get_mu())]
        if kind == "readBulk":
            return [tolist(m.get_bulk())]
        if kind == "readSimpl":
            return [[float(len(m.simplification))], [1.0 if m.planeStress else 0.0]]
        if kind == "readKt":
            return [tolist(m.kt), tolist(m.Gt)]
    except Exception as ex:  # noqa
        return {"raises": "%s: %s" % (type(ex).__name__, str(ex)[:80])}
    return {"raises": "unknown getter " + kind}


def main():
    from EasyFEA.Models._utils import Get_Pmat, Apply_Pmat, KelvinMandel_Matrix
    from EasyFEA.Models.Elastic import _laws
    req = json.load(sys.stdin)
    out = {"law": [], "pmat": [], "apply": [], "aniso": [], "lazy": [], "km": [], "boundary": []}
    for c in req.get("law", []):
        try:
            cls = getattr(_laws, c["cls"])
            kw = {k: param(v) for k, v in c["params"].items()}
            if c["cls"] == "Isotropic":
                m = cls(c["dim"], planeStress=c["ps"], **kw)
            elif c["cls"] == "TransverselyIsotropic":
                m = cls(c["dim"], axis_l=arr(c["axes"][0]), axis_t=arr(c["axes"][1]), planeStress=c["ps"], **kw)
            else:
                m = cls(c["dim"], axis_1=arr(c["axes"][0]), axis_2=arr(c["axes"][1]), planeStress=c["ps"], **kw)
            r = {"C": tolist(m.C), "S": tolist(m.S)}
            if c["cls"] == "Isotropic":
                r["lambda"] = tolist(m.get_lambda())
                r["mu"] = tolist(m.get_mu())
                r["bulk"] = tolist(m.get_bulk())
            out["law"].append(r)
        except Exception as ex:  # noqa
            out["law"].append({"raises": "%s: %s" % (type(ex).__name__, ex)})
    for c in req.get("pmat", []):
        try:
            if c["mandel"]:
                out["pmat"].append({"P": tolist(Get_Pmat(arr(c["a"]), arr(c["b"]), useMandel=True))})
            else:
                Ps, Pe = Get_Pmat(arr(c["a"]), arr(c["b"]), useMandel=False)
                out["pmat"].append({"Ps": tolist(Ps), "Pe": tolist(Pe)})
        except Exception as ex:  # noqa
            out["pmat"].append({"raises": "%s: %s" % (type(ex).__name__, ex)})
    for c in req.get("apply", []):
        try:
            out["apply"].append({"R": tolist(Apply_Pmat(arr(c["P"]), arr(c["M"]), toGlobal=c["toGlobal"]))})
        except Exception as ex:  # noqa
            out["apply"].append({"raises": "%s: %s" % (type(ex).__name__, ex)})
    for c in req.get("km", []):
        out["km"].append({"R": tolist(KelvinMandel_Matrix(c["dim"], arr(c["M"])))})
    for c in req.get("aniso", []):
        try:
            m = _laws.Anisotropic(c["dim"], arr(c["C"]), c["voigt"], arr(c["axes"][0]), arr(c["axes"][1]))
            out["aniso"].append({"C": tolist(m.C), "S": tolist(m.S)})
        except Exception as ex:  # noqa
            out["aniso"].append({"raises": "%s: %s" % (type(ex).__name__, ex)})
    for c in req.get("lazy", []):
        try:
            cls = getattr(_laws, c["cls"])
            held = {k: (v if isinstance(v, bool) else param(v)) for k, v in c["init"].items()}      # the user's own objects
            m = cls(c["dim"], **held)
            reads, fresh = [], []
            for op in c["ops"]:
                if op[0] == "set":                                   # a new object
                    held[op[1]] = op[2] if isinstance(op[2], bool) else param(op[2])
                    setattr(m, op[1], held[op[1]])
                elif op[0] == "set_copy":                            # an equal-valued copy
                    held[op[1]] = np.array(held[op[1]], dtype=float, copy=True) if isinstance(held[op[1]], np.ndarray) else float(held[op[1]])
                    setattr(m, op[1], held[op[1]])
                elif op[0] == "mutate_set":                          # edit the SAME array in place, re-assign it
                    if isinstance(held[op[1]], np.ndarray):
                        held[op[1]] *= op[2]
                    else:
                        held[op[1]] = held[op[1]] * op[2]
                    setattr(m, op[1], held[op[1]])
                elif op[0] == "notify":
                    m.Need_Update()
                elif op[0].startswith("read"):
                    f = cls(c["dim"], **{k: (np.array(v, copy=True) if isinstance(v, np.ndarray) else v) for k, v in held.items()})
                    reads.append(getter(m, op[0]))
                    fresh.append(getter(f, op[0]))
            out["lazy"].append({"reads": reads, "fresh": fresh})
        except Exception as ex:  # noqa
            out["lazy"].append({"raises": "%s: %s" % (type(ex).__name__, ex)})
    for c in req.get("boundary", []):
        try:
            cls = getattr(_laws, c["cls"])
            m = cls(c["dim"], **c["params"])
            C = m.C
            out["boundary"].append({"C": tolist(C)})
        except Exception as ex:  # noqa
            out["boundary"].append({"raises": "%s: %s" % (type(ex).__name__, str(ex)[:100])})
    json.dump(out, sys.stdout)


if __name__ == "__main__":
    main()
