"""C11 correspondence, implementation side: run EasyFEA's laws / Get_Pmat / Apply_Pmat on the
cases given on stdin (JSON) and print the outputs (JSON).  Executed with EasyFEA importable
from the tree under check."""
import json
import sys
import numpy as np


def arr(x):
    return np.asarray(x, dtype=float)


def tolist(a):
    return np.asarray(a, dtype=float).tolist()


def param(x):
    if isinstance(x, list):
        return np.asarray(x, dtype=float)
    return float(x)


def getter(m, kind):
    """one public getter of a law object -> list of arrays (nested lists)"""
    try:
        if kind == "readC":
            return [tolist(m.C)]
        if kind == "readS":
            return [tolist(m.S)]
        if kind == "readSqrt":
            a, b = m.Get_sqrt_C_S()
            return [tolist(a), tolist(b)]
        if kind == "readWalpole":
            ci, Ei = m.Walpole_Decomposition()
            return [tolist(np.asarray(ci, dtype=float)), tolist(Ei)]
        if kind == "readHet":
            return [[1.0 if m.isHeterogeneous else 0.0]]
        if kind == "readLambda":
            return [tolist(m.get_lambda())]
        if kind == "readMu":
            return [tolist(m.get_mu())]
        if kind == "readBulk":
            return [tolist(m.get_bulk())]
        if kind == "readSimpl":
            return [[float(len(m.simplification))], [1.0 if m.planeStress else 0.0]]
        if kind == "readKt":
            return [tolist(m.kt), tolist(m.Gt)]
    except Exception as ex:  # noqa
        return {"raises": "%s: %s" % (type(ex).__name__, str(ex)[:80])}
    return {"raises": "unknown getter " + kind}


def run_purity(c):
    """c: {"what": ..., "dtype": "float"|"int", ...}.  Every array argument is kept as a bitwise copy; after
    constructing / setting / reading, the arguments must be unchanged and a repetition with the SAME objects
    must give the same law."""
    from EasyFEA.Models._utils import Get_Pmat, Apply_Pmat, KelvinMandel_Matrix
    from EasyFEA.Models.Elastic import _laws
    dt = float if c["dtype"] == "float" else np.int64
    args = {k: np.array(v, dtype=(dt if k in c.get("typed", []) else float)) for k, v in c["arrays"].items()}
    before = {k: v.copy() for k, v in args.items()}
    out = {"modified": [], "repeat_err": 0.0, "steps": []}

    def check(step):
        for k in args:
            if args[k].dtype != before[k].dtype or args[k].shape != before[k].shape or args[k].tobytes() != before[k].tobytes():
                d = float(np.abs(args[k].astype(float) - before[k].astype(float)).max())
                out["modified"].append({"arg": k, "after": step, "max_change": d})
                args[k] = before[k].copy()          # restore, keep looking

    def cmp(a, b, step):
        e = float(np.abs(np.asarray(a, dtype=float) - np.asarray(b, dtype=float)).max() / max(1e-300, np.abs(np.asarray(b, dtype=float)).max()))
        if e > out["repeat_err"]:
            out["repeat_err"] = e
            out["repeat_step"] = step
    w = c["what"]
    if w == "aniso":
        ax = (args["axis1"], args["axis2"])
        m1 = _laws.Anisotropic(c["dim"], args["C"], c["voigt"], *ax)
        C1, S1 = m1.C, m1.S
        check("Anisotropic(...)")
        m2 = _laws.Anisotropic(c["dim"], args["C"], c["voigt"], *ax)            # same objects again
        cmp(m2.C, C1, "second Anisotropic(...) from the same array")
        check("second Anisotropic(...)")
        m1.Set_C(args["C"], c["voigt"])
        cmp(m1.C, C1, "Set_C with the same array")
        m1.Set_C(args["C"], c["voigt"])
        cmp(m1.C, C1, "Set_C twice")
        check("Set_C")
        cmp(m1.C, m1.C, "repeated read of C")
        cmp(m1.S, S1, "S after Set_C twice")
        a, b_ = m1.Get_sqrt_C_S()
        a2, b2 = m1.Get_sqrt_C_S()
        cmp(a2, a, "repeated Get_sqrt_C_S")
        check("reads")
        out["C00"] = [float(np.ravel(C1)[0]), float(np.ravel(m2.C)[0]), float(np.ravel(m1.C)[0])]
    elif w == "law":
        cls = getattr(_laws, c["cls"])
        kw = dict(c["scalars"])
        for k in c["fields"]:
            kw[k] = args[k]
        if c["cls"] == "TransverselyIsotropic":
            kw.update(axis_l=args["axis1"], axis_t=args["axis2"])
        elif c["cls"] == "Orthotropic":
            kw.update(axis_1=args["axis1"], axis_2=args["axis2"])
        m1 = cls(c["dim"], **kw)
        C1, S1 = m1.C, m1.S
        check("%s(...)" % c["cls"])
        m2 = cls(c["dim"], **kw)
        cmp(m2.C, C1, "second %s(...) from the same objects" % c["cls"])
        for k in c["fields"]:
            setattr(m1, k, args[k])                                              # re-assign the same object
        cmp(m1.C, C1, "C after re-assigning the same parameter objects")
        cmp(m1.S, S1, "S after re-assigning the same parameter objects")
        cmp(m1.C, m1.C, "repeated read of C")
        m1.Get_sqrt_C_S()
        try:
            m1.Walpole_Decomposition()      # raises for mixed scalar / field parameters (np.array of ragged ci): not a purity matter
        except ValueError:
            pass
        check("setters and reads")
    elif w == "out":
        # arrays handed OUT by the getters must be safe to modify in place: afterwards the law (the parameters it
        # reports, C, S) is either unchanged or consistent with a law rebuilt from what it now reports
        cls = getattr(_laws, c["cls"])
        kw = dict(c["scalars"])
        for k in c["fields"]:
            kw[k] = args[k]
        axkw = {}
        if c["cls"] == "TransverselyIsotropic":
            axkw = dict(axis_l=args["axis1"], axis_t=args["axis2"])
        elif c["cls"] == "Orthotropic":
            axkw = dict(axis_1=args["axis1"], axis_2=args["axis2"])
        m1 = cls(c["dim"], **kw, **axkw)
        C0, S0 = m1.C, m1.S
        names = list(c["fields"]) + list(c["scalars"])
        touched = []
        getters = [(n_, (lambda n_=n_: getattr(m1, n_))) for n_ in names] + [("C", lambda: m1.C), ("S", lambda: m1.S)]
        for an in ("axis_l", "axis_t", "axis_1", "axis_2"):
            if hasattr(m1, an):
                getters.append((an, (lambda an=an: getattr(m1, an))))
        for extra in ("get_lambda", "get_mu", "get_bulk"):
            if hasattr(m1, extra):
                getters.append((extra, getattr(m1, extra)))
        for pr in ("kt", "Gt"):
            if hasattr(m1, pr):
                getters.append((pr, (lambda pr=pr: getattr(m1, pr))))
        for gname, g in getters:
            x = g()
            if isinstance(x, np.ndarray) and x.flags.writeable and x.size:
                x *= c.get("factor", 0.5)                 # in-place work on the returned array
                touched.append(gname)
        now = {n_: getattr(m1, n_) for n_ in names}
        C1, S1 = m1.C, m1.S
        ref = cls(c["dim"], **{k: (np.array(v, copy=True) if isinstance(v, np.ndarray) else v) for k, v in now.items()},
                  **{k: before[a].astype(float) for k, a in zip(axkw, ("axis1", "axis2"))})
        cmp(C1, ref.C, "C after in-place edits of returned arrays vs the law rebuilt from the reported parameters")
        cmp(S1, ref.S, "S after in-place edits of returned arrays vs the law rebuilt from the reported parameters")
        out["touched"] = touched
        out["params_changed"] = [n_ for n_ in c["fields"] if not np.array_equal(np.asarray(now[n_], dtype=float), before[n_].astype(float))]
        out["law_changed"] = bool(np.abs(C1 - C0).max() > 0)
        for k in list(args):
            args[k] = before[k].copy()                   # the handed-in arrays are the subject of the other cases
    elif w == "utils":
        P1 = Get_Pmat(args["axis1"], args["axis2"])
        check("Get_Pmat")
        cmp(Get_Pmat(args["axis1"], args["axis2"]), P1, "second Get_Pmat")
        K1 = KelvinMandel_Matrix(c["dim"], args["M"])
        check("KelvinMandel_Matrix")
        cmp(KelvinMandel_Matrix(c["dim"], args["M"]), K1, "second KelvinMandel_Matrix of the same array")
        check("second KelvinMandel_Matrix")
        if c["dim"] == 3:
            Pf = np.asarray(P1, dtype=float)
            args["P"] = Pf
            before["P"] = Pf.copy()
            R1 = Apply_Pmat(args["P"], args["M"].astype(float) if args["M"].dtype != float else args["M"])
            check("Apply_Pmat")
            cmp(Apply_Pmat(args["P"], args["M"].astype(float)), R1, "second Apply_Pmat")
    return out


def main():
    from EasyFEA.Models._utils import Get_Pmat, Apply_Pmat, KelvinMandel_Matrix
    from EasyFEA.Models.Elastic import _laws
    req = json.load(sys.stdin)
    out = {"law": [], "pmat": [], "apply": [], "aniso": [], "lazy": [], "km": [], "boundary": []}
    for c in req.get("law", []):
        try:
            cls = getattr(_laws, c["cls"])
            kw = {k: param(v) for k, v in c["params"].items()}
            if c["cls"] == "Isotropic":
                m = cls(c["dim"], planeStress=c["ps"], **kw)
            elif c["cls"] == "TransverselyIsotropic":
                m = cls(c["dim"], axis_l=arr(c["axes"][0]), axis_t=arr(c["axes"][1]), planeStress=c["ps"], **kw)
            else:
                m = cls(c["dim"], axis_1=arr(c["axes"][0]), axis_2=arr(c["axes"][1]), planeStress=c["ps"], **kw)
            r = {"C": tolist(m.C), "S": tolist(m.S)}
            if c["cls"] == "Isotropic":
                r["lambda"] = tolist(m.get_lambda())
                r["mu"] = tolist(m.get_mu())
                r["bulk"] = tolist(m.get_bulk())
            out["law"].append(r)
        except Exception as ex:  # noqa
            out["law"].append({"raises": "%s: %s" % (type(ex).__name__, ex)})
    for c in req.get("pmat", []):
        try:
            if c["mandel"]:
                out["pmat"].append({"P": tolist(Get_Pmat(arr(c["a"]), arr(c["b"]), useMandel=True))})
            else:
                Ps, Pe = Get_Pmat(arr(c["a"]), arr(c["b"]), useMandel=False)
                out["pmat"].append({"Ps": tolist(Ps), "Pe": tolist(Pe)})
        except Exception as ex:  # noqa
            out["pmat"].append({"raises": "%s: %s" % (type(ex).__name__, ex)})
    for c in req.get("apply", []):
        try:
            out["apply"].append({"R": tolist(Apply_Pmat(arr(c["P"]), arr(c["M"]), toGlobal=c["toGlobal"]))})
        except Exception as ex:  # noqa
            out["apply"].append({"raises": "%s: %s" % (type(ex).__name__, ex)})
    for c in req.get("km", []):
        out["km"].append({"R": tolist(KelvinMandel_Matrix(c["dim"], arr(c["M"])))})
    for key in ("aniso", "anisof"):
        out[key] = []
        for c in req.get(key, []):
            try:
                m = _laws.Anisotropic(c["dim"], arr(c["C"]), c["voigt"], arr(c["axes"][0]), arr(c["axes"][1]))
                out[key].append({"C": tolist(m.C), "S": tolist(m.S)})
            except Exception as ex:  # noqa
                out[key].append({"raises": "%s: %s" % (type(ex).__name__, ex)})
    for c in req.get("lazy", []):
        try:
            cls = getattr(_laws, c["cls"])
            held = {k: (v if isinstance(v, bool) else param(v)) for k, v in c["init"].items()}      # the user's own objects
            m = cls(c["dim"], **held)
            reads, fresh, refused = [], [], []
            for op in c["ops"]:
                if op[0] == "set":                                   # a new object
                    held[op[1]] = op[2] if isinstance(op[2], bool) else param(op[2])
                    setattr(m, op[1], held[op[1]])
                elif op[0] == "set_copy":                            # an equal-valued copy
                    held[op[1]] = np.array(held[op[1]], dtype=float, copy=True) if isinstance(held[op[1]], np.ndarray) else float(held[op[1]])
                    setattr(m, op[1], held[op[1]])
                elif op[0] == "mutate_set":                          # edit the SAME array in place, re-assign it
                    if isinstance(held[op[1]], np.ndarray):
                        held[op[1]] *= op[2]
                    else:
                        held[op[1]] = held[op[1]] * op[2]
                    setattr(m, op[1], held[op[1]])
                elif op[0] == "set_bad":                             # an inadmissible value: must be refused AND not kept
                    bad = param(op[2])
                    try:
                        setattr(m, op[1], bad)
                        refused.append({"name": op[1], "refused": False})
                    except Exception as ex:  # noqa
                        now_ = np.asarray(getattr(m, op[1]), dtype=float)
                        old_ = np.asarray(held[op[1]], dtype=float)
                        refused.append({"name": op[1], "refused": True, "reads_back_old": bool(now_.shape == old_.shape and np.array_equal(now_, old_)),
                                        "reads_back": tolist(now_)})
                elif op[0] == "notify":
                    m.Need_Update()
                elif op[0].startswith("read"):
                    f = cls(c["dim"], **{k: (np.array(v, copy=True) if isinstance(v, np.ndarray) else v) for k, v in held.items()})
                    reads.append(getter(m, op[0]))
                    fresh.append(getter(f, op[0]))
            out["lazy"].append({"reads": reads, "fresh": fresh, "refused": refused})
        except Exception as ex:  # noqa
            out["lazy"].append({"raises": "%s: %s" % (type(ex).__name__, ex)})
    out["purity"] = []
    for c in req.get("purity", []):
        try:
            out["purity"].append(run_purity(c))
        except Exception as ex:  # noqa
            import traceback
            out["purity"].append({"raises": "%s: %s" % (type(ex).__name__, str(ex)[:200]), "tb": traceback.format_exc()[-600:]})
    for c in req.get("boundary", []):
        try:
            cls = getattr(_laws, c["cls"])
            m = cls(c["dim"], **{k: (np.array(v, dtype=float) if isinstance(v, list) else v) for k, v in c["params"].items()})
            C = m.C
            out["boundary"].append({"C": tolist(C)})
        except Exception as ex:  # noqa
            out["boundary"].append({"raises": "%s: %s" % (type(ex).__name__, str(ex)[:100])})
    json.dump(out, sys.stdout)


if __name__ == "__main__":
    main()
