"""C14 correspondence harness (runs inside the implementation environment).

stdin : {"cases": [{"type": <sim type>, "ops": [op, ...]}, ...]}
stdout: {"results": [{"flags": [[per-sim flags after op k] ...], "error": null | {...},
                      "sims": [{"mismatch": bool, "rel": {...}, "detail": str}]}]}

Each case builds a small world of REAL EasyFEA objects (meshes, one model shared by every
simulation of the case, simulations), applies the op list through the public API, records the
update flags after every op, and finally compares, for every simulation, the next matrices /
solution / results with a simulation constructed directly in the final configuration (new mesh
object with the final coordinates, new model object with the final parameters, same density,
damping, time scheme, boundary conditions and solution state).
"""
import contextlib
import copy
import io
import json
import sys
import traceback

import numpy as np

from EasyFEA import Models, Simulations, AlgoType
from EasyFEA.FEM import Mesh, ElemType
from EasyFEA.FEM._group_elem import GroupElemFactory

TOL = 1e-9


def quad_mesh(nx, ny, lx=1.0, ly=1.0, elem="QUAD4"):
    xs = np.linspace(0, lx, nx + 1)
    ys = np.linspace(0, ly, ny + 1)
    coord = np.array([[x, y, 0.0] for y in ys for x in xs])
    con = []
    for j in range(ny):
        for i in range(nx):
            a = j * (nx + 1) + i
            if elem == "TRI3":   # same nodes, every quadrangle split in two triangles
                con.append([a, a + 1, a + nx + 2])
                con.append([a, a + nx + 2, a + nx + 1])
            else:
                con.append([a, a + 1, a + nx + 2, a + nx + 1])
    et = ElemType.TRI3 if elem == "TRI3" else ElemType.QUAD4
    g = GroupElemFactory.Create(et, np.array(con), coord)
    return Mesh({et: g})


def clone_mesh(mesh):
    """a brand-new Mesh object with the same element groups, connectivity and coordinates"""
    coord = mesh.coord
    d = {}
    for et, g in mesh.dict_groupElem.items():
        d[et] = GroupElemFactory.Create(et, g.connect, coord)
    return Mesh(d)


# ---------------------------------------------------------------------------------------------
# models
# ---------------------------------------------------------------------------------------------
def make_model(typ, state):
    p = state["params"]
    if typ == "Elastic":
        return Models.Elastic.Isotropic(2, E=p["E"], v=p["v"], planeStress=True, thickness=p["thickness"])
    if typ == "Thermal":
        return Models.Thermal(k=p["k"], c=p["c"], thickness=p["thickness"])
    if typ == "PhaseField":
        mat = Models.Elastic.Isotropic(2, E=p["E"], v=p["v"], planeStress=False, thickness=p["thickness"])
        return Models.PhaseField(mat, state.get("split", "Bourdin"), "AT2", p["Gc"], p["l0"])
    if typ == "HyperElastic":
        return Models.HyperElastic.NeoHookean(2, K=p["K"], thickness=p["thickness"])
    if typ == "Beam":
        return make_beam_model(state)
    if typ == "InElastic":
        el = Models.Elastic.Isotropic(3, E=p["E"], v=p["v"])
        return Models.InElastic.Behavior(2, el, yieldSurface=Models.InElastic.Yield.VonMises(250.0),
                                         hardening=Models.InElastic.IsotropicHardening.Linear(2000.0), thickness=p["thickness"])
    if typ == "WeakForms":
        return None   # built with the simulation: the field of a weak form is bound to an element group
    raise ValueError(typ)


def make_weakforms_model(mesh, state):
    from EasyFEA.FEM import Field, BiLinearForm
    field = Field(mesh.groupElem, 1)

    @BiLinearForm
    def computeK(u, v):
        return u.grad.dot(v.grad)

    @BiLinearForm
    def computeC(u, v):
        return u.dot(v) if hasattr(u, "dot") else u * v

    return Models.WeakForms(field, computeK, computeC, computeC, thickness=state["params"]["thickness"])


DEFAULT_PARAMS = {
    "Elastic": {"E": 210000.0, "v": 0.3, "thickness": 1.0},
    "Thermal": {"k": 2.0, "c": 3.0, "thickness": 1.0},
    "PhaseField": {"E": 210000.0, "v": 0.3, "thickness": 1.0, "Gc": 2.7, "l0": 0.5},
    "HyperElastic": {"K": 5.0e4, "thickness": 1.0},
    "Beam": {"E": 210e9},
    "InElastic": {"E": 210000.0, "v": 0.3, "thickness": 1.0},
    "WeakForms": {"thickness": 1.0},
}

_BEAM = {}


def beam_parts():
    if not _BEAM:
        from EasyFEA import Mesher
        from EasyFEA.Geoms import Point, Line, Domain
        L, b = 10.0, 0.5
        mesher = Mesher()
        _BEAM["section"] = mesher.Mesh_2D(Domain(Point(-b / 2, -b / 2), Point(b / 2, b / 2), b / 2))
        _BEAM["lines"] = (Line(Point(0, 0), Point(L, 0), L / 2), Line(Point(L, 0), Point(L, L), L / 2))
        _BEAM["mesher"] = mesher
        _BEAM["L"] = L
    return _BEAM


def make_beam_model(state):
    P = beam_parts()
    with contextlib.redirect_stdout(io.StringIO()):
        beams = [Models.Beam.Isotropic(2, ln, P["section"], state["params"]["E"], 0.3) for ln in P["lines"]]
    state["beams"] = beams
    return Models.Beam.BeamStructure(beams)


def set_param(typ, model, sub, name, value):
    if typ == "InElastic" and sub:
        setattr(model.elastic, name, value)
    elif typ == "PhaseField" and sub:
        setattr(model.material, name, value)
    elif typ == "Beam":
        for b in model.beams:
            setattr(b, name, value)
    else:
        setattr(model, name, value)


# ---------------------------------------------------------------------------------------------
# simulations
# ---------------------------------------------------------------------------------------------
class SimRec:
    def __init__(self, typ, simu):
        self.typ = typ
        self.simu = simu
        self.rho = None
        self.ray = None
        self.algo = None
        self.bcs = []
        self.hist_live = False    # False: no internal variable (history field, material state) was committed / restored on the current mesh
        self.state_live = False   # False: the solution state is the blank one of a just built / just re-meshed simulation

    def flags(self):
        s = self.simu
        if self.typ == "PhaseField":
            return [bool(s._PhaseField__updatedDamage), bool(s._PhaseField__updatedDisplacement)]
        return [bool(s.needUpdate)]


def make_sim(typ, mesh, model):
    with contextlib.redirect_stdout(io.StringIO()):
        if typ == "Elastic":
            return Simulations.Elastic(mesh, model)
        if typ == "Thermal":
            return Simulations.Thermal(mesh, model)
        if typ == "PhaseField":
            return Simulations.PhaseField(mesh, model)
        if typ == "HyperElastic":
            return Simulations.HyperElastic(mesh, model, absTol=1e-9)
        if typ == "Beam":
            return Simulations.Beam(mesh, model, verbosity=False)
        if typ == "InElastic":
            return Simulations.InElastic(mesh, model, absTol=1e-9)
        if typ == "WeakForms":
            return Simulations.WeakForms(mesh, model)
    raise ValueError(typ)


NAMED = {}
VSCALE = [1.0]   # prescribed values and loads of the current case are multiplied by this factor (scaled twins)


def nodes_where(mesh, where):
    if where in NAMED:
        return NAMED[where]
    c = mesh.coord[mesh.nodes]
    eps = 1e-6 * max(float(np.ptp(c[:, 0])), float(np.ptp(c[:, 1])), 1e-300)
    if where == "left":
        sel = c[:, 0] <= c[:, 0].min() + eps
    elif where == "right":
        sel = c[:, 0] >= c[:, 0].max() - eps
    elif where == "bottom":
        sel = c[:, 1] <= c[:, 1].min() + eps
    elif where == "top":
        sel = c[:, 1] >= c[:, 1].max() - eps
    elif where.startswith("idx:"):
        return np.array([int(x) for x in where[4:].split(",")])
    else:
        raise ValueError(where)
    return mesh.nodes[sel]


def apply_bc(rec, bc):
    s = rec.simu
    kind, where, values = bc["kind"], bc["where"], [v_ * VSCALE[0] for v_ in bc["values"]]
    # node sets are resolved once, on the simulation the user acted on; the fresh reference gets the
    # same node indices (same numbering), not a re-evaluation of the selector on moved coordinates
    if "nodes" not in bc:
        bc["nodes"] = [int(n) for n in nodes_where(s.mesh, where)]
    nodes = np.array(bc["nodes"], dtype=int)
    if rec.typ == "Thermal":
        unk = ["t"]
    elif rec.typ == "WeakForms":
        unk = ["u"]
    elif rec.typ == "Beam":
        unk = ["x", "y", "rz"]
    else:
        unk = ["x", "y"]
    unk = unk[:len(values)]
    if kind == "dirichlet":
        if rec.typ == "PhaseField" and bc.get("damage"):
            s.add_dirichlet(nodes, [values[0]], ["d"], problemType="damage")
        else:
            s.add_dirichlet(nodes, values, unk)
    elif kind == "neumann":
        s.add_neumann(nodes, values, unk)
    elif kind == "lagrange":
        s.add_connection_fixed(nodes)
    else:
        raise ValueError(kind)


def apply_algo(rec, a):
    s = rec.simu
    if a["kind"] == "elliptic":
        s.Solver_Set_Elliptic_Algorithm()
    elif a["kind"] == "parabolic":
        s.Solver_Set_Parabolic_Algorithm(a["dt"], a.get("alpha", 0.5))
    elif a["kind"] == "hyperbolic":
        s.Solver_Set_Hyperbolic_Algorithm(a["dt"], algo=getattr(AlgoType, a.get("scheme", "newmark")))
    else:
        raise ValueError(a)


def do_solve(rec):
    s = rec.simu
    with contextlib.redirect_stdout(io.StringIO()):
        if rec.typ == "PhaseField":
            return s.Solve(tolConv=1.0, convOption=0)
        return s.Solve()


class World:
    def __init__(self, typ, opts):
        self.typ = typ
        VSCALE[0] = float(opts.get("vscale", 1.0))
        self.state = {"params": dict(DEFAULT_PARAMS[typ]), "split": opts.get("split", "Bourdin")}
        self.scale = 1.0
        self.model = make_model(typ, self.state)
        if typ == "Beam":
            P = beam_parts()
            with contextlib.redirect_stdout(io.StringIO()):
                self.meshes = [P["mesher"].Mesh_Beams(self.state["beams"], elemType="SEG2")]
        else:
            self.scale = float(opts.get("scale", 1.0))
            self.meshes = [quad_mesh(2, 2, self.scale, self.scale)]
        self.sims = []

    def step(self, op):
        k = op["op"]
        if k == "newsim":
            if self.typ == "WeakForms" and self.model is None:
                self.model = make_weakforms_model(self.meshes[op["m"]], self.state)
            simu = make_sim(self.typ, self.meshes[op["m"]], self.model)
            if self.typ == "Beam":
                # the Beam simulation works on its own (beam-element) mesh object
                self.meshes[op["m"]] = simu.mesh
                from EasyFEA.Geoms import Point
                L = beam_parts()["L"]
                NAMED["clamp"] = simu.mesh.Nodes_Point(Point(0, 0))
                NAMED["corner"] = simu.mesh.Nodes_Point(Point(L, 0))
                NAMED["tip"] = simu.mesh.Nodes_Point(Point(L, L))
            self.sims.append(SimRec(self.typ, simu))
        elif k == "newmesh" and self.typ == "Beam":
            P = beam_parts()
            m = P["mesher"].Mesh_Beams(self.state["beams"], elemType="SEG2")
            m.coord = m.coord * op.get("lx", 1.0)
            self.meshes.append(m)
        elif k == "newmesh":
            self.meshes.append(quad_mesh(op["nx"], op["ny"], op.get("lx", 1.0) * self.scale, op.get("ly", 1.0) * self.scale, op.get("elem", "QUAD4")))
        elif k == "param" and op.get("near") is not None:
            # near-equal change of the CURRENT value: 1e-6 relative, or one unit in the last place
            cur_ = float(self.state["params"][op["name"]])
            val_ = float(np.nextafter(cur_, np.inf)) if op["near"] == "ulp" else cur_ * (1.0 + 1.0e-6)
            self.state.pop("C_override", None)
            self.state.pop("arr_" + op["name"], None)
            self.state["params"][op["name"]] = val_
            set_param(self.typ, self.model, op.get("sub", False), op["name"], val_)
        elif k == "param":
            self.state.pop("C_override", None)   # the lazy update of the law recomputes C from its parameters
            self.state.pop("arr_" + op["name"], None)
            self.state["params"][op["name"]] = op["value"]
            set_param(self.typ, self.model, op.get("sub", False), op["name"], op["value"])
        elif k == "assignC":
            # direct assignment of the stiffness matrix of an elastic law through its public `C` setter
            law = self.model.material if self.typ == "PhaseField" else self.model
            C = law.C
            C[0, 1] *= op["factor"]
            C[1, 0] *= op["factor"]
            law.C = C
            self.state["C_override"] = C.copy()
        elif k == "param_arr":
            # array-valued parameter (one value per element of mesh 0).  same=False: a NEW array object is assigned;
            # same=True: the array object assigned before is edited IN PLACE by the user and assigned again
            Ne = self.meshes[0].Ne
            vals = op["base"] * (1.0 + op["amp"] * np.cos(np.arange(Ne) * op["freq"]))
            name = op["name"]
            if op.get("same") and self.state.get("arr_" + name) is not None:
                arr = self.state["arr_" + name]
                arr[:] = vals
            else:
                arr = np.array(vals)
                self.state["arr_" + name] = arr
            self.state["params"][name] = arr.copy()
            set_param(self.typ, self.model, op.get("sub", False), name, arr)
        elif k == "move":
            m = self.meshes[op["m"]]
            kind = op["kind"]
            sc = self.scale
            if kind == "Translate":
                m.Translate(*[a * sc for a in op["args"]])
            elif kind == "Rotate":
                m.Rotate(op["args"][0], (0.5 * sc, 0.5 * sc, 0))
            elif kind == "Symmetry":
                m.Symmetry((0.5 * sc, 0, 0), (1, 0, 0))
            elif kind == "Perturb":
                # one node moved by a tiny amount (shape sensitivity by finite differences) through the coord setter
                c = m.coord
                n = int(m.nodes[min(int(op["args"][0] * m.nodes.size), m.nodes.size - 1)])
                size = float(np.abs(c).max()) or 1.0
                c[n, 0] += op["args"][1] * size
                c[n, 1] += op["args"][2] * size
                m.coord = c
            elif kind == "CoordSet":
                c = m.coord
                c[:, 0] = c[:, 0] * op["args"][0]
                c[:, 1] = c[:, 1] * op["args"][1]
                m.coord = c
            else:
                raise ValueError(kind)
        elif k == "georead":
            m = self.meshes[op["m"]]
            _ = m.area if m.dim == 2 else m.length
        else:
            rec = self.sims[op["i"]]
            s = rec.simu
            if k == "rho":
                s.rho = op["value"]
                rec.rho = op["value"]
            elif k == "rho_arr":
                # per-element density; shared=True: every simulation is handed THE SAME ndarray object
                Ne = s.mesh.Ne
                if op.get("shared"):
                    if self.state.get("rho_shared") is None or self.state["rho_shared"].size != Ne:
                        self.state["rho_shared"] = op["base"] * (1.0 + 0.5 * np.cos(np.arange(Ne)))
                    arr = self.state["rho_shared"]
                else:
                    arr = op["base"] * (1.0 + 0.5 * np.sin(np.arange(Ne)))
                s.rho = arr
                rec.rho = arr.copy()          # what the user asked for, kept aside
            elif k == "rho_aug":
                # augmented assignment through the descriptor: get, in-place operator, set
                if op.get("plus"):
                    s.rho += op["factor"]
                    rec.rho = rec.rho + op["factor"]
                else:
                    s.rho *= op["factor"]
                    rec.rho = rec.rho * op["factor"]
            elif k == "ray":
                s.Set_Rayleigh_Damping_Coefs(op["coefM"], op["coefK"])
                rec.ray = (op["coefM"], op["coefK"])
            elif k == "setmesh":
                s.mesh = self.meshes[op["m"]]
                rec.bcs = []
                rec.state_live = False
                rec.hist_live = False
            elif k == "bcinit":
                s.Bc_Init()
                rec.bcs = []
            elif k in ("dirichlet", "neumann", "lagrange"):
                bc = {"kind": k, "where": op["where"], "values": op.get("values", []), "damage": op.get("damage", False)}
                apply_bc(rec, bc)
                rec.bcs.append(bc)
            elif k == "algo":
                apply_algo(rec, op)
                rec.algo = op
            elif k == "getk":
                if rec.typ == "PhaseField":
                    s.Get_K_C_M_F("damage" if op.get("dmg") else "elastic")
                elif rec.typ not in ("HyperElastic", "InElastic"):
                    s.Get_K_C_M_F()
            elif k == "solve":
                rec.state_live = True
                do_solve(rec)
            elif k == "saveiter":
                rec.hist_live = True
                s.Save_Iter()
            elif k == "setiter":
                rec.hist_live = True
                rec.state_live = True
                s.Set_Iter(op["j"])
            else:
                raise ValueError(k)

    # -----------------------------------------------------------------------------------------
    def fresh(self, rec):
        """a simulation constructed directly in the final configuration of rec"""
        s = rec.simu
        state = {"params": {k_: (v_.copy() if isinstance(v_, np.ndarray) else v_) for k_, v_ in self.state["params"].items()},
                 "split": self.state["split"]}
        model = make_model(self.typ, state)
        if self.state.get("C_override") is not None:
            law_ = model.material if self.typ == "PhaseField" else model
            _ = law_.C   # the new law first performs its lazy update from E, v; the assigned matrix then replaces it
            law_.C = self.state["C_override"].copy()
        if self.typ == "Beam":
            # Beam builds its own beam-element mesh from the coordinates of the mesh it is given
            P = beam_parts()
            with contextlib.redirect_stdout(io.StringIO()):
                base = P["mesher"].Mesh_Beams(state["beams"], elemType="SEG2")
            base.coord = s.mesh.coord
            mesh = base
        else:
            mesh = clone_mesh(s.mesh)
        if self.typ == "WeakForms":
            model = make_weakforms_model(mesh, state)
        f = make_sim(self.typ, mesh, model)
        frec = SimRec(self.typ, f)
        if rec.rho is not None:
            f.rho = rec.rho.copy() if isinstance(rec.rho, np.ndarray) else rec.rho
        if rec.ray is not None:
            f.Set_Rayleigh_Damping_Coefs(*rec.ray)
        if rec.algo is not None:
            apply_algo(frec, rec.algo)
        for bc in rec.bcs:
            apply_bc(frec, bc)
        frec.bcs = list(rec.bcs)
        if not rec.state_live:
            # nothing was solved / restored since the simulation was built or re-meshed: the reference keeps the
            # blank state of a new simulation (a mesh replacement must not carry the old fields over)
            return frec
        for pt in s.Get_problemTypes():
            u_, v_, a_ = s._Get_u_n(pt), s._Get_v_n(pt), s._Get_a_n(pt)
            # rate vectors a class never uses (elliptic-only classes) may still have the size of a previous mesh
            f._Set_solutions(pt, u_, v_ if v_.shape == u_.shape else None, a_ if a_.shape == u_.shape else None)
        if not rec.hist_live:
            return frec   # internal variables of a previous mesh must not be carried over: the reference keeps blank ones
        if self.typ == "InElastic":
            f._InElastic__zOld = copy.deepcopy(s._InElastic__zOld)
            f._InElastic__z = copy.deepcopy(s._InElastic__z)
        if self.typ == "PhaseField":
            f._PhaseField__old_psiP_e_pg = copy.deepcopy(s._PhaseField__old_psiP_e_pg)
            f._PhaseField__psiP_e_pg = copy.deepcopy(s._PhaseField__psiP_e_pg)
        return frec

    def ensure_wellposed(self, rec, frec):
        if not any(b["kind"] == "dirichlet" and not b.get("damage") for b in rec.bcs):
            vals = {"Thermal": [1.0], "WeakForms": [1.0], "Beam": [0.0, 0.0, 0.0]}.get(self.typ, [0.0, 0.0])
            bc = {"kind": "dirichlet", "where": "clamp" if self.typ == "Beam" else "left", "values": vals, "damage": False}
            for r in (rec, frec):
                apply_bc(r, bc)
                r.bcs.append(bc)
        if not any(b["kind"] == "neumann" for b in rec.bcs):
            vals = {"Thermal": [5.0], "WeakForms": [5.0], "Beam": [0.0, 1000.0]}.get(self.typ, [0.0, 10.0])
            where = "tip" if self.typ == "Beam" else "right"
            bc = {"kind": "neumann", "where": where, "values": vals, "damage": False}
            for r in (rec, frec):
                apply_bc(r, bc)
                r.bcs.append(bc)

    def observe(self, rec, skip=()):
        """ordered list of (name, array | exception text)"""
        s = rec.simu
        out = []

        def grab(name, fn):
            try:
                with contextlib.redirect_stdout(io.StringIO()):
                    v = fn()
                if hasattr(v, "toarray"):
                    v = v.toarray()
                out.append((name, np.asarray(v, dtype=float)))
            except Exception as ex:  # noqa
                out.append((name, "EXC %s: %s" % (type(ex).__name__, str(ex)[:120])))

        # the live fields, read BEFORE the next solve
        for pt in s.Get_problemTypes():
            grab("u_now:%s" % pt, lambda pt=pt: s._Get_u_n(pt))
            if rec.typ != "PhaseField":   # a phase-field simulation is quasi-static: it never reads its rate vectors
                grab("v_now:%s" % pt, lambda pt=pt: s._Get_v_n(pt))
                grab("a_now:%s" % pt, lambda pt=pt: s._Get_a_n(pt))
        if rec.typ == "PhaseField":
            # ONE evaluation right after the last change: derived quantities cached on the model must be fresh
            grab("psiP", lambda: s.Result("psiP", nodeValues=False))
            for nm, pt in (("Ku", "elastic"), ("Kd", "damage")):
                if nm not in skip:
                    grab(nm, lambda pt=pt: s.Get_K_C_M_F(pt)[0])
            grab("Fd", lambda: s.Get_K_C_M_F("damage")[3])
            grab("solve_u", lambda: do_solve(rec)[0])
            grab("damage", lambda: s.damage)
        elif rec.typ == "InElastic":
            grab("solve_u", lambda: do_solve(rec))
            grab("Svm", lambda: s.Result("Svm", nodeValues=False))
            grab("state", lambda: np.concatenate([np.asarray(a, dtype=float).ravel() for a in s._InElastic__z.values()]))
        elif rec.typ == "HyperElastic":
            grab("solve_u", lambda: do_solve(rec))
            grab("v", lambda: s._Get_v_n(s.problemType))
            grab("a", lambda: s._Get_a_n(s.problemType))
            # the matrices of the last Newton iterate (same state on both sides): mass and damping included
            for j, nm in enumerate("KCMF"):
                grab(nm + "_last", lambda j=j: s.Get_K_C_M_F()[j])
            grab("Svm", lambda: s.Result("Svm", nodeValues=False))
        else:
            for j, nm in enumerate("KCMF"):
                grab(nm, lambda j=j: s.Get_K_C_M_F()[j])
            grab("solve_u", lambda: do_solve(rec))
            grab("v", lambda: s._Get_v_n(s.problemType))
            if rec.typ == "Elastic":
                grab("Svm", lambda: s.Result("Svm", nodeValues=False))
                grab("Wdef", lambda: s.Result("Wdef"))
            elif rec.typ == "Thermal":
                grab("thermal", lambda: s.Result("thermal"))
            elif rec.typ == "Beam":
                grab("ux", lambda: s.Result("ux"))
            elif rec.typ == "WeakForms":
                grab("u", lambda: s.Result("u"))
        return out


def compare(a, b):
    rel = {}
    bad = []
    for (n1, x), (n2, y) in zip(a, b):
        if isinstance(x, str) or isinstance(y, str):
            same = isinstance(x, str) and isinstance(y, str)
            rel[n1] = 0.0 if same else float("inf")
            if not same:
                bad.append("%s: modified=%s fresh=%s" % (n1, x if isinstance(x, str) else "ok", y if isinstance(y, str) else "ok"))
            continue
        if x.shape != y.shape:
            rel[n1] = float("inf")
            bad.append("%s: shape %s vs fresh %s" % (n1, x.shape, y.shape))
            continue
        scale = max(float(np.abs(y).max()) if y.size else 0.0, 1e-300)
        r = float(np.abs(x - y).max()) / scale if y.size else 0.0
        if not np.isfinite(r):
            r = 0.0 if (np.isnan(x) == np.isnan(y)).all() else float("inf")
        rel[n1] = r
        if r > TOL:
            bad.append("%s: rel diff %.3e" % (n1, r))
    return rel, bad


def fresh_also_raises(case, k):
    """op k raised on the modified simulation: does it also raise on a simulation freshly built in
    the configuration reached after ops[:k]?  (then the sequence itself is invalid -- e.g. a Newton
    divergence -- and says nothing about caches).  None when it cannot be decided."""
    op = case["ops"][k]
    if "i" not in op:
        return None
    try:
        w = World(case["type"], case.get("opts", {}))
        with contextlib.redirect_stdout(io.StringIO()):
            for o in case["ops"][:k]:
                w.step(o)
            frec = w.fresh(w.sims[op["i"]])
            w.sims[op["i"]] = frec
    except Exception:  # noqa
        return None
    try:
        with contextlib.redirect_stdout(io.StringIO()):
            w.step(op)
    except Exception as ex:  # noqa
        return "%s: %s" % (type(ex).__name__, str(ex)[:120])
    return False


def run_case(case):
    res = {"flags": [], "error": None, "sims": []}
    try:
        w = World(case["type"], case.get("opts", {}))
    except Exception as ex:  # noqa
        res["error"] = {"at": -1, "what": "%s: %s" % (type(ex).__name__, ex), "tb": traceback.format_exc()[-1500:]}
        return res
    for k, op in enumerate(case["ops"]):
        try:
            with contextlib.redirect_stdout(io.StringIO()):
                w.step(op)
        except Exception as ex:  # noqa
            res["error"] = {"at": k, "what": "%s: %s" % (type(ex).__name__, str(ex)[:200]), "tb": traceback.format_exc()[-1500:],
                            "fresh_also_raises": fresh_also_raises(case, k)}
            return res
        res["flags"].append([r.flags() for r in w.sims])
    for rec in w.sims:
        try:
            frec = w.fresh(rec)
            w.ensure_wellposed(rec, frec)
            skip = set()
            if rec.typ == "PhaseField" and rec.flags()[1]:
                # the displacement system is flagged up to date: it was linearised at the displacement of the
                # previous staggered pass (lag by design of the scheme, the next Solve rebuilds it) -- equality
                # with a simulation that assembles at the current displacement is not claimed for it
                skip.add("Ku")
            rel, bad = compare(w.observe(rec, skip), w.observe(frec, skip))
            res["sims"].append({"mismatch": bool(bad), "rel": rel, "detail": "; ".join(bad[:4])})
        except Exception as ex:  # noqa
            res["sims"].append({"mismatch": True, "rel": {}, "detail": "harness exception %s: %s" % (type(ex).__name__, str(ex)[:200]),
                                "tb": traceback.format_exc()[-1500:], "harness_error": True})
    return res


def main():
    req = json.load(sys.stdin)
    out = {"results": [run_case(c) for c in req["cases"]]}
    json.dump(out, sys.stdout)


if __name__ == "__main__":
    main()
