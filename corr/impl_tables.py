"""Run in the implementation's environment: evaluate every shape-function / Hermite lambda
that the running EasyFEA returns at the points given on stdin (JSON {"points": {dim: [[..]]}}),
print JSON {elem: {table: [[[value per point]]]}} (None where the call raises)."""
import json, sys
import numpy as np
from EasyFEA.FEM._group_elem import GroupElemFactory
from EasyFEA.FEM._utils import ElemType
from EasyFEA.FEM.Elems import _beam

req = json.load(sys.stdin)
out = {"lagrange": {}, "hermite": {}}

def make(elemType):
    gid, nPe, dim = GroupElemFactory.DICT_ELEMTYPE[elemType][:3]
    cls = GroupElemFactory.GROUP_CLASS_MAP[elemType]
    connect = np.arange(nPe, dtype=int).reshape(1, -1)
    coords = np.zeros((nPe, 3))
    return cls, gid, connect, coords, dim

def table_vals(fn, pts):
    try:
        T = fn()
    except Exception as e:
        return {"raises": type(e).__name__}
    T = np.asarray(T, dtype=object)
    rows = []
    for r in T:
        rows.append([[float(f(*p)) for p in pts] for f in np.atleast_1d(r)])
    return {"values": rows}

for elemType in GroupElemFactory.DICT_ELEMTYPE:
    if elemType == ElemType.POINT:
        continue
    cls, gid, connect, coords, dim = make(elemType)
    g = cls(gid, connect, coords)
    pts = req["points"][str(dim)]
    d = {"local_coords": np.asarray(g.Get_Local_Coords(), dtype=float).tolist(), "dim": g.dim, "order": g.order, "nPe": g.nPe}
    for t in ["_N", "_dN", "_ddN", "_dddN", "_ddddN"]:
        d[t] = table_vals(getattr(g, t), pts)
    d["N_at_nodes"] = table_vals(g._N, np.asarray(g.Get_Local_Coords(), dtype=float).tolist())
    out["lagrange"][elemType.name if hasattr(elemType, "name") else str(elemType)] = d

for k in (2, 3, 4, 5):
    name = "EULER_BERNOULLI%d" % k
    cls = getattr(_beam, name)
    segType = getattr(ElemType, "SEG%d" % k)
    gid, nPe, dim = GroupElemFactory.DICT_ELEMTYPE[segType][:3]
    g = cls(gid, np.arange(nPe, dtype=int).reshape(1, -1), np.zeros((nPe, 3)))
    pts = req["points"]["1"]
    d = {}
    for t in ["_Hermitian_N", "_Hermitian_dN", "_Hermitian_ddN", "_Hermitian_dddN"]:
        d[t] = table_vals(getattr(g, t), pts)
    out["hermite"][name] = d
json.dump(out, sys.stdout)
