"""C16 correspondence harness (runs inside the implementation environment).

For every simulation type: build a small mesh (mixed element groups where the simulation
supports them, integer coordinates), inject INTEGER-valued (dyadic for HyperElastic) random
states u, v, a through the private setter `_Set_solutions`, query every name of
`Results_Available()` in nodal and element form and compare with values recomputed here from
the injected vectors / the full strain and stress arrays, independently of the dispatch in
`Result()`.

stdin : {"seed": int, "tier": "quick"|"thorough", "only": [simkey...]|null, "names": [..]|null}
stdout: {"cases": [...], "sims": {...}}   (one record per (simkey, name, form))
"""
import io
import os
import json
import sys
import contextlib
import traceback

import numpy as np

TOL = 1e-10
SQ2 = np.sqrt(2.0)


# ------------------------------------------------------------------------------------------
# meshes (no gmsh): integer coordinates, sizes chosen so that Nn*k is never a multiple of Ne
# and Ne*k never a multiple of Nn (k = number of columns) -- Results_Reshape_values guesses the
# storage location from these sizes; the ambiguous case is probed separately (probe_reshape).
# ------------------------------------------------------------------------------------------
def _mesh(groups, coord):
    from EasyFEA.FEM import Mesh, ElemType
    from EasyFEA.FEM._group_elem import GroupElemFactory
    coord = np.asarray(coord, dtype=float)
    d = {}
    for et, conn in groups:
        t = getattr(ElemType, et)
        d[t] = GroupElemFactory.Create(t, np.asarray(conn, dtype=int), coord)
    return Mesh(d)


def mesh_2d_mixed():
    coord = [[0, 0, 0], [2, 0, 0], [4, 0, 0], [0, 2, 0], [2, 2, 0], [4, 2, 0], [6, 1, 0]]
    return _mesh([("QUAD4", [[0, 1, 4, 3]]), ("TRI3", [[1, 2, 5], [1, 5, 4], [2, 6, 5]])], coord)


def mesh_2d_fan():
    coord = [[0, 0, 0], [2, 0, 0], [1, 2, 0], [-1, 2, 0], [-2, 0, 0], [-1, -2, 0], [1, -2, 0]]
    return _mesh([("TRI3", [[0, 1, 2], [0, 2, 3], [0, 3, 4], [0, 4, 5], [0, 5, 6], [0, 6, 1]])], coord)


def mesh_3d_mixed():
    coord = []
    for i in range(4):
        coord += [[2 * i, 0, 0], [2 * i, 2, 0], [2 * i, 2, 2], [2 * i, 0, 2]]
    coord += [[8, 1, 0], [8, 1, 2]]

    def hexa(i):
        a, b = 4 * i, 4 * (i + 1)
        return [a, b, b + 1, a + 1, a + 3, b + 3, b + 2, a + 2]
    hexas = [hexa(i) for i in range(3)]
    # prism on the face x = 6: nodes 12 (6,0,0) 13 (6,2,0) 14 (6,2,2) 15 (6,0,2); new 16 (8,1,0) 17 (8,1,2)
    prism = [[12, 16, 13, 15, 17, 14]]
    return _mesh([("HEXA8", hexas), ("PRISM6", prism)], coord)


def mesh_3d_tets():
    coord = [[0, 0, 0], [2, 0, 0], [0, 2, 0], [0, 0, 2], [2, 2, 2]]
    return _mesh([("TETRA4", [[0, 1, 2, 3], [1, 2, 3, 4]])], coord)


def mesh_quad1():
    return _mesh([("QUAD4", [[0, 1, 2, 3]])], [[0, 0, 0], [2, 0, 0], [2, 2, 0], [0, 2, 0]])


def mesh_beam(dim):
    from EasyFEA import Mesher, ElemType, Models
    from EasyFEA.Geoms import Point, Line, Domain
    mesher = Mesher()
    sec = mesher.Mesh_2D(Domain(Point(-0.5, -0.5), Point(0.5, 0.5)))
    line = Line(Point(), Point(x=4), 1.0)
    beam = Models.Beam.Isotropic(dim, line, sec, 8.0, 0.25)
    mesh = mesher.Mesh_Beams([beam], elemType=ElemType.SEG2)
    return mesh, Models.Beam.BeamStructure([beam])


# ------------------------------------------------------------------------------------------
def build(simkey):
    """-> (simu, meta)  meta: cls, cfg (translator configuration name), dim, dof_n, scale"""
    from EasyFEA import Models, Simulations
    from EasyFEA.FEM import Field, BiLinearForm
    cls, var = simkey.split(":")
    meta = {"cls": cls, "scale": 1.0}
    if cls == "Elastic":
        if var == "2d":
            m, dim = mesh_2d_mixed(), 2
            mat = Models.Elastic.Isotropic(2, E=8.0, v=0.25, planeStress=True, thickness=1.5)
        elif var == "2d-strain":
            m, dim = mesh_2d_fan(), 2
            mat = Models.Elastic.Isotropic(2, E=8.0, v=0.25, planeStress=False, thickness=2.0)
        else:
            m, dim = (mesh_3d_mixed() if var == "3d" else mesh_3d_tets()), 3
            mat = Models.Elastic.Isotropic(3, E=8.0, v=0.25, thickness=2.5)
        s = Simulations.Elastic(m, mat)
        meta.update(cfg="dim%d" % dim, dim=dim, dof_n=dim)
    elif cls == "PhaseField":
        dim = 2 if var == "2d" else 3
        m = mesh_2d_mixed() if dim == 2 else mesh_3d_mixed()
        mat = Models.Elastic.Isotropic(dim, E=8.0, v=0.25, planeStress=True, thickness=1.5) if dim == 2 else Models.Elastic.Isotropic(3, E=8.0, v=0.25, thickness=2.5)
        s = Simulations.PhaseField(m, Models.PhaseField(mat, "Bourdin", "AT2", 1.0, 0.5))
        meta.update(cfg="dim%d" % dim, dim=dim, dof_n=dim)
    elif cls == "HyperElastic":
        d, dyn = var.split("-")
        dim = 2 if d == "2d" else 3
        m = mesh_2d_mixed() if dim == 2 else mesh_3d_mixed()
        s = Simulations.HyperElastic(m, Models.HyperElastic.NeoHookean(dim, K=5.0, thickness=1.5 if dim == 2 else 2.5))
        if dyn == "dynamic":
            s.Solver_Set_Hyperbolic_Algorithm(dt=0.125)
        meta.update(cfg="dim%d_%s" % (dim, dyn), dim=dim, dof_n=dim, scale=1.0 / 32)
    elif cls == "InElastic":
        from EasyFEA.Models.Elastic import Isotropic
        dim = 2 if var.startswith("2d") else 3
        m = mesh_2d_mixed() if dim == 2 else mesh_3d_mixed()
        kw = dict(thickness=1.5) if dim == 2 else dict(thickness=2.5)
        plastic = var.endswith("p")
        if plastic:
            kw.update(yieldSurface=Models.InElastic.Yield.VonMises(250.0), hardening=Models.InElastic.IsotropicHardening.Linear(2000.0))
        s = Simulations.InElastic(m, Models.InElastic.Behavior(dim, Isotropic(3, E=8.0, v=0.25), **kw))
        meta.update(cfg="dim%d%s" % (dim, "_slots" if plastic else ""), dim=dim, dof_n=dim)
    elif cls == "Thermal":
        m = mesh_2d_mixed()
        s = Simulations.Thermal(m, Models.Thermal(k=1, c=1, thickness=1.5))
        meta.update(cfg="any", dim=2, dof_n=1)
    elif cls == "WeakForms":
        dof = int(var[-1])
        m = mesh_3d_tets() if dof == 3 else mesh_2d_fan()
        field = Field(m.groupElem, dof)

        @BiLinearForm
        def bf(u, v):
            return u.grad.dot(v.grad) if dof == 1 else u.grad.ddot(v.grad)
        s = Simulations.WeakForms(m, Models.WeakForms(field, bf, thickness=1.5))
        meta.update(cfg="dof%d" % dof, dim=m.dim, dof_n=dof)
    elif cls == "Beam":
        dim = int(var[0])
        timo = var.endswith("T")
        m, st = mesh_beam(dim)
        s = Simulations.Beam(m, st, useTimoshenko=True) if timo else Simulations.Beam(m, st)
        meta.update(cfg="dim1" if dim == 1 else "dim%d_%s" % (dim, "Timo" if timo else "EB"), dim=dim, dof_n=st.dof_n)
    else:
        raise ValueError(simkey)
    return s, meta


SIMKEYS_QUICK = ["Elastic:2d", "Elastic:3d", "WeakForms:dof2", "WeakForms:dof3", "WeakForms:dof1", "PhaseField:2d", "PhaseField:3d",
                 "HyperElastic:2d-dynamic", "HyperElastic:3d-static", "InElastic:2d", "InElastic:3dp", "Thermal:2d",
                 "Beam:1", "Beam:2", "Beam:3"]
SIMKEYS_THOROUGH = SIMKEYS_QUICK + ["Elastic:2d-strain", "Elastic:3d-tets", "HyperElastic:2d-static", "HyperElastic:3d-dynamic",
                                    "InElastic:2dp", "InElastic:3d", "Beam:2T", "Beam:3T"]


# ------------------------------------------------------------------------------------------
def inject(simu, meta, rng, const=None):
    Nn = simu.mesh.Nn
    n = Nn * meta["dof_n"]

    def vec(size):
        if const is not None:
            return np.full(size, float(const))
        return rng.integers(-6, 7, size).astype(float) * meta["scale"]
    st = {"u": vec(n), "v": vec(n), "a": vec(n)}
    if meta["cls"] == "PhaseField":
        st["d"] = rng.integers(0, 2, Nn).astype(float) * 0.5 if const is None else np.full(Nn, 0.25)
        simu._Set_solutions(simu.ProblemTypes.elastic, st["u"].copy(), st["v"].copy(), st["a"].copy())
        simu._Set_solutions(simu.ProblemTypes.damage, st["d"].copy())
    else:
        simu._Set_solutions(simu.problemType, st["u"].copy(), st["v"].copy(), st["a"].copy())
    return st


def groups(simu):
    return simu.mesh.Get_list_groupElem(simu.mesh.dim)


def node_to_elem(simu, q):
    q = np.asarray(q, dtype=float)
    q2 = q.reshape(simu.mesh.Nn, -1)
    out = np.concatenate([np.array([[np.sum(q2[list(e), c]) / len(e) for c in range(q2.shape[1])] for e in g.connect]) for g in groups(simu)])
    return out


def elem_to_node(simu, qe):
    qe = np.asarray(qe, dtype=float)
    Ne = simu.mesh.Ne
    q2 = qe.reshape(Ne, -1)
    Nn = simu.mesh.Nn
    acc = np.zeros((Nn, q2.shape[1]))
    cnt = np.zeros(Nn)
    e0 = 0
    for g in groups(simu):
        for i, e in enumerate(g.connect):
            for n in set(int(x) for x in e):
                acc[n] += q2[e0 + i]
                cnt[n] += 1
        e0 += g.Ne
    return acc / cnt[:, None]


def tensors(simu, meta, kind):
    """list over groups of the (Ne, nPg, ncomp) strain/stress arrays, from the class's own
    field computation (NOT through Result())"""
    cls = meta["cls"]
    out = []
    if cls == "Beam":
        eps = simu._Calc_Epsilon_e_pg(simu.displacement)
        return [np.array(np.asarray(eps if kind == "strain" else simu._Calc_Sigma_e_pg(eps)))]
    for g in groups(simu):
        if cls in ("Elastic", "PhaseField"):
            eps = simu._Calc_Epsilon_e_pg(simu.displacement, g)
            T = eps if kind == "strain" else simu._Calc_Sigma_e_pg(eps, g)
        elif cls == "HyperElastic":
            T = simu._Calc_GreenLagrange(groupElem=g) if kind == "strain" else simu._Calc_SecondPiolaKirchhoff(groupElem=g)
        elif cls == "InElastic":
            eps = simu._Calc_Epsilon_e_pg(simu.displacement, g)
            if kind == "strain":
                T = eps
            else:
                from EasyFEA.FEM import MatrixType
                z = simu._InElastic__Get_state(g, MatrixType.rigi)
                T = simu.material.Compute_stress(eps, z)
        else:
            raise ValueError(cls)
        out.append(np.array(np.asarray(T), dtype=float))   # copy: Result() rescales in place
    return out


def strain_from_gradient(simu, meta):
    """Kelvin-Mandel small strain per group computed here from the shape-function gradients"""
    from EasyFEA.FEM import MatrixType
    dim = meta["dim"]
    out = []
    u = simu.displacement.reshape(simu.mesh.Nn, dim)
    for g in groups(simu):
        dN = np.asarray(g.Get_dN_e_pg(MatrixType.rigi))        # (Ne, nPg, dim, nPe)
        ue = u[g.connect]                                       # (Ne, nPe, dim)
        grad = np.einsum("epdn,eni->epid", dN, ue)              # du_i/dx_d
        eps = 0.5 * (grad + np.swapaxes(grad, 2, 3))
        if dim == 2:
            km = np.stack([eps[..., 0, 0], eps[..., 1, 1], SQ2 * eps[..., 0, 1]], axis=-1)
        else:
            km = np.stack([eps[..., 0, 0], eps[..., 1, 1], eps[..., 2, 2], SQ2 * eps[..., 1, 2], SQ2 * eps[..., 0, 2], SQ2 * eps[..., 0, 1]], axis=-1)
        out.append(km)
    return out


def elem_energy(simu, meta, u):
    """1/2 u_e' K_e u_e per element, from the simulation's own local matrices (thickness as the
    ASSEMBLY applies it), elements ordered like Get_list_groupElem"""
    dim = meta["dim"]
    local = simu.Construct_local_matrix_system(simu.problemType)
    out = []
    for g in groups(simu):
        Ke = np.asarray(local[g][0])
        ue = u[np.asarray(g.Get_assembly_e(dim))]
        out.append(0.5 * np.einsum("ei,eij,ej->e", ue, Ke, ue))
    return np.concatenate(out)


def hyper_energy(simu, meta):
    """int W dOmega per element, the thickness entering in 2-D only (as in the assembly)"""
    from EasyFEA.FEM import MatrixType
    from EasyFEA.Models.HyperElastic._state import HyperElasticState
    t = float(simu.material.thickness) if meta["dim"] == 2 else 1.0
    out = []
    for g in groups(simu):
        state = HyperElasticState(g, simu.displacement, MatrixType.rigi)
        w = np.asarray(g.Get_weightedJacobian_e_pg(MatrixType.rigi))
        out.append(t * np.sum(w * np.asarray(simu.material.Compute_W(state)), axis=1))
    return np.concatenate(out)


PAIRS = {2: {"xx": (0, 0), "yy": (1, 1), "xy": (0, 1)},
         3: {"xx": (0, 0), "yy": (1, 1), "zz": (2, 2), "yz": (1, 2), "xz": (0, 2), "xy": (0, 1)}}


def close_rel(a, b, tol=1e-11):
    """purely relative comparison (no absolute floor): |a-b| <= tol * max|b| (max|a| when b == 0)"""
    a, b = np.asarray(a, dtype=float), np.asarray(b, dtype=float)
    if a.shape != b.shape:
        return False, "shape %s vs expected %s" % (a.shape, b.shape)
    if not np.all(np.isfinite(a)):
        return False, "non-finite values %r" % (a.ravel()[:3].tolist(),)
    scale = float(np.max(np.abs(b))) if b.size else 0.0
    err = float(np.max(np.abs(a - b))) if b.size else 0.0
    if err <= tol * scale or err == 0.0:
        return True, "rel %.1e" % (err / scale if scale else 0.0)
    i = int(np.argmax(np.abs(a - b).ravel()))
    return False, "max abs diff %.6g = %.3g x max|expected| at flat index %d: got %r expected %r" % (err, err / scale if scale else float("inf"), i, float(a.ravel()[i]), float(b.ravel()[i]))


def full_tensor(T, dim, kelvin=True):
    """(…, ncomp) Kelvin-Mandel (or plain) vector -> (…, 3, 3) symmetric tensor; entries not
    carried by the vector are 0 (the plane assumption the code uses in 2-D)"""
    c = 1 / SQ2 if kelvin else 1.0
    M = np.zeros(T.shape[:-1] + (3, 3))
    if T.shape[-1] == 3:
        order = [(0, 0, 1.0), (1, 1, 1.0), (0, 1, c)]
    elif T.shape[-1] == 6:
        order = [(0, 0, 1.0), (1, 1, 1.0), (2, 2, 1.0), (1, 2, c), (0, 2, c), (0, 1, c)]
    else:
        order = [(0, 0, 1.0)]
    for k, (i, j, f) in enumerate(order):
        M[..., i, j] = T[..., k] * f
        M[..., j, i] = T[..., k] * f
    return M


def von_mises(M):
    tr = np.trace(M, axis1=-2, axis2=-1)
    dev = M - tr[..., None, None] / 3 * np.eye(3)
    return np.sqrt(1.5 * np.einsum("...ij,...ij->...", dev, dev))


# ------------------------------------------------------------------------------------------
def expected(simu, meta, st, name):
    """-> (location 'n'|'e'|'s', array) or None when there is no independent expectation"""
    cls, dim, Nn = meta["cls"], meta["dim"], simu.mesh.Nn
    U, V, A = (st[k].reshape(Nn, -1) for k in "uva")
    F = {"u": U, "v": V, "a": A}
    ax = {"x": 0, "y": 1, "z": 2}
    if len(name) == 2 and name[0] in "uva" and name[1] in "xyz":
        return ("n", F[name[0]][:, ax[name[1]]])
    if cls == "Beam" and len(name) == 2 and name[0] == "r" and name[1] in "xyz":
        return ("n", U[:, 2 if dim == 2 else 3 + ax[name[1]]])
    whole = {"displacement": "u", "u": "u", "thermal": "u", "speed": "v", "v": "v", "thermalDot": "v", "accel": "a", "a": "a"}
    if name in whole:
        return ("n", st[whole[name]])
    if name == "damage":
        return ("n", st["d"])
    if name.endswith("_norm") and name[:-5] in whole:
        q = F[whole[name[:-5]]]
        if cls == "Beam":
            q = q[:, :dim]
        return ("n", np.sqrt(np.sum(q * q, axis=1)))
    if name == "displacement_matrix":
        M = np.zeros((Nn, 3))
        if cls == "Thermal" or (cls == "WeakForms" and meta["dof_n"] == 1):
            return ("n", M)
        k = dim if cls == "Beam" else U.shape[1]
        M[:, :k] = U[:, :k]
        return ("n", M)
    kelvin = cls != "Beam"
    if cls == "Beam" and name.endswith("'") and len(name) == 3:
        order = {1: ["ux'"], 2: ["ux'", "rz'"], 3: ["ux'", "rx'", "ry'", "rz'"]}[dim]
        T = tensors(simu, meta, "strain")
        return ("e", np.concatenate([t.mean(1)[:, order.index(name)] for t in T]))
    if len(name) == 3 and name[0] in "SE" and name[1:] in PAIRS[3]:
        kind = "stress" if name[0] == "S" else "strain"
        T = tensors(simu, meta, kind)
        i, j = PAIRS[3][name[1:]]
        return ("e", np.concatenate([full_tensor(t, dim, kelvin).mean(1)[:, i, j] for t in T]))
    if name in ("Svm", "Evm"):
        T = tensors(simu, meta, "stress" if name == "Svm" else "strain")
        return ("e", np.concatenate([von_mises(full_tensor(t, dim, kelvin)).mean(1) for t in T]))
    if name in ("Stress", "Strain", "Piola-Kirchhoff", "Green-Lagrange"):
        kind = "stress" if name in ("Stress", "Piola-Kirchhoff") else "strain"
        T = tensors(simu, meta, kind)
        cols = []
        for t in T:
            M = full_tensor(t, dim, kelvin).mean(1)
            if t.shape[-1] in (3, 6):
                names = ["xx", "yy", "xy"] if t.shape[-1] == 3 else ["xx", "yy", "zz", "yz", "xz", "xy"]
                cols.append(np.stack([M[:, PAIRS[3][n][0], PAIRS[3][n][1]] for n in names], axis=1))
            else:
                cols.append(t.mean(1))
        return ("e", np.concatenate(cols))
    if name == "Wdef" and cls == "Elastic":
        K = simu.Get_K_C_M_F()[0]
        return ("s", 0.5 * st["u"] @ (K @ st["u"]))
    if name == "Wdef_e" and cls == "Elastic":
        return ("e", elem_energy(simu, meta, st["u"]))
    if name in ("W", "W_e") and cls == "HyperElastic":
        We = hyper_energy(simu, meta)
        return ("s", float(We.sum())) if name == "W" else ("e", We)
    return None


def eval_formula(t, comps):
    k = t[0]
    if k == "c":
        return float(t[1])
    if k == "x":
        return comps[(int(t[1]), bool(t[2]))]
    if k == "neg":
        return -eval_formula(t[1], comps)
    if k == "pow":
        return eval_formula(t[1], comps) ** int(t[2])
    a, b = eval_formula(t[1], comps), eval_formula(t[2], comps)
    return a + b if k == "+" else a - b if k == "-" else a * b


def model_value(simu, meta, st, entry):
    """value predicted by the TRANSLATED table entry (the Coq model's reading of Result()):
    -> (location, array) or None for opaque / nobranch / raises"""
    Nn = simu.mesh.Nn
    k = entry[0]
    if k in ("col", "whole", "norm"):
        src, pt = entry[1], entry[2]
        key = "d" if (meta["cls"] == "PhaseField" and "damage" in pt) else src
        vec = st[key]
        if k == "whole":
            return ("n", vec)
        q = vec.reshape(Nn, -1)
        if k == "col":
            return ("n", q[:, int(entry[4])])
        return ("n", np.sqrt(np.sum(q * q, axis=1)))
    coef = float(simu.material.coef) if hasattr(simu, "material") and hasattr(simu.material, "coef") else (float(simu.phaseFieldModel.material.coef) if meta["cls"] == "PhaseField" else 1.0)
    if k == "tens":
        T = tensors(simu, meta, entry[1])
        f = 1.0 / coef if entry[3] else 1.0
        return ("e", np.concatenate([(t[..., int(entry[2])] * f).mean(1) for t in T]))
    if k == "tensall":
        T = tensors(simu, meta, entry[1])
        resc = [int(i) for i in entry[3]]
        out = []
        for t in T:
            t = t.copy()
            for i in resc:
                t[..., i] *= 1.0 / coef
            out.append(t.mean(1))
        return ("e", np.concatenate(out))
    if k == "vm":
        T = tensors(simu, meta, entry[1])
        out = []
        for t in T:
            comps = {}
            for i in range(t.shape[-1]):
                comps[(i, False)] = t[..., i]
                comps[(i, True)] = t[..., i] * (1.0 / coef)
            out.append(np.sqrt(eval_formula(entry[2], comps)).mean(1))
        return ("e", np.concatenate(out))
    return None


def check_model(simu, meta, st, name, entry):
    """translated entry vs the running Result() (ties the generated Coq table to the code)"""
    recs = []
    kind = entry[0]
    for form, nv in (("node", True), ("elem", False)):
        try:
            r = query(simu, name, nv)
            beh = "none" if r is None else "value"
        except Exception as ex:
            r, beh = None, "raises"
        if kind in ("raises", "nobranch"):
            ok = beh == {"raises": "raises", "nobranch": "none"}[kind]
            recs.append({"name": name, "form": form, "ok": ok, "kind": "model", "detail": "table says %s, implementation: %s" % (kind, beh)})
            continue
        if beh != "value":
            recs.append({"name": name, "form": form, "ok": False, "kind": "model", "detail": "table says %s, implementation: %s" % (kind, beh)})
            continue
        try:
            mv = model_value(simu, meta, st, entry)
        except Exception as ex:
            recs.append({"name": name, "form": form, "ok": False, "kind": "model", "detail": "model evaluation failed: %s: %s" % (type(ex).__name__, ex)})
            continue
        if mv is None:
            continue
        loc, val = mv
        if (loc == "n") == (form == "node"):
            e = np.asarray(val)
        elif loc == "n":
            e = node_to_elem(simu, val)
        else:
            e = elem_to_node(simu, val)
        ok, d = close(np.asarray(r).reshape(np.shape(e)) if np.size(r) == np.size(e) else r, e)
        recs.append({"name": name, "form": form, "ok": ok, "kind": "model", "detail": d})
    return recs


def close(a, b, tol=TOL):
    a, b = np.asarray(a, dtype=float), np.asarray(b, dtype=float)
    if a.shape != b.shape:
        return False, "shape %s vs expected %s" % (a.shape, b.shape)
    if a.size == 0:
        return True, ""
    if not np.all(np.isfinite(a)):
        return False, "non-finite values"
    scale = max(1.0, float(np.max(np.abs(b))))
    err = float(np.max(np.abs(a - b)))
    if err <= tol * scale:
        return True, "%.2e" % err
    i = int(np.argmax(np.abs(a - b).ravel()))
    return False, "max abs diff %.6g (scale %.3g) at flat index %d: got %r expected %r" % (err, scale, i, float(a.ravel()[i]), float(b.ravel()[i]))


def query(simu, name, nodeValues):
    buf = io.StringIO()
    with contextlib.redirect_stdout(buf):
        r = simu.Result(name, nodeValues)
    return r


def check_name(simu, meta, st, name):
    """-> list of case records for the two forms of one name"""
    recs = []
    try:
        exp = expected(simu, meta, st, name)
    except Exception as ex:
        exp = None
        recs.append({"name": name, "form": "expected", "ok": False, "kind": "harness", "detail": "harness could not compute the expectation: %s: %s" % (type(ex).__name__, ex)})
    res = {}
    for form, nv in (("node", True), ("elem", False)):
        try:
            res[form] = query(simu, name, nv)
        except Exception as ex:
            recs.append({"name": name, "form": form, "ok": False, "kind": "raises", "detail": "%s: %s" % (type(ex).__name__, ex)})
            res[form] = "EXC"
    for form in ("node", "elem"):
        r = res[form]
        if isinstance(r, str):
            continue
        if r is None:
            recs.append({"name": name, "form": form, "ok": False, "kind": "nobranch", "detail": "Result() returned None for an advertised name"})
            continue
        if exp is None:
            ok = bool(np.all(np.isfinite(np.asarray(r, dtype=float))))
            recs.append({"name": name, "form": form, "ok": ok, "kind": "finite", "detail": "no independent expectation; finite=%s" % ok, "trivial": True})
            continue
        loc, val = exp
        if loc == "s":
            ok, d = close(r, val)
        elif loc == "n":
            ncol = 1 if np.ndim(val) == 1 and np.size(val) == simu.mesh.Nn else int(np.size(val) // simu.mesh.Nn)
            if form == "node":
                e = np.asarray(val)
            else:
                e = node_to_elem(simu, val)
                if np.ndim(val) == 1:
                    e = e.reshape(-1)
            ok, d = close(np.asarray(r).reshape(e.shape) if np.size(r) == np.size(e) else r, e)
        else:
            if form == "elem":
                e = np.asarray(val)
            else:
                e = elem_to_node(simu, val)
                if np.ndim(val) == 1:
                    e = e.reshape(-1)
            ok, d = close(np.asarray(r).reshape(e.shape) if np.size(r) == np.size(e) else r, e)
        recs.append({"name": name, "form": form, "ok": ok, "kind": "value", "detail": d})
    # generic consistency of the two forms (any name returning arrays)
    rn, re_ = res["node"], res["elem"]
    if not isinstance(rn, str) and not isinstance(re_, str) and rn is not None and re_ is not None and np.ndim(rn) >= 1 and np.ndim(re_) >= 1:
        Nn, Ne = simu.mesh.Nn, simu.mesh.Ne
        ok = False
        d = ""
        try:
            if np.size(rn) % Nn == 0 and np.size(re_) % Ne == 0:
                a, _ = close(np.asarray(re_).reshape(Ne, -1), node_to_elem(simu, np.asarray(rn).reshape(Nn, -1)))
                b, _ = close(np.asarray(rn).reshape(Nn, -1), elem_to_node(simu, np.asarray(re_).reshape(Ne, -1)))
                ok = a or b
                d = "elem=mean(node): %s, node=avg(elem): %s" % (a, b)
            else:
                d = "sizes %s / %s do not fit (Nn=%d, Ne=%d)" % (np.shape(rn), np.shape(re_), Nn, Ne)
        except Exception as ex:
            d = "%s: %s" % (type(ex).__name__, ex)
        recs.append({"name": name, "form": "both", "ok": ok, "kind": "forms", "detail": d})
    return recs


def run_sim(simkey, seed, names=None, const=None, tables=None):
    rng = np.random.default_rng([seed, sum(map(ord, simkey))])
    simu, meta = build(simkey)
    st = inject(simu, meta, rng, const=const)
    adv = list(simu.Results_Available())
    out = []
    tab = None
    if tables is not None:
        tab = tables.get(meta["cls"], {}).get(meta["cfg"])
        if tab is None:
            out.append({"sim": simkey, "cls": meta["cls"], "cfg": meta["cfg"], "name": "*", "form": "table", "ok": False, "kind": "model",
                        "detail": "no translated table for configuration %s" % meta["cfg"]})
        else:
            dyn = [n for n in adv if n not in tab["advertised"]] if meta["cls"] == "InElastic" else []
            same = [n for n in adv if n not in dyn] == [n for n in tab["advertised"] if n in adv or meta["cls"] != "InElastic"]
            if meta["cls"] == "InElastic":
                static = lambda l: [n for n in l if n not in ("p", "epsP") and n not in dyn]
                same = static(adv) == static(tab["advertised"])
            out.append({"sim": simkey, "cls": meta["cls"], "cfg": meta["cfg"], "name": "*", "form": "advertised", "ok": bool(same), "kind": "model",
                        "detail": "Results_Available(): implementation %s / translated %s" % (adv, tab["advertised"])})
    for name in adv:
        if names is not None and name not in names:
            continue
        recs = check_name(simu, meta, st, name)
        if tab is not None and name in tab["table"]:
            recs += check_model(simu, meta, st, name, tab["table"][name])
        for r in recs:
            r.update(sim=simkey, cls=meta["cls"], cfg=meta["cfg"])
            out.append(r)
    info = {"cls": meta["cls"], "cfg": meta["cfg"], "Nn": int(simu.mesh.Nn), "Ne": int(simu.mesh.Ne), "advertised": adv,
            "groups": [str(g.elemType) for g in groups(simu)]}
    return out, info, simu, meta, st


# ------------------------------------------------------------------------------------------
def extra_checks(seed):
    """independent strain, Hooke stress, energy identity, Wdef_e, reaction balance, constants"""
    out = []
    rng = np.random.default_rng([seed, 77])

    def rec(sim, name, ok, detail, kind="extra"):
        out.append({"sim": sim, "cls": sim.split(":")[0], "cfg": "", "name": name, "form": "extra", "ok": bool(ok), "kind": kind, "detail": detail})
    for simkey in ("Elastic:2d", "Elastic:3d", "Elastic:2d-strain"):
        simu, meta = build(simkey)
        st = inject(simu, meta, rng)
        # strain from gradients vs the class's strain; stress = C : strain
        mine = strain_from_gradient(simu, meta)
        theirs = tensors(simu, meta, "strain")
        ok, d = close(np.concatenate([t.reshape(-1) for t in theirs]), np.concatenate([t.reshape(-1) for t in mine]))
        rec(simkey, "strain-vs-gradient", ok, d)
        C = np.asarray(simu.material.C)
        sig = tensors(simu, meta, "stress")
        ok, d = close(np.concatenate([t.reshape(-1) for t in sig]), np.concatenate([(t @ C.T).reshape(-1) for t in mine]))
        rec(simkey, "stress-vs-hooke", ok, d)
        # energy
        K = simu.Get_K_C_M_F()[0]
        W = simu.Result("Wdef")
        We = simu.Result("Wdef_e", nodeValues=False)
        ok, d = close(W, 0.5 * st["u"] @ (K @ st["u"]))
        rec(simkey, "Wdef=half-uKu", ok, d)
        ok, d = close(np.sum(We), W)
        rec(simkey, "sum(Wdef_e)=Wdef", ok, d)
        # per-element energy against u_e' K_e u_e
        try:
            dim = meta["dim"]
            parts = []
            for g in groups(simu):
                Ke = np.asarray(simu.Construct_local_matrix_system(simu.problemType)[0]) if False else None
            rec(simkey, "Wdef_e>=0", bool(np.all(np.asarray(We) >= -1e-12)), "min %.3g" % float(np.min(We)))
        except Exception as ex:
            rec(simkey, "Wdef_e>=0", False, "%s" % ex, kind="harness")
        # rigid translations are in ker K: sum over nodes of (K u) per direction = 0, arbitrary u
        dim = meta["dim"]
        Ku = (K @ st["u"]).reshape(-1, dim)
        scale = float(np.abs(K).sum(axis=1).max() * np.abs(st["u"]).max())
        ok = bool(np.all(np.abs(Ku.sum(axis=0)) <= 1e-10 * scale))
        rec(simkey, "sum-internal-forces=0", ok, "resultant %s scale %.3g" % (Ku.sum(axis=0).tolist(), scale))
    # energy identity where the `rigi` and `mass` rules differ and `rigi` is not exact for the
    # integrand: QUAD8 and curved-edge quadratic elements (gmsh circle inclusion), tight tolerance
    try:
        from EasyFEA import Models, Simulations, ElemType
        from EasyFEA.Geoms import Domain, Circle, Point
        dom = Domain(Point(0, 0), Point(1, 1), 0.25)
        incl = [Circle(Point(0.5, 0.5), 1.0 / 3, 0.25)]
        curved = [("QUAD8-organised", lambda: dom.Mesh_2D([], ElemType.QUAD8, isOrganised=True), 2),
                  ("QUAD8-inclusion", lambda: dom.Mesh_2D(incl, ElemType.QUAD8), 2),
                  ("TRI6-inclusion", lambda: dom.Mesh_2D(incl, ElemType.TRI6), 2),
                  ("TRI10-inclusion", lambda: dom.Mesh_2D(incl, ElemType.TRI10), 2)]
        if os.environ.get("VERIF_TIER") == "thorough":
            curved += [("QUAD9-inclusion", lambda: dom.Mesh_2D(incl, ElemType.QUAD9), 2),
                       ("TETRA10-inclusion", lambda: dom.Mesh_Extrude(incl, [0, 0, -0.5], [2], ElemType.TETRA10), 3),
                       ("HEXA20-inclusion", lambda: dom.Mesh_Extrude(incl, [0, 0, -0.5], [2], ElemType.HEXA20), 3)]
        for label, mk, dim in curved:
            mesh = mk()
            mat = Models.Elastic.Isotropic(dim, E=8.0, v=0.25, planeStress=True, thickness=0.375) if dim == 2 else Models.Elastic.Isotropic(3, E=8.0, v=0.25, thickness=2.5)
            simu = Simulations.Elastic(mesh, mat)
            u = rng.integers(-6, 7, mesh.Nn * dim).astype(float) / 64
            simu._Set_solutions(simu.problemType, u.copy())
            K = simu.Get_K_C_M_F()[0]
            ref = 0.5 * u @ (K @ u)
            for nm, val in (("Wdef", simu.Result("Wdef")), ("sum(Wdef_e)", float(np.sum(simu.Result("Wdef_e", nodeValues=False)))),
                            ("Results_dict_Energy", list(simu.Results_dict_Energy().values())[0])):
                ok, d = close(val, ref, tol=1e-9)
                rec("Elastic:" + label, "%s:%s=half-uKu" % (label, nm), ok, d)
    except Exception:
        rec("Elastic:curved", "energy-curved-elements", False, traceback.format_exc()[-600:], kind="harness")
    # energies of the other classes against the Elastic reference with the same law / thickness
    for dim, key in ((2, "2d"), (3, "3d")):
        try:
            from EasyFEA import Models, Simulations
            from EasyFEA.Models.Elastic import Isotropic
            t = 1.5 if dim == 2 else 2.5
            ref, meta = build("Elastic:%s" % key)
            st = inject(ref, meta, rng)
            K = ref.Get_K_C_M_F()[0]
            half = 0.5 * st["u"] @ (K @ st["u"])
            ok, d = close(ref.Results_dict_Energy()[r"$\Psi_{elas}$"], half)
            rec("Elastic:%s" % key, "Results_dict_Energy=half-uKu", ok, d)
            # PhaseField with zero damage
            pf, mpf = build("PhaseField:%s" % key)
            pf._Set_solutions(pf.ProblemTypes.elastic, st["u"].copy())
            pf._Set_solutions(pf.ProblemTypes.damage, np.zeros(pf.mesh.Nn))
            ok, d = close(pf.Result("Wdef"), half)
            rec("PhaseField:%s" % key, "Wdef(d=0)=Elastic-half-uKu", ok, d)
            # InElastic without yield surface: stored energy = elastic energy
            kw = dict(thickness=t)
            law3 = Isotropic(3, E=8.0, v=0.25)
            ie = Simulations.InElastic(ref.mesh, Models.InElastic.Behavior(dim, law3, **kw))
            ie._Set_solutions(ie.problemType, st["u"].copy())
            refI = Simulations.Elastic(ref.mesh, Isotropic(dim, E=8.0, v=0.25, planeStress=False, thickness=t))
            KI = refI.Get_K_C_M_F()[0]
            psi = list(ie.Results_dict_Energy().values())[0]
            ok, d = close(psi, 0.5 * st["u"] @ (KI @ st["u"]))
            rec("InElastic:%s" % key, "Psi=Elastic-half-uKu", ok, d)
        except Exception:
            rec("energy:%s" % key, "energy-cross-checks", False, traceback.format_exc()[-500:], kind="harness")
    # reaction balance after a solve with the whole boundary constrained
    for simkey in ("Elastic:2d-strain",):
        simu, meta = build(simkey)
        mesh = simu.mesh
        dim = meta["dim"]
        bnodes = np.array([n for n in range(mesh.Nn) if n != 0])
        vals = rng.integers(-3, 4, dim)
        simu.add_dirichlet(bnodes, [float(v) for v in vals], ["x", "y", "z"][:dim])
        load = [float(x) for x in rng.integers(1, 5, dim)]
        simu.add_volumeLoad(mesh.nodes, load, ["x", "y", "z"][:dim])
        simu.Solve()
        K, C, M, Fv = simu.Get_K_C_M_F()
        u = simu.displacement
        F = np.asarray(Fv.todense()).ravel() if hasattr(Fv, "todense") else np.asarray(Fv).ravel()
        F = F + np.asarray(simu.Bc_vector_Neumann()).ravel()      # applied (Neumann) loads
        dofs = simu.Bc_dofs_nodes(bnodes, ["x", "y", "z"][:dim])
        R = simu.Calc_Reaction(dofs)
        Rfull = np.zeros(mesh.Nn * dim)
        Rfull[dofs] = R
        Rfull[dofs] -= F[dofs]           # reaction proper = K u - F on constrained dofs
        tot = Rfull.reshape(-1, dim).sum(axis=0) + F.reshape(-1, dim).sum(axis=0)
        scale = max(1.0, float(np.abs(F).sum()))
        ok = bool(np.all(np.abs(tot) <= 1e-10 * scale))
        rec(simkey, "reaction-balance", ok, "sum reactions + sum loads = %s (loads %s)" % (tot.tolist(), F.reshape(-1, dim).sum(axis=0).tolist()))
        area = 12.0 * 2.0   # hexagon area 12, thickness 2
        ok2, d2 = close(F.reshape(-1, dim).sum(axis=0), np.array(load) * area)
        rec(simkey, "load-resultant", ok2, d2)
    # two meshes in one history: energy identity and reaction balance after coming back (Set_Iter)
    try:
        from EasyFEA import Models, Simulations, SolverType
        for hname, meshB, fixedB in (("", mesh_2d_mixed(), [0, 3]), ("stretched-copy:", mesh_2d_fan(), [4, 5])):
            meshA = mesh_2d_fan()
            if hname:
                cB = meshB.coord.copy()
                cB[:, 0] *= 2.0            # same discretisation (Nn, Ne, connect), moved nodes
                cB[:, 1] *= 0.75
                meshB.coord = cB
            simu = Simulations.Elastic(meshA, Models.Elastic.Isotropic(2, E=8.0, v=0.25, planeStress=True, thickness=2.0))
            simu.solver = SolverType.scipy

            def solve_on(mesh, fixed):
                simu.Bc_Init()
                simu.add_dirichlet(np.array(fixed), [0.0, 0.0], ["x", "y"])
                simu.add_volumeLoad(mesh.nodes, [1.0, -2.0], ["x", "y"])
                simu.Solve()
                simu.Save_Iter()
                return np.asarray(simu.Bc_vector_Neumann()).ravel().copy()

            def energy_and_balance(label, fixed, F):
                K = simu.Get_K_C_M_F()[0]
                u = simu.displacement
                ok1, d1 = (False, "K is %s but u has %d entries" % (K.shape, u.size)) if K.shape[0] != u.size else close_rel(simu.Result("Wdef"), 0.5 * u @ (K @ u), tol=1e-10)
                rec("Elastic:history", "history:%s%s:Wdef=half-uKu" % (hname, label), ok1, d1)
                try:
                    dofs = simu.Bc_dofs_nodes(np.array(fixed), ["x", "y"])
                    R = np.zeros(simu.mesh.Nn * 2)
                    R[dofs] = simu.Calc_Reaction(dofs)
                    R[dofs] -= F[dofs]                      # reaction proper = K u - F on the constrained dofs
                    tot = R.reshape(-1, 2).sum(axis=0) + F.reshape(-1, 2).sum(axis=0)
                    rec("Elastic:history", "history:%s%s:reaction-balance" % (hname, label), bool(np.all(np.abs(tot) <= 1e-9 * np.abs(F).sum())), "sum reactions + total load = %s (total load %s)" % (tot.tolist(), F.reshape(-1, 2).sum(axis=0).tolist()))
                except Exception as ex:
                    rec("Elastic:history", "history:%s%s:reaction-balance" % (hname, label), False, "%s: %s" % (type(ex).__name__, ex))
            FA = solve_on(meshA, [4, 5])
            energy_and_balance("meshA", [4, 5], FA)
            simu.mesh = meshB
            FB = solve_on(meshB, fixedB)
            energy_and_balance("meshB", fixedB, FB)
            simu.Set_Iter(0)
            energy_and_balance("back-on-meshA", [4, 5], FA)
            simu.Set_Iter(1)
            energy_and_balance("back-on-meshB", fixedB, FB)
    except Exception:
        rec("Elastic:history", "history:scenario", False, traceback.format_exc()[-500:], kind="harness")
    # Calc_Reaction under EVERY time scheme the simulation accepts (list read from AlgoType), non-zero
    # u, v, a and Rayleigh damping on: reaction = K u (+ C v (+ M a)) on the requested dofs
    try:
        from EasyFEA import Models, Simulations
        from EasyFEA.Simulations.Solvers import AlgoType
        mesh = mesh_2d_mixed()
        simu = Simulations.Elastic(mesh, Models.Elastic.Isotropic(2, E=8.0, v=0.25, planeStress=True, thickness=1.5))
        simu.rho = 2.0
        simu.Set_Rayleigh_Damping_Coefs(coefM=0.5, coefK=0.25)
        n = mesh.Nn * 2
        u, v, a = (rng.integers(-6, 7, n).astype(float) for _ in range(3))
        dofs = np.array([0, 1, 6, 7, 9], dtype=int)
        schemes = [("elliptic", None)] + [("parabolic", None)] + [(str(getattr(t, "name", t)), t) for t in AlgoType.Get_Hyperbolic_Types()]
        for sname, algo in schemes:
            if sname == "elliptic":
                simu.Solver_Set_Elliptic_Algorithm()
            elif sname == "parabolic":
                simu.Solver_Set_Parabolic_Algorithm(dt=0.125)
            else:
                try:
                    simu.Solver_Set_Hyperbolic_Algorithm(dt=0.125, algo=algo)
                except AssertionError:
                    simu.Solver_Set_Hyperbolic_Algorithm(dt=0.125, algo=algo, alpha=0.25)     # schemes with a restricted alpha range
            simu._Set_solutions(simu.problemType, u.copy(), v.copy(), a.copy())
            K, C, M, _ = simu.Get_K_C_M_F()
            ref = K @ u
            if sname != "elliptic":
                ref = ref + C @ v
            if sname not in ("elliptic", "parabolic"):
                ref = ref + M @ a
            try:
                ok, d = close_rel(np.asarray(simu.Calc_Reaction(dofs)).ravel(), ref[dofs], tol=1e-11)
            except Exception as ex:
                ok, d = False, "%s: %s" % (type(ex).__name__, ex)
            rec("Elastic:schemes", "reaction[%s]=Ku+Cv+Ma" % sname, ok, d)
    except Exception:
        rec("Elastic:schemes", "reaction-under-every-scheme", False, traceback.format_exc()[-500:], kind="harness")
    # von Mises of near-hydrostatic and exactly hydrostatic 3-D states (large mean, tiny deviator):
    # reference = difference form evaluated in exact rational arithmetic on the very same doubles
    try:
        from fractions import Fraction as Fr
        from EasyFEA.FEM import FeArray
        from EasyFEA.Models import _utils as MU
        import math

        def vm_exact(xx, yy, zz, yz, xz, xy):
            v = [Fr(x) for x in (xx, yy, zz, yz, xz, xy)]
            arg = Fr(1, 2) * ((v[0] - v[1]) ** 2 + (v[1] - v[2]) ** 2 + (v[2] - v[0]) ** 2 + 6 * (v[3] ** 2 + v[4] ** 2 + v[5] ** 2))
            n, d = arg.numerator, arg.denominator
            k = max(0, n.bit_length() - d.bit_length() - 200)         # keep ~200 significant bits
            return math.sqrt((n >> k) / d) * 2.0 ** (k / 2.0) if k else math.sqrt(n / d)
        states = []
        for mean in (1.0, 3.0e5, 2.0 ** -30):
            for dev in (0.0, 2e-8, 5e-6):
                states.append((mean * (1 + dev), mean, mean * (1 - dev), mean * dev * 0.5, 0.0, mean * dev))
                states.append((mean, mean, mean, 0.0, mean * dev, 0.0))
        arr = np.array(states, dtype=float).reshape(len(states), 1, 6)       # physical components
        km = arr.copy()
        km[..., 3:] *= SQ2                                                   # stored Kelvin-Mandel vector
        got = np.asarray(MU.Result_strain_or_stress_field_e(field_e_pg=lambda g: FeArray.asfearray(km.copy()), list_groupElem=[None], result="vm", coef=SQ2), dtype=float)
        # the components the code sees after its own 1/sqrt2 rescale (not bit-identical to `arr`)
        seen = km.copy()
        seen[..., 3:] *= 1 / SQ2
        for i, st_ in enumerate(states):
            ref = vm_exact(*seen[i, 0])
            mean = abs(st_[1])
            if ref > 1e-9 * mean:
                ok, d = close_rel(got[i], ref, tol=1e-9)
            else:
                # (numerically) hydrostatic: anything below the round-off of the components is fine, NaN is not
                ok = bool(np.isfinite(got[i]) and abs(got[i] - ref) <= 1e-12 * mean)
                d = "got %r, exact %r, mean stress %r" % (float(got[i]), ref, mean)
            rec("utils:vonmises", "vm-near-hydrostatic[%d]" % i, ok, "state %s: %s" % (["%.17g" % x for x in st_], d))
    except Exception:
        rec("utils:vonmises", "vm-near-hydrostatic", False, traceback.format_exc()[-500:], kind="harness")
    # near-equal parameter changes must be observed like large ones: assemble -> change the thickness
    # by 1e-6, 1e-9 relative and by one ulp -> the cached K must be the K of a fresh simulation, and
    # Wdef = 1/2 u'Ku must keep holding
    try:
        from EasyFEA import Models, Simulations
        mesh = mesh_2d_mixed()
        t0 = 1.5
        mat = Models.Elastic.Isotropic(2, E=8.0, v=0.25, planeStress=True, thickness=t0)
        simu = Simulations.Elastic(mesh, mat)
        u = rng.integers(-6, 7, mesh.Nn * 2).astype(float)
        simu._Set_solutions(simu.problemType, u.copy())
        simu.Get_K_C_M_F()
        for label, t1 in (("1e-6", t0 * (1 + 1e-6)), ("1e-9", t0 * (1 + 1e-9)), ("1ulp", float(np.nextafter(t0, 2.0))), ("E:1e-7", None)):
            if t1 is None:
                mat.E = mat.E * (1 + 1e-7)
                fresh = Simulations.Elastic(mesh, Models.Elastic.Isotropic(2, E=mat.E, v=0.25, planeStress=True, thickness=mat.thickness))
            else:
                mat.thickness = t1
                fresh = Simulations.Elastic(mesh, Models.Elastic.Isotropic(2, E=mat.E, v=0.25, planeStress=True, thickness=t1))
            K = simu.Get_K_C_M_F()[0]
            Kf = fresh.Get_K_C_M_F()[0]
            same = bool((K - Kf).nnz == 0 or np.max(np.abs((K - Kf).data)) == 0.0)
            rec("Elastic:near-equal", "param-change[%s]:K==fresh" % label, same, "max |K - K_fresh| = %.3g (max |K| %.3g)" % (float(np.max(np.abs((K - Kf).data))) if (K - Kf).nnz else 0.0, float(np.max(np.abs(Kf.data)))))
            ok, d = close_rel(simu.Result("Wdef"), 0.5 * u @ (K @ u), tol=1e-11)
            rec("Elastic:near-equal", "param-change[%s]:Wdef=half-uKu" % label, ok, d)
    except Exception:
        rec("Elastic:near-equal", "param-change", False, traceback.format_exc()[-500:], kind="harness")
    # scaled twins of the energy identity: micro / kilo lengths, stiff / soft moduli -- purely relative
    try:
        from EasyFEA import Models, Simulations
        for sL, sE in ((1e-6, 2.0 ** 40), (1e-9, 1.0), (1e3, 2.0 ** -40)):
            for key, mk, dim in (("2d", mesh_2d_mixed, 2), ("3d", mesh_3d_mixed, 3)):
                mesh = mk()
                mesh.coord = mesh.coord * sL
                mat = Models.Elastic.Isotropic(dim, E=8.0 * sE, v=0.25, planeStress=True, thickness=1.5) if dim == 2 else Models.Elastic.Isotropic(3, E=8.0 * sE, v=0.25, thickness=2.5)
                simu = Simulations.Elastic(mesh, mat)
                u = rng.integers(-6, 7, mesh.Nn * dim).astype(float) * sL
                simu._Set_solutions(simu.problemType, u.copy())
                K = simu.Get_K_C_M_F()[0]
                ok, d = close_rel(simu.Result("Wdef"), 0.5 * u @ (K @ u), tol=1e-11)
                rec("Elastic:scaled", "scaled[L=%g,E=%g]:%s:Wdef=half-uKu" % (sL, sE, key), ok, d)
                ex = expected(simu, {"cls": "Elastic", "dim": dim, "dof_n": dim, "cfg": "", "scale": 1.0}, {"u": u, "v": u, "a": u}, "Svm")
                ok, d = close_rel(simu.Result("Svm", nodeValues=False), ex[1], tol=1e-10)
                rec("Elastic:scaled", "scaled[L=%g,E=%g]:%s:Svm" % (sL, sE, key), ok, d)
    except Exception:
        rec("Elastic:scaled", "scaled-twins", False, traceback.format_exc()[-500:], kind="harness")
    # constants are preserved by both conversions
    for simkey in ("Elastic:2d", "Elastic:3d", "Thermal:2d", "WeakForms:dof2", "Beam:2"):
        simu, meta = build(simkey)
        inject(simu, meta, rng, const=3.0)
        for name in [n for n in simu.Results_Available() if (len(n) == 2 and n[0] in "uva") or n in ("thermal", "u", "displacement")]:
            for nv in (True, False):
                try:
                    r = np.asarray(query(simu, name, nv), dtype=float)
                    ok = bool(r.size > 0 and np.all(np.abs(r - 3.0) <= 1e-12))
                    rec(simkey, name, ok, "constant 3.0 -> min %.17g max %.17g (%s form)" % (r.min(), r.max(), "node" if nv else "elem"), kind="const")
                except Exception as ex:
                    rec(simkey, name, False, "%s: %s" % (type(ex).__name__, ex), kind="const")
        if meta["cls"] == "Elastic":
            # element-constant -> nodes
            ve = np.full(simu.mesh.Ne, 5.0)
            vn = simu.mesh.Get_Node_Values(ve)
            rec(simkey, "Get_Node_Values(const)", bool(np.all(np.abs(vn - 5.0) <= 1e-12)), "min %.17g max %.17g" % (vn.min(), vn.max()), kind="const")
    return out


def probe_reshape(seed):
    """Results_Reshape_values guesses node/element storage from array sizes; on a mesh where
    Nn*k is a multiple of Ne the element form of a nodal result is returned unconverted."""
    out = []
    from EasyFEA import Models, Simulations
    m = mesh_quad1()
    s = Simulations.Elastic(m, Models.Elastic.Isotropic(2, E=8.0, v=0.25, planeStress=True, thickness=1.0))
    u = np.array([1, 0, 2, 0, 3, 0, 6, 0], dtype=float)
    s._Set_solutions(s.problemType, u, u, u)
    r = np.asarray(query(s, "ux", False))
    ok = r.shape == (1,) and abs(float(r.ravel()[0]) - 3.0) < 1e-12
    out.append({"sim": "Elastic:quad1", "cls": "Elastic", "cfg": "dim2", "name": "ux", "form": "elem", "ok": bool(ok), "kind": "reshape-ambiguity",
                "detail": "1 QUAD4 element, nodal ux = [1,2,3,6]: element form returned %s, expected [3.0]" % r.tolist()})
    return out


def run_history(simkey, seed, names=None, iters=(0, 1, -1, -2, 2)):
    """three saved iterations holding different injected states; every result name is then
    queried through Result(name, nodeValues, iter=i) for i in {0, 1, -1, -2, last} while the
    simulation sits on ANOTHER iteration, and compared with the value obtained when the
    iteration was saved (which the other checks tie to the injected state)"""
    rng = np.random.default_rng([seed, 4242, sum(map(ord, simkey))])
    simu, meta = build(simkey)
    # velocities / accelerations are part of a saved iteration only under a time scheme
    if meta["cls"] in ("Elastic", "WeakForms"):
        simu.Solver_Set_Hyperbolic_Algorithm(dt=0.125)
    elif meta["cls"] == "Thermal":
        simu.Solver_Set_Parabolic_Algorithm(dt=0.125)
    nsave = 3
    saved = []
    adv = None
    for it in range(nsave):
        inject(simu, meta, rng)
        simu.Need_Update()        # the private setters do not notify: force a fresh assembly
        simu.Save_Iter()
        adv = list(simu.Results_Available())
        snap = {}
        for name in adv:
            if names is not None and name not in names:
                continue
            for form, nv in (("node", True), ("elem", False)):
                try:
                    r = query(simu, name, nv)
                    snap[(name, form)] = None if r is None else np.array(r, dtype=float, copy=True)
                except Exception:
                    snap[(name, form)] = "EXC"
        saved.append(snap)
    out = []
    for i in iters:
        tgt = i % nsave
        for (name, form), ref in saved[tgt].items():
            if isinstance(ref, str) or ref is None:
                continue
            if meta["cls"] == "PhaseField" and name in ("psiP", "Psi_Crack"):
                # history-dependent by design: Set_Iter restores (u, d) but keeps the history field
                # H = max psi+ unless resetAll=True (properties C15 / C17), so these two are not
                # functions of the restored iteration alone
                continue
            try:
                simu.Set_Iter((tgt + 1) % nsave)          # sit on another iteration
                buf = io.StringIO()
                with contextlib.redirect_stdout(buf):
                    r = simu.Result(name, form == "node", iter=i)
                if r is None:
                    ok, d = False, "returned None"
                else:
                    ok, d = close(r, ref, tol=1e-12)
                    if ok and not np.allclose(saved[(tgt + 1) % nsave][(name, form)], ref, rtol=1e-9, atol=1e-12):
                        d += " (differs from the current iteration: discriminating)"
            except Exception as ex:
                ok, d = False, "%s: %s" % (type(ex).__name__, str(ex)[:200])
            trivial = bool(np.allclose(saved[(tgt + 1) % nsave].get((name, form), ref), ref, rtol=1e-9, atol=1e-12)) if not isinstance(saved[(tgt + 1) % nsave].get((name, form)), str) and saved[(tgt + 1) % nsave].get((name, form)) is not None and np.shape(saved[(tgt + 1) % nsave].get((name, form))) == np.shape(ref) else False
            out.append({"sim": simkey, "cls": meta["cls"], "cfg": meta["cfg"], "name": name, "form": "%s@iter=%d" % (form, i), "ok": bool(ok), "kind": "iter",
                        "detail": "Result(%r, %s, iter=%d) vs value at save time: %s" % (name, form == "node", i, d), "trivial": trivial and ok, "seed": seed})
    return out


def replay(simkey, seed, name):
    """used by replay snippets: re-run one name; returns the failing records"""
    if simkey == "probe:reshape":
        recs = probe_reshape(seed)
    elif simkey == "extra":
        recs = [r for r in extra_checks(seed) if r["name"] == name]
    elif simkey.startswith("history|"):
        recs = run_history(simkey.split("|", 1)[1], seed, names=[name])
    else:
        recs = run_sim(simkey, seed, names=[name])[0]
    bad = [r for r in recs if not r["ok"]]
    for r in recs:
        print(("FAIL " if not r["ok"] else "ok   ") + "%s %s [%s] %s: %s" % (r["sim"], r["name"], r["form"], r["kind"], r["detail"]))
    return bad


def main():
    req = json.loads(sys.stdin.read() or "{}")
    seed = int(req.get("seed", 0))
    keys = req.get("only") or (SIMKEYS_THOROUGH if req.get("tier") == "thorough" else SIMKEYS_QUICK)
    nrep = 3 if req.get("tier") == "thorough" else 1
    cases, sims = [], {}
    for k in keys:
        for rep in range(nrep):
            try:
                recs, info, *_ = run_sim(k, seed + 1000 * rep, names=req.get("names"), tables=req.get("tables"))
                for r in recs:
                    r["seed"] = seed + 1000 * rep
                cases += recs
                sims[k] = info
            except Exception:
                cases.append({"sim": k, "cls": k.split(":")[0], "cfg": "", "name": "*", "form": "build", "ok": False, "kind": "harness",
                              "detail": traceback.format_exc()[-1200:], "seed": seed})
    if not req.get("only"):
        for k in keys:
            try:
                cases += run_history(k, seed)
            except Exception:
                cases.append({"sim": k, "cls": k.split(":")[0], "cfg": "", "name": "*", "form": "history", "ok": False, "kind": "harness",
                              "detail": traceback.format_exc()[-1200:], "seed": seed})
        try:
            ex = extra_checks(seed)
            for r in ex:
                r["seed"] = seed
            cases += ex
        except Exception:
            cases.append({"sim": "extra", "cls": "extra", "cfg": "", "name": "*", "form": "extra", "ok": False, "kind": "harness", "detail": traceback.format_exc()[-1200:], "seed": seed})
        pr = probe_reshape(seed)
        for r in pr:
            r["seed"] = seed
        cases += pr
    print("\n@@JSON@@" + json.dumps({"cases": cases, "sims": sims}))


if __name__ == "__main__":
    main()
