"""C19: generation of material configurations and strain paths (pure python, no EasyFEA).

Every choice derives from the random.Random handed in (ctx.rng), so a failing case replays.
"""
import itertools
import math

YIELDS = ["none", "VonMises", "Hill", "DruckerPrager"]
HARDS = ["none", "Linear", "Voce", "Swift"]
KINS = ["none", "Prager", "AF", "Chaboche2"]
RATES = ["none", "Norton1", "NortonN", "Perzyna"]
BRANCHES = [0, 1, 2]
MODES = ["3D", "PE", "PS"]
ELASTICS = ["iso", "ortho", "tiso"]
PATHS = ["proportional", "reversal", "nonproportional", "tiny", "huge"]


def r3(rng, lo, hi):
    """3-significant-digit value in [lo, hi] (log-uniform) — keeps replays readable."""
    x = math.exp(rng.uniform(math.log(lo), math.log(hi)))
    return float("%.3g" % x)


def gen_elastic(rng, kind):
    if kind == "iso":
        return {"kind": "iso", "E": r3(rng, 5e4, 4e5), "v": float("%.2f" % rng.uniform(0.05, 0.4))}
    E = r3(rng, 1e5, 3e5)
    if kind == "ortho":
        return {"kind": "ortho", "E1": E, "E2": float("%.4g" % (E / rng.uniform(1.2, 2.5))), "E3": float("%.4g" % (E / rng.uniform(1.5, 3.5))),
                "G12": float("%.4g" % (E / rng.uniform(3, 5))), "G13": float("%.4g" % (E / rng.uniform(4, 6))), "G23": float("%.4g" % (E / rng.uniform(5, 7))),
                "v12": float("%.2f" % rng.uniform(0.15, 0.3)), "v13": float("%.2f" % rng.uniform(0.1, 0.25)), "v23": float("%.2f" % rng.uniform(0.05, 0.2))}
    return {"kind": "tiso", "El": E, "Et": float("%.4g" % (E / rng.uniform(1.3, 2.5))), "Gl": float("%.4g" % (E / rng.uniform(2.5, 4))),
            "vl": float("%.2f" % rng.uniform(0.15, 0.3)), "vt": float("%.2f" % rng.uniform(0.1, 0.3))}


def stiffness_scale(e):
    return e.get("E") or e.get("E1") or e.get("El")


def gen_config(rng, combo):
    yk, hk, kk, rk, nb, mode, ek = combo
    c = {"mode": mode, "elastic": gen_elastic(rng, ek)}
    E = stiffness_scale(c["elastic"])
    sy = r3(rng, 100.0, 600.0)
    if yk == "VonMises":
        c["yield"] = {"kind": "VonMises", "sigma_y": sy}
    elif yk == "Hill":
        c["yield"] = dict(kind="Hill", sigma_y=sy, F=float("%.2f" % rng.uniform(0.3, 0.8)), G=float("%.2f" % rng.uniform(0.3, 0.8)),
                          H=float("%.2f" % rng.uniform(0.3, 0.8)), L=float("%.2f" % rng.uniform(1.0, 2.0)),
                          M=float("%.2f" % rng.uniform(1.0, 2.0)), N=float("%.2f" % rng.uniform(1.0, 2.0)))
    elif yk == "DruckerPrager":
        c["yield"] = {"kind": "DruckerPrager", "sigma_y": sy, "eta": float("%.2f" % rng.uniform(0.05, 0.3))}
    if hk == "Linear":
        c["hardening"] = {"kind": "Linear", "H": r3(rng, E / 500, E / 10)}
    elif hk == "Voce":
        c["hardening"] = {"kind": "Voce", "Q": r3(rng, 0.2 * sy, 1.5 * sy), "b": r3(rng, 5.0, 200.0)}
    elif hk == "Swift":
        c["hardening"] = {"kind": "Swift", "K": r3(rng, sy, 4 * sy), "n": float("%.2f" % rng.uniform(0.1, 0.5)), "eps0": r3(rng, 1e-4, 1e-2)}
    if kk == "Prager":
        c["kinematic"] = [[r3(rng, E / 200, E / 10), 0.0]]
    elif kk == "AF":
        c["kinematic"] = [[r3(rng, E / 100, E / 5), r3(rng, 20.0, 500.0)]]
    elif kk == "Chaboche2":
        c["kinematic"] = [[r3(rng, E / 20, E / 3), r3(rng, 200.0, 800.0)], [r3(rng, E / 200, E / 20), rng.choice([0.0, r3(rng, 5.0, 100.0)])]]
    if rk == "Norton1":
        c["rate"] = {"kind": "Norton", "A": r3(rng, 1e-4, 1e-1), "n": 1.0, "sigma_0": sy}
    elif rk == "NortonN":
        c["rate"] = {"kind": "Norton", "A": r3(rng, 1e-4, 1e-1), "n": float("%.1f" % rng.uniform(1.5, 6.0)), "sigma_0": sy}
    elif rk == "Perzyna":
        c["rate"] = {"kind": "Perzyna", "eta": r3(rng, 10.0, 1e4), "n": rng.choice([1.0, 2.0]), "sigma_0": sy}
    if nb:
        gs = [float("%.2f" % rng.uniform(0.05, 0.4)) for _ in range(nb)]
        c["branches"] = [[g, r3(rng, 0.05, 20.0)] for g in gs]
    needs_dt = rk != "none" or nb > 0
    c["dt"] = r3(rng, 1e-2, 5.0) if needs_dt else 0.0
    c["eps_y"] = sy / E
    return c


def unit_dir(rng, n, deviatoric_bias=True):
    v = [rng.gauss(0, 1) for _ in range(n)]
    if rng.random() < 0.25:   # axis-aligned uniaxial-like
        v = [0.0] * n
        v[rng.randrange(n)] = rng.choice([-1.0, 1.0])
        if n == 6 and rng.random() < 0.5:
            i = max(range(3), key=lambda j: abs(v[j])) if any(v[:3]) else 0
            for j in range(3):
                if j != i:
                    v[j] = -0.3 * v[i]
    if rng.random() < 0.1 and n == 6:   # (nearly) hydrostatic
        v = [1.0, 1.0, 1.0, 0.0, 0.0, 0.0]
    nrm = math.sqrt(sum(x * x for x in v)) or 1.0
    return [x / nrm for x in v]


def gen_path(rng, kind, n, eps_y, nsteps):
    """Total-strain path as a list of vectors (n comps).  eps_y = sigma_y / E sets the scale."""
    amp = eps_y * rng.uniform(2.0, 8.0)
    d = unit_dir(rng, n)
    P = []
    if kind == "proportional":
        for k in range(1, nsteps + 1):
            P.append([amp * k / nsteps * x for x in d])
    elif kind == "reversal":
        m = max(2, nsteps // 3)
        ts = [k / m for k in range(1, m + 1)] + [1 - 2 * k / m for k in range(1, m + 1)] + [-1 + 1.5 * k / m for k in range(1, m + 1)]
        P = [[amp * t * x for x in d] for t in ts]
    elif kind == "nonproportional":
        d2 = unit_dir(rng, n)
        if rng.random() < 0.5:   # circle in the (d, d2) plane after a radial ramp
            m = max(2, nsteps // 4)
            P = [[amp * k / m * x for x in d] for k in range(1, m + 1)]
            for k in range(1, nsteps - m + 1):
                a = 2 * math.pi * k / (nsteps - m)
                P.append([amp * (math.cos(a) * x + math.sin(a) * y) for x, y in zip(d, d2)])
        else:                    # random walk with changing directions
            cur = [0.0] * n
            for k in range(nsteps):
                if k % 3 == 0:
                    d2 = unit_dir(rng, n)
                step = amp * rng.uniform(0.1, 0.8)
                cur = [c + step * y for c, y in zip(cur, d2)]
                P.append(list(cur))
    elif kind == "tiny":
        # ramp to just below first yield, then cross the surface with tiny increments, then tiny reversals
        base = 0.8 * eps_y
        P = [[base * x for x in d]]
        inc = eps_y * 10 ** rng.uniform(-8, -4)
        cur = list(P[0])
        big = eps_y * 0.15
        for k in range(nsteps):
            s = inc if k % 2 else big
            if k >= nsteps - 3:
                s = -inc
            cur = [c + s * x for c, x in zip(cur, d)]
            P.append(list(cur))
    elif kind == "huge":
        f = 10 ** rng.uniform(1.0, 2.5)
        P = [[eps_y * f * x for x in d]]
        d2 = unit_dir(rng, n)
        P.append([-eps_y * f * 0.7 * x for x in d2])
        P.append([eps_y * 0.5 * x for x in d])
    else:
        raise ValueError(kind)
    return [[float(x) for x in p] for p in P]


def all_combos():
    for yk, hk, kk, rk, nb, mode, ek in itertools.product(YIELDS, HARDS, KINS, RATES, BRANCHES, MODES, ELASTICS):
        if yk == "none" and (hk != "none" or kk != "none" or rk != "none"):
            continue   # the constructor rejects these (checked separately)
        yield (yk, hk, kk, rk, nb, mode, ek)


def pick_combos(rng, n):
    """n combos covering every level of every factor (round-robin over shuffled levels), then random."""
    allc = list(all_combos())
    rng.shuffle(allc)
    chosen, seen = [], set()
    # greedy pairwise-ish coverage: prefer combos adding unseen (factor, level) pairs and unseen pairs of levels
    cover = set()

    def gain(cb):
        keys = set()
        for i, a in enumerate(cb):
            keys.add((i, a))
            for j in range(i + 1, len(cb)):
                keys.add((i, a, j, cb[j]))
        return keys
    pool = allc[: min(len(allc), 600)]
    while len(chosen) < n and pool:
        best = max(pool[:80], key=lambda cb: len(gain(cb) - cover))
        pool.remove(best)
        chosen.append(best)
        cover |= gain(best)
    return chosen


def make_cases(rng, n_combos, nsteps, paths_per=2):
    cases = []
    for ci, combo in enumerate(pick_combos(rng, n_combos)):
        cfg = gen_config(rng, combo)
        n = 6 if cfg["mode"] == "3D" else 3
        kinds = [PATHS[(ci + j) % len(PATHS)] for j in range(paths_per)]
        for pk in kinds:
            c = dict(cfg)
            c["id"] = "c%03d-%s-%s" % (ci, "/".join(str(x) for x in combo), pk)
            c["combo"] = list(combo)
            c["path_kind"] = pk
            c["path"] = gen_path(rng, pk, n, cfg["eps_y"], nsteps)
            L = len(c["path"])
            c["fd_steps"] = sorted(set([L - 1, L // 2] if pk != "huge" else [L - 1]))
            c["fd_h"] = (1e-2 if cfg["mode"] == "PS" else 2e-3) * cfg["eps_y"]
            # spectral-reducible configurations are also run with solver="newton" and compared
            c["compare_solver"] = (combo[0] in ("VonMises", "Hill") and combo[2] == "none" and combo[4] == 0)
            cases.append(c)
    return cases


def make_adversarial(rng, n):
    """User-written softening hardening R = -H p (accepted by the constructor): the local Newton
    steps towards negative multipliers, so only the clamp / bound keep dGamma >= 0.  Only
    `dGamma >= 0` / `p monotone` / purity are checked on these (they need not converge)."""
    cases = []
    for i in range(n):
        ek = rng.choice(ELASTICS)
        el = gen_elastic(rng, ek)
        E = stiffness_scale(el)
        sy = r3(rng, 100.0, 600.0)
        yk = rng.choice(["VonMises", "Hill"])
        cfg = gen_config(rng, (yk, "none", "none", "none", 0, rng.choice(MODES), ek))
        E = stiffness_scale(cfg["elastic"])
        cfg["hardening"] = {"kind": "Softening", "H": r3(rng, 2 * E, 40 * E)}
        cfg["solver"] = "auto" if i % 3 else "newton"
        nn = 6 if cfg["mode"] == "3D" else 3
        pk = ["proportional", "reversal", "huge"][i % 3]
        cfg["id"] = "adv%02d-%s-softening-%s-%s-%s" % (i, yk, cfg["mode"], cfg["solver"], pk)
        cfg["combo"] = [yk, "Softening", "none", "none", 0, cfg["mode"], ek]
        cfg["path_kind"] = pk
        cfg["path"] = gen_path(rng, pk, nn, cfg["eps_y"], 8)
        cfg["fd_steps"] = []
        cfg["compare_solver"] = False
        cases.append(cfg)
    return cases


def make_spectral(rng, n):
    """Reducible configurations with LINEAR hardening and no rate law: the scalar return is
    compared with the executable fixed-point instance of the Coq model."""
    cases = []
    for i in range(n):
        yk = ["VonMises", "Hill"][i % 2]
        ek = ELASTICS[i % 3]
        cfg = gen_config(rng, (yk, "Linear", "none", "none", 0, "3D", ek))
        if i % 5 == 4:
            cfg["hardening"] = {"kind": "Linear", "H": 0.0}       # perfect plasticity
        pts = []
        for j in range(3):
            d = unit_dir(rng, 6)
            amp = cfg["eps_y"] * rng.choice([0.5, 1.5, 3.0, 10.0, 60.0])
            d2 = unit_dir(rng, 6)
            pts.append({"eps": [amp * x for x in d], "epsP": [0.2 * cfg["eps_y"] * (x - (sum(d2[:3]) / 3 if k < 3 else 0)) for k, x in enumerate(d2)] if j else [0.0] * 6,
                        "pOld": float("%.3g" % (rng.uniform(0, 5) * cfg["eps_y"])) if j else 0.0})
        cfg["points"] = pts
        cfg["id"] = "sp%02d-%s-%s" % (i, yk, ek)
        cases.append(cfg)
    return cases


def make_sims(rng, n):
    sims = []
    for i in range(n):
        mode = ["PE", "3D", "PS"][i % 3] if n > 2 else ["PE", "PS"][i % 2]
        yk = rng.choice(["VonMises", "Hill", "DruckerPrager"])
        hk = rng.choice(["Linear", "Voce"])
        kk = rng.choice(["none", "Prager"])
        rk = rng.choice(["none", "none", "Norton1"])
        cfg = gen_config(rng, (yk, hk, kk, rk, 1 if i % 4 == 3 else 0, mode, "iso"))
        L = 10.0
        u1 = cfg["eps_y"] * L
        ops = []
        lvl = 0.0
        for k in range(rng.randint(4, 7)):
            lvl += u1 * rng.uniform(0.25, 0.6) * (1 if k < 4 else -1)
            ops.append(["solve", float("%.6g" % lvl)])
            r = rng.random()
            if r < 0.3:
                ops.append(["solve", float("%.6g" % (lvl * 1.1))])      # a second Solve without saving
            if r > 0.6:
                ops.append(["result", rng.choice(["Svm", "Sxx", "p"])])
            if rng.random() < 0.35:
                ops.append(["assemble"])
            ops.append(["save"])
            if rng.random() < 0.3:
                ops.append(["set", rng.choice([-1, 0, k // 2])])
        # every run restores a saved iteration at least once, saves right after it, and goes on
        ops += [["set", 0 if i % 2 else -1], ["save"], ["solve", float("%.6g" % (0.8 * lvl))], ["save"]]
        if i % 2 == 0:
            # the mesh is replaced: fresh history, then one small (elastic) and one larger step
            ops += [["remesh"], ["solve", float("%.6g" % (0.4 * u1))], ["save"], ["solve", float("%.6g" % (1.6 * u1))], ["save"]]
        cfg["ops"] = ops
        cfg["elem"] = rng.choice(["QUAD4", "TRI3"])
        cfg["id"] = "sim%02d-%s-%s" % (i, mode, "/".join([yk, hk, kk, rk]))
        sims.append(cfg)
    return sims


def corpus():
    """Fixed regression cases, always run first (minimised past failures)."""
    base = {"mode": "3D", "elastic": {"kind": "iso", "E": 164000.0, "v": 0.23}, "yield": {"kind": "VonMises", "sigma_y": 167.0},
            "hardening": {"kind": "Swift", "K": 361.0, "n": 0.19, "eps0": 0.00205}, "eps_y": 167.0 / 164000.0}
    c1 = dict(base, rate={"kind": "Norton", "A": 0.000273, "n": 4.7, "sigma_0": 167.0}, dt=0.505,
              id="corpus-spectral-rate-n4.7", combo=["VonMises", "Swift", "none", "NortonN", 0, "3D", "iso"], path_kind="proportional",
              path=[[-0.0009989, -0.001108, 0.0007, 0.0, 0.0, -0.0012959], [-0.0019978, -0.002216, 0.0014, 0.0, 0.0, -0.0025918]],
              fd_steps=[1], fd_h=2e-6, compare_solver=True)
    c2 = {"mode": "3D", "elastic": {"kind": "iso", "E": 219000.0, "v": 0.08}, "yield": {"kind": "VonMises", "sigma_y": 138.0},
          "hardening": {"kind": "Voce", "Q": 77.3, "b": 189.0}, "kinematic": [[9990.0, 0.0]], "branches": [[0.19, 0.117]], "dt": 1.56,
          "eps_y": 138.0 / 219000.0, "id": "corpus-kinematic-with-branch-tangent", "combo": ["VonMises", "Voce", "Prager", "none", 1, "3D", "iso"],
          "path_kind": "proportional", "path": [[0.0008 * k, -0.0003 * k, -0.0002 * k, 0.0002 * k, 0.0, 0.0001 * k] for k in (1, 2, 3)],
          "fd_steps": [2], "fd_h": 1.2e-6, "compare_solver": False}
    return [c1, c2]


def make_batches(rng, n):
    """Fields of several elements x Gauss points in ONE Integrate call, mixing an unstrained point,
    elastic and plastic points, tension and compression (sign-uniform fields included: all
    compressive / all tensile), in plane stress, plane strain and 3-D, with and without internal
    variables.  A second call continues from the state of the first (non-virgin history)."""
    out = []
    kinds = ["compressive", "tensile", "mixed", "graded-compression", "graded-tension"]
    for i in range(n):
        mode = ["PS", "PE", "3D", "PS"][i % 4]
        fam = i % 6
        if fam == 0:
            combo = ("none", "none", "none", "none", 0, mode, ELASTICS[(i // 6) % 3])
        elif fam == 1:
            combo = ("VonMises", "Linear", "none", "none", 0, mode, "iso")
        elif fam == 2:
            combo = (rng.choice(["Hill", "VonMises"]), rng.choice(HARDS), "none", "none", 0, mode, rng.choice(ELASTICS))
        elif fam == 3:
            combo = (rng.choice(["VonMises", "DruckerPrager"]), rng.choice(HARDS), rng.choice(["Prager", "AF"]), "none", 0, mode, "iso")
        elif fam == 4:
            combo = ("none", "none", "none", "none", rng.choice([1, 2]), mode, "iso")
        else:
            combo = (rng.choice(["VonMises", "Hill"]), "Linear", "none", rng.choice(["Norton1", "NortonN"]), 0, mode, "iso")
        cfg = gen_config(rng, combo)
        nn = 6 if mode == "3D" else 3
        Ne, nPg = rng.choice([(1, 4), (2, 3), (3, 2), (1, 6)])
        kind = kinds[i % len(kinds)]
        ey = cfg["eps_y"]
        base = unit_dir(rng, nn)
        if nn == 3:
            base = [abs(base[0]) + 0.2, 0.5 * abs(base[1]), 0.3 * base[2]]      # normal strains of one sign
        else:
            base = [abs(base[0]) + 0.2, 0.5 * abs(base[1]), 0.5 * abs(base[2]), 0.3 * base[3], 0.3 * base[4], 0.3 * base[5]]
        field = []
        npts = Ne * nPg
        for j in range(npts):
            if j == 0:
                v = [0.0] * nn                                         # an unstrained point
            else:
                if kind.startswith("graded"):
                    a = ey * 6.0 * j / (npts - 1)
                else:
                    a = ey * rng.choice([0.05, 0.3, 0.8, 1.5, 3.0, 6.0])
                sgn = {"compressive": -1.0, "tensile": 1.0, "graded-compression": -1.0, "graded-tension": 1.0}.get(kind, rng.choice([-1.0, 1.0]))
                jit = [1.0 + 0.3 * rng.uniform(-1, 1) for _ in range(nn)] if not kind.startswith("graded") else [1.0] * nn
                v = [sgn * a * b * t for b, t in zip(base, jit)]
            field.append([float(x) for x in v])
        f1 = [field[e * nPg:(e + 1) * nPg] for e in range(Ne)]
        f2 = [[[x * rng.choice([1.4, 0.6, -0.5]) for x in pt] for pt in el] for el in f1]
        cfg.update(id="bat%02d-%s-%s-%dx%d" % (i, "/".join(str(x) for x in combo), kind, Ne, nPg), combo=list(combo), fields=[f1, f2], field_kind=kind)
        out.append(cfg)
    return out


def make_memo_cases(rng, n):
    """The elastic parameters are changed BETWEEN two Integrate calls of the same Behavior: the
    result must be that of a Behavior built afresh with the new parameters (the spectral
    decomposition is a memo keyed by C), and changing them back must give the first result again."""
    out = []
    for i in range(n + max(3, n // 2)):
        yk = ["VonMises", "Hill"][i % 2]
        hk = ["Linear", "Voce", "none", "Swift"][i % 4]
        rk = "none" if i % 3 else "Norton1"
        mode = MODES[i % 3]
        cfg = gen_config(rng, (yk, hk, "none", rk, 0, mode, "iso"))
        nn = 6 if mode == "3D" else 3
        cfg["solver"] = "auto" if i % 4 != 3 else "newton"
        E0, v0 = cfg["elastic"]["E"], cfg["elastic"]["v"]
        kind = ["large", "rel1e-6", "rel1e-9", "ulp", "rel4e-6", "v-rel1e-7"][i % 6]
        if kind == "large":
            cfg["elastic2"] = {"kind": "iso", "E": float("%.4g" % (E0 * rng.choice([0.5, 0.8, 1.7]))), "v": float("%.2f" % min(0.45, max(0.02, v0 + rng.choice([-0.1, 0.07]))))}
        elif kind == "ulp":
            cfg["elastic2"] = {"kind": "iso", "E": math.nextafter(E0, math.inf), "v": v0}
        elif kind == "v-rel1e-7":
            cfg["elastic2"] = {"kind": "iso", "E": E0, "v": v0 * (1 + 1e-7)}
        else:
            cfg["elastic2"] = {"kind": "iso", "E": E0 * (1 + float(kind[3:])), "v": v0}
        cfg["change_kind"] = kind
        # every public way of changing the law: parameter setters (first n cases), then
        # `law.C = ...`, Set_C(update_S=False) and Set_C(update_S=True) on an Anisotropic law
        cfg["law_change"] = "params"
        if i >= n:
            cfg["law_change"] = ["C-setter", "Set_C-noS", "Set_C"][i % 3]
            if kind in ("ulp", "v-rel1e-7"):
                kind = cfg["change_kind"] = "large"
                cfg["elastic2"] = {"kind": "iso", "E": float("%.4g" % (E0 * 0.6)), "v": float("%.2f" % min(0.45, v0 + 0.08))}
            cfg["solver"] = "auto"
        d = unit_dir(rng, nn)
        cfg["eps"] = [[cfg["eps_y"] * a * x for x in d] for a in (0.4, 2.5, 5.0)]
        cfg["id"] = "memo%02d-%s-%s-%s-%s-%s-%s-%s" % (i, yk, hk, rk, mode, cfg["solver"], kind, cfg["law_change"])
        cfg["combo"] = [yk, hk, "none", rk, 0, mode, "iso"]
        out.append(cfg)
    return out


STRESS_KEYS = {"elastic": ["E", "E1", "E2", "E3", "G12", "G13", "G23", "El", "Et", "Gl"], "yield": ["sigma_y"],
               "hardening": ["H", "Q", "K"], "rate": ["sigma_0"]}


def scale_units(cfg, s):
    """The same material expressed in other stress units: every stress-like parameter times s
    (moduli, sigma_y, hardening moduli, kinematic moduli, the rate law's reference stress);
    dimensionless and time-like parameters (nu, b, n, eps0, gamma, A, eta, g, tau, Hill/DP
    coefficients) unchanged."""
    import copy
    c = copy.deepcopy(cfg)
    for grp, keys in STRESS_KEYS.items():
        if c.get(grp):
            for k in keys:
                if k in c[grp]:
                    c[grp][k] = c[grp][k] * s
    if c.get("kinematic"):
        c["kinematic"] = [[C * s, g] for C, g in c["kinematic"]]
    return c


def scale_time(cfg, sT):
    """The same material and loading history in other TIME units: dt, relaxation times and Perzyna's
    viscosity times sT, Norton's fluidity A divided by sT."""
    import copy
    c = copy.deepcopy(cfg)
    c["dt"] = c.get("dt", 0.0) * sT
    if c.get("rate"):
        if c["rate"]["kind"] == "Norton":
            c["rate"]["A"] = c["rate"]["A"] / sT
        else:
            c["rate"]["eta"] = c["rate"]["eta"] * sT
    if c.get("branches"):
        c["branches"] = [[g, tau * sT] for g, tau in c["branches"]]
    return c


UNIT_SCALES = [1e-3, 1e-6, 1e4]
TIME_SCALES = [1e-9, 1e3]


def make_unit_cases(rng, n):
    """Unit invariance: for each base material + strain path, the same material in units where
    stresses are s times larger (sigma_y < 1 and > 1e6 included) must give stress = s x stress,
    the same plastic strain and the same active set."""
    groups = []
    for i in range(n):
        yk = ["VonMises", "Hill", "DruckerPrager"][i % 3] if i % 5 else "VonMises"
        hk = HARDS[i % 4]
        kk = "none" if i % 3 else rng.choice(["Prager", "AF"])
        rk = "none" if i % 4 else rng.choice(["Norton1", "NortonN", "Perzyna"])
        nb = 0 if i % 6 else 1
        mode = MODES[i % 3]
        cfg = gen_config(rng, (yk, hk, kk, rk, nb, mode, rng.choice(ELASTICS)))
        nn = 6 if mode == "3D" else 3
        cfg["path"] = gen_path(rng, ["proportional", "reversal"][i % 2], nn, cfg["eps_y"], 6)
        cfg["combo"] = [yk, hk, kk, rk, nb, mode, cfg["elastic"]["kind"]]
        cfg["path_kind"] = "units"
        cfg["fd_steps"] = []
        cfg["compare_solver"] = (yk in ("VonMises", "Hill") and kk == "none" and nb == 0)
        members = []
        for s in [1.0] + UNIT_SCALES:
            c = scale_units(cfg, s)
            c["unit_scale"] = s
            c["id"] = "unit%02d-s%g-%s" % (i, s, "/".join(str(x) for x in cfg["combo"]))
            members.append(c)
        if cfg.get("rate") or cfg.get("branches"):
            for sT in TIME_SCALES:        # time twins: same stresses (unit_scale = 1)
                c = scale_time(cfg, sT)
                c["unit_scale"] = 1.0
                c["time_scale"] = sT
                c["id"] = "unit%02d-t%g-%s" % (i, sT, "/".join(str(x) for x in cfg["combo"]))
                members.append(c)
        groups.append(members)
    return groups
