"""C10 correspondence, implementation side: solve a problem and the rigidly moved problem with
EasyFEA and report the discrepancy after transforming back.  stdin: {"cases": [...]}, stdout JSON.
`run_case(case)` is also used by the replays."""
import json
import math
import sys
import numpy as np


def rot_matrix(axis, deg):
    a = np.asarray(axis, dtype=float)
    a = a / np.linalg.norm(a)
    t = math.radians(deg)
    K = np.array([[0, -a[2], a[1]], [a[2], 0, -a[0]], [-a[1], a[0], 0]])
    return np.eye(3) + math.sin(t) * K + (1 - math.cos(t)) * (K @ K)


def transform(case):
    """-> (R 3x3 orthogonal, t 3-vector)"""
    R = rot_matrix(case.get("axis", [0, 0, 1]), case.get("angle", 0.0))
    if case.get("reflect"):
        n = np.asarray(case["reflect"], dtype=float)
        n = n / np.linalg.norm(n)
        R = R @ (np.eye(3) - 2 * np.outer(n, n))
    if case.get("exact"):
        # rotations by exact multiples of 90 degrees about a coordinate axis, reflections through coordinate
        # planes: exact matrices (entries -1, 0, 1), so that coordinates that should be 0 ARE 0
        Rr = np.round(R)
        if np.abs(R - Rr).max() > 1e-9:
            raise ValueError("exact=True needs a signed permutation matrix")
        R = Rr + 0.0
    t = np.asarray(case.get("translate", [0, 0, 0]), dtype=float)
    if case.get("center") and case.get("angle"):
        # the rotation (not the reflection) is about an axis through `center`
        c = np.asarray(case["center"], dtype=float)
        Rrot = rot_matrix(case.get("axis", [0, 0, 1]), case.get("angle", 0.0))
        t = t + c - Rrot @ c
    return R, t


def move_mesh(mesh, R, t):
    new = mesh.coord @ R.T + t
    for g in mesh.dict_groupElem.values():
        g.coord = new
    mesh._Notify("The mesh has been modified")


def api_steps(case):
    """the same rigid motion as transform(case), as a sequence of Mesh API calls:
    x -> R_rot (S x) + t   (reflection through the plane {n.x = 0} first, then rotation about the
    origin, then translation)"""
    steps = []
    if case.get("reflect"):
        steps.append(("Symmetry", ((0.0, 0.0, 0.0), tuple(float(v) for v in case["reflect"]))))
    if case.get("angle"):
        steps.append(("Rotate", (float(case["angle"]), tuple(float(v) for v in case.get("center", [0, 0, 0])), tuple(float(v) for v in case.get("axis", [0, 0, 1])))))
    if case.get("translate"):
        steps.append(("Translate", tuple(float(v) for v in case["translate"])))
    return steps


def step_matrix(step):
    name, args = step
    if name == "Symmetry":
        n = np.asarray(args[1], dtype=float)
        n = n / np.linalg.norm(n)
        p = np.asarray(args[0], dtype=float)
        S = np.eye(3) - 2 * np.outer(n, n)
        return S, p - S @ p
    if name == "Rotate":
        Rm = rot_matrix(args[2], args[0])
        c = np.asarray(args[1], dtype=float)
        return Rm, c - Rm @ c
    return np.eye(3), np.asarray(args, dtype=float)


def move_mesh_api(mesh, case, report=None):
    """apply the motion with mesh.Symmetry / Rotate / Translate; after each call compare the
    coordinates of EVERY element group (all dimensions) with the transformed coordinates"""
    orig = {k: np.array(g.coord, dtype=float) for k, g in mesh.dict_groupElem.items()}
    Rc, tc = np.eye(3), np.zeros(3)
    for step in api_steps(case):
        getattr(mesh, step[0])(*step[1])
        Rm, tv = step_matrix(step)
        Rc, tc = Rm @ Rc, Rm @ tc + tv            # cumulative motion of the ORIGINAL coordinates
        for k, g in mesh.dict_groupElem.items():
            exp = orig[k] @ Rc.T + tc
            e = float(np.abs(np.asarray(g.coord, dtype=float) - exp).max() / max(1.0, np.abs(exp).max()))
            if report is not None and e > 1e-12 and "step" not in report:
                report.update({"err": e, "group": str(k), "dim": int(g.dim), "step": step[0]})
            elif report is not None and e > report.get("err", 0.0) and report.get("step") == step[0]:
                report.update({"err": e, "group": str(k), "dim": int(g.dim)})
            elif report is not None and "step" not in report:
                report["err"] = max(report.get("err", 0.0), e)


def rel(a, b):
    a, b = np.asarray(a, dtype=float), np.asarray(b, dtype=float)
    return float(np.abs(a - b).max() / max(np.abs(b).max(), 1e-300))


# ------------------------------------------------------------------------------ continuum
def field_of(value, form, mesh):
    """the same value as a homogeneous value, a per-element field or a per-Gauss-point field"""
    from EasyFEA import MatrixType
    if form in (None, "homogeneous"):
        return value
    Ne = mesh.Ne
    v = np.asarray(value, dtype=float)
    if form == "per-element":
        return np.broadcast_to(v, (Ne,) + v.shape).copy()
    nPg = mesh.groupElem.Get_gauss(MatrixType.rigi).nPg
    return np.broadcast_to(v, (Ne, nPg) + v.shape).copy()


def build_material(case, R, mesh=None):
    from EasyFEA import Models
    dim = case["dim"]
    form = case.get("form")
    law = case["law"]
    a = np.asarray(case.get("axes", [[1, 0, 0], [0, 1, 0]])[0], dtype=float)
    b = np.asarray(case.get("axes", [[1, 0, 0], [0, 1, 0]])[1], dtype=float)
    a, b = R @ a, R @ b
    ps = case.get("ps", True)
    if law == "iso":
        return Models.Elastic.Isotropic(dim, E=field_of(case["E"], form, mesh), v=case["v"], planeStress=ps)
    if law == "ti":
        return Models.Elastic.TransverselyIsotropic(dim, El=field_of(case["El"], form, mesh), Et=field_of(case["Et"], form, mesh), Gl=case["Gl"], vl=case["vl"], vt=case["vt"],
                                                    axis_l=a, axis_t=b, planeStress=ps)
    if law == "ortho":
        p = case["p"]
        return Models.Elastic.Orthotropic(dim, *p, axis_1=a, axis_2=b, planeStress=ps)
    if law == "aniso":
        C = np.asarray(case["C"], dtype=float)
        voigt = bool(case.get("voigt", False))
        if voigt:        # case["C"] is Kelvin-Mandel: hand the same material over in Voigt notation
            d = np.array([1, 1, np.sqrt(2)]) if C.shape[0] == 3 else np.array([1, 1, 1, np.sqrt(2), np.sqrt(2), np.sqrt(2)])
            C = C / np.outer(d, d)
        return Models.Elastic.Anisotropic(dim, field_of(C, form, mesh), voigt, a, b)
    raise ValueError(law)


def solve_continuum(case, moved):
    from EasyFEA import Mesher, Models, Simulations, ElemType
    from EasyFEA.Geoms import Domain, Point
    dim = case["dim"]
    R, t = transform(case) if moved else (np.eye(3), np.zeros(3))
    L, h = 2.0, 1.0
    mesher = Mesher()
    if dim == 2:
        mesh = mesher.Mesh_2D(Domain(Point(0, 0), Point(L, h), case.get("meshSize", 0.5)), [], case["elemType"])
    else:
        mesh = mesher.Mesh_Extrude(Domain(Point(0, 0), Point(L, h), case.get("meshSize", 0.7)), [], [0, 0, 0.6], [2], case["elemType"])
    x0 = mesh.coord.copy()
    left = np.where(np.abs(x0[:, 0]) < 1e-9)[0]
    right = np.where(np.abs(x0[:, 0] - L) < 1e-9)[0]
    top = np.where(np.abs(x0[:, 1] - h) < 1e-9)[0]
    sL = float(case.get("scaleL", 1.0))
    if sL != 1.0:                                  # scaled twin: change of length unit
        move_mesh(mesh, sL * np.eye(3), np.zeros(3))
        t = t * sL
    motion = {}
    if moved:
        if case.get("build", "coords") == "api":
            mesh = mesh.copy()
            move_mesh_api(mesh, case, motion)
        else:
            move_mesh(mesh, R, t)
    unknowns = ["x", "y", "z"][:dim]
    loads = case.get("loads", "nodal")

    def back(x, y, z):          # position on the moved mesh -> original position, shape (..., 3)
        X = np.stack([np.asarray(x, dtype=float), np.asarray(y, dtype=float), np.asarray(z, dtype=float)], axis=-1)
        return (X - t) @ R

    if case["kind"] == "thermal":
        mat = Models.Thermal(k=case.get("k", 2.5), c=1.0, thickness=1.0)
        simu = Simulations.Thermal(mesh, mat, verbosity=False)
        if loads == "field":
            simu.add_dirichlet(left, [lambda x, y, z: 3.0 + 2.0 * back(x, y, z)[..., 1]], ["t"])
            simu.add_lineLoad(right, [lambda x, y, z: 1.0 + 4.0 * back(x, y, z)[..., 1] ** 2], ["t"]) if dim == 2 else \
                simu.add_surfLoad(right, [lambda x, y, z: 1.0 + 4.0 * back(x, y, z)[..., 1] ** 2], ["t"])
        else:
            simu.add_dirichlet(left, [case.get("T0", 3.0)], ["t"])
            simu.add_neumann(right, [case.get("q", 1.7)], ["t"])
        sol = simu.Solve()
        return np.asarray(sol, dtype=float).copy(), R, None, motion
    mat = build_material(case, R, mesh)
    simu = Simulations.Elastic(mesh, mat, verbosity=False)
    u0 = np.asarray(case.get("u0", [0.0, 0.0, 0.0]), dtype=float)
    F = np.asarray(case["F"], dtype=float)
    if loads == "field":
        # Dirichlet values and tractions given as functions of the position on the (moved) mesh
        def uD(k):
            return lambda x, y, z: (R @ (u0[:, None] * (1.0 + back(x, y, z)[..., 1].reshape(1, -1))))[k].reshape(np.shape(x))

        def trac(k):
            return lambda x, y, z: (R @ (F[:, None] * (0.5 + back(x, y, z)[..., 1].reshape(1, -1) ** 2)))[k].reshape(np.shape(x))
        simu.add_dirichlet(left, [uD(k) for k in range(dim)], unknowns)
        if dim == 2:
            simu.add_lineLoad(right, [trac(k) for k in range(dim)], unknowns)
        else:
            simu.add_surfLoad(right, [trac(k) for k in range(dim)], unknowns)
        if case.get("pressure"):
            simu.add_pressureLoad(top, float(case["pressure"]))
    else:
        u0m, Fm = R @ u0, R @ F
        simu.add_dirichlet(left, [float(x) for x in u0m[:dim]], unknowns)
        simu.add_neumann(right, [float(x) for x in Fm[:dim]], unknowns)
    sol = np.asarray(simu.Solve(), dtype=float).reshape(-1, dim).copy()
    W = float(simu.Result("Wdef"))
    return sol, R, W, motion


def run_continuum(case):
    s1, _, W1, _ = solve_continuum(case, False)
    s2, R, W2, motion = solve_continuum(case, True)
    out = {}
    if motion.get("err", 0.0) > 1e-12:
        out["motion"] = motion
    if case["kind"] == "thermal":
        out.update({"err": max(rel(s2, s1), motion.get("err", 0.0)), "err_T": rel(s2, s1), "what": "temperature field", "n": int(s1.size),
                    "sample": [float(s1[-1]), float(s2[-1])]})
        return out
    dim = case["dim"]
    back = s2 @ R[:dim, :dim]          # rows: R^T u'
    e = rel(back, s1)
    eW = abs(W2 - W1) / max(abs(W1), 1e-300)
    out.update({"err": max(e, eW, motion.get("err", 0.0)), "err_u": e, "err_W": eW, "what": "displacement (transformed back) and strain energy",
                "n": int(s1.size), "sample": [s1[-1].tolist(), back[-1].tolist(), W1, W2]})
    return out


def run_motion(case):
    """mesh.Translate / Rotate / Symmetry on a copy: every element group must carry the moved coordinates"""
    from EasyFEA import Mesher
    from EasyFEA.Geoms import Domain, Point
    mesher = Mesher()
    if case["dim"] == 2:
        mesh = mesher.Mesh_2D(Domain(Point(0, 0), Point(2.0, 1.0), 0.5), [], case["elemType"])
    else:
        mesh = mesher.Mesh_Extrude(Domain(Point(0, 0), Point(2.0, 1.0), 0.7), [], [0, 0, 0.6], [2], case["elemType"])
    m2 = mesh.copy()
    rep = {}
    move_mesh_api(m2, case, rep)
    R, t = transform(case)
    tot = float(np.abs(m2.coord - (mesh.coord @ R.T + t)).max())
    orig = float(np.abs(mesh.coord - mesh.copy().coord).max())
    return {"err": max(rep.get("err", 0.0), tot, orig), "motion": rep, "groups": sorted("%s(dim %d)" % (k, g.dim) for k, g in m2.dict_groupElem.items()),
            "what": "coordinates of every element group after mesh.Symmetry/Rotate/Translate vs the transformed coordinates"}


# ------------------------------------------------------------------------------ beams
def solve_beam(case, moved):
    from EasyFEA import Mesher, Models, Simulations
    from EasyFEA.Geoms import Domain, Point, Line
    dim = case["dim"]
    R, t = transform(case) if moved else (np.eye(3), np.zeros(3))
    det = float(np.linalg.det(R))
    mesher = Mesher()
    sL = float(case.get("scaleL", 1.0))           # change of length unit (scaled twin)
    Emod = 210000.0 * float(case.get("scaleE", 1.0))

    def make_section(bh):
        b_, h_ = bh[0] * sL, bh[1] * sL
        return mesher.Mesh_2D(Domain(Point(-b_ / 2, -h_ / 2), Point(b_ / 2, h_ / 2)))
    if "points" in case:
        pts0 = [np.asarray(p, dtype=float) for p in case["points"]]
    else:
        d0 = np.asarray(case.get("dir", [1, 0, 0]), dtype=float)
        pts0 = [np.zeros(3), 120.0 * d0 / np.linalg.norm(d0)]
    members = case.get("members") or [[k, k + 1] for k in range(len(pts0) - 1)]
    pts0 = [p * sL for p in pts0]
    t = t * sL
    ptsv = [R @ p + t for p in pts0]
    pts = [Point(*p) for p in ptsv]
    beams = []
    secs = case.get("sections") or [[13.0, 9.0]] * len(members)
    for (i1, i2), bh in zip(members, secs):
        p1, p2, q1, q2 = pts[i1], pts[i2], pts0[i1], pts0[i2]
        kw = {}
        if "yAxis" in case:
            kw["yAxis"] = tuple(R @ np.asarray(case["yAxis"], dtype=float))
        elif dim == 3:
            # a definite section axis perpendicular to the member, moved with the structure
            d = (q2 - q1) / np.linalg.norm(q2 - q1)
            y0 = np.cross([0.3, -0.5, 0.8], d)
            kw["yAxis"] = tuple(R @ (y0 / np.linalg.norm(y0)))
        line = Line(p1, p2, float(np.linalg.norm(q2 - q1)) / case.get("nL", 3))
        beams.append(Models.Beam.Isotropic(dim, line, make_section(bh), Emod, 0.3, **kw))
    mesh = mesher.Mesh_Beams(beams, elemType=case["elemType"])
    st = Models.Beam.BeamStructure(beams)
    simu = Simulations.Beam(mesh, st, useTimoshenko=case.get("timo", False), verbosity=False)
    mesh = simu.mesh
    simu.add_dirichlet(mesh.Nodes_Point(pts[0]), [0] * simu.Get_dof_n(), simu.Get_unknowns())
    joints = [k for k in range(len(pts)) if sum(1 for m_ in members if k in m_) > 1]
    for k in joints:
        simu.add_connection_fixed(mesh.Nodes_Point(pts[k]))
    for k in case.get("clamped", [])[1:]:
        simu.add_dirichlet(mesh.Nodes_Point(pts[k]), [0] * simu.Get_dof_n(), simu.Get_unknowns())
    F = R @ np.asarray(case["F"], dtype=float)
    tip = mesh.Nodes_Point(pts[case.get("loaded", len(pts) - 1)])
    simu.add_neumann(tip, [float(x) for x in F[:dim]], ["x", "y", "z"][:dim])
    if case.get("lineload"):
        ql = R @ np.asarray(case["lineload"], dtype=float) / sL
        simu.add_lineLoad(mesh.nodes, [float(x) for x in ql[:dim]], ["x", "y", "z"][:dim])
    M = np.asarray(case.get("M", [0, 0, 0]), dtype=float)
    if np.abs(M).max() > 0:
        Mm = det * (R @ M)                       # moments are pseudo-vectors
        if dim == 2:
            simu.add_neumann(tip, [float(Mm[2])], ["rz"])
        else:
            simu.add_neumann(tip, [float(x) for x in Mm], ["rx", "ry", "rz"])
    simu.Solve()
    names = ["ux", "uy", "rz"] if dim == 2 else ["ux", "uy", "uz", "rx", "ry", "rz"]
    res = {r: np.asarray(simu.Result(r, nodeValues=True), dtype=float).reshape(-1) for r in names}
    # internal axial force per element (a scalar in the member's own axes) and the element centroids
    res["N_e"] = np.asarray(simu.Result("N", nodeValues=False), dtype=float).reshape(-1)
    res["cent_e"] = np.asarray(mesh.coord, dtype=float)[mesh.connect].mean(1)
    return res, R, t, np.array(mesh.coord, dtype=float)


def run_beam(case):
    r1, _, _, c1 = solve_beam(case, False)
    r2, R, t, c2 = solve_beam(case, True)
    dim = case["dim"]
    det = float(np.linalg.det(R))
    # node correspondence through the moved coordinates (rigid joints duplicate nodes: match in order)
    exp = c1 @ R.T + t
    used, idx = set(), []
    for x in exp:
        d = np.linalg.norm(c2 - x, axis=1)
        for k in np.argsort(d):
            if k not in used:
                used.add(int(k))
                idx.append(int(k))
                break
    idx = np.array(idx)
    if np.abs(c2[idx] - exp).max() > 1e-6 * max(1.0, np.abs(exp).max()):
        return {"raises": "node correspondence between the original and the moved beam mesh failed"}
    n = len(idx)
    u1 = np.zeros((n, 3))
    u2 = np.zeros((n, 3))
    w1 = np.zeros((n, 3))
    w2 = np.zeros((n, 3))
    for k, nm in enumerate(["ux", "uy", "uz"][:dim]):
        u1[:, k], u2[:, k] = r1[nm], r2[nm][idx]
    for k, nm in enumerate(["rx", "ry", "rz"]):
        if nm in r1:
            w1[:, k], w2[:, k] = r1[nm], r2[nm][idx]
    bu = u2 @ R                      # rows R^T u'
    bw = det * (w2 @ R)              # pseudo-vector
    eu = float(np.abs(bu - u1).max() / np.abs(u1).max())
    ew = float(np.abs(bw - w1).max() / np.abs(w1).max())
    i = int(np.argmax(np.abs(w1).max(axis=1)))
    # axial force: unchanged, element by element
    ce = r1["cent_e"] @ R.T + t
    eidx = np.array([int(np.argmin(np.linalg.norm(r2["cent_e"] - x, axis=1))) for x in ce])
    eN = float(np.abs(r2["N_e"][eidx] - r1["N_e"]).max() / max(np.abs(r1["N_e"]).max(), 1e-300))
    return {"err": max(eu, ew, eN), "err_u": eu, "err_rot": ew, "err_N": eN, "N_original": r1["N_e"][:3].tolist(), "N_moved": r2["N_e"][eidx][:3].tolist(),
            "what": "nodal displacements, rotations (pseudo-vector) and element axial forces N of the moved structure vs the original",
            "sample": {"node": i, "u_original": u1[i].tolist(), "u_moved_back": bu[i].tolist(), "rot_original": w1[i].tolist(), "rot_moved_back": bw[i].tolist(),
                       "rot_moved_raw": w2[i].tolist(), "det_R": det}}


# ------------------------------------------------------------------------------ hyperelastic
HO_PARAMS = dict(C0=19.0 / 2 / 8.023, C1=8.023, C2=6157.0 / 2 / 16.026, C3=16.026, C4=827.0 / 2 / 11.12, C5=11.12,
                 C6=72.0 / 2 / 11.436, C7=11.436, K=1e4, Mu1=0.0, Mu2=0.0, ks=100.0)


def hyper_material(case, mesh0, Q):
    """material of the (moved by Q) problem; fibre / sheet directions are defined on the REFERENCE
    placement (constants or per-Gauss-point fields) and moved with the body"""
    from EasyFEA import Models, MatrixType
    from EasyFEA.FEM import FeArray
    dim, law = case["dim"], case["law"]
    H = Models.HyperElastic
    if law == "neo":
        return H.NeoHookean(dim, K=case.get("K", 50.0))
    if law == "mooney":
        return H.MooneyRivlin(dim, K1=case.get("K1", 30.0), K2=case.get("K2", 12.0), K=case.get("K", 200.0))
    if law == "svk":
        return H.SaintVenantKirchhoff(dim, lmbda=case.get("lmbda", 60.0), mu=case.get("mu", 40.0))
    if law == "ho":
        X = np.asarray(mesh0.groupElem.Get_GaussCoordinates_e_pg(MatrixType.rigi))
        if case.get("fibres", "field") == "field":
            ang = np.deg2rad(-50 + 100 * X[..., 0] / 2.0)
            tilt = np.deg2rad(case.get("tilt", 35.0) * (0.5 + X[..., 1]))
        else:
            ang = np.full(X.shape[:2], np.deg2rad(case.get("angle0", 25.0)))
            tilt = np.full(X.shape[:2], np.deg2rad(case.get("tilt", 35.0)))
        T1 = np.stack([np.cos(ang) * np.cos(tilt), np.sin(ang) * np.cos(tilt), np.sin(tilt)], -1)   # out of the xy plane
        T2 = np.stack([-np.sin(ang), np.cos(ang), np.zeros_like(ang)], -1)                           # orthogonal to T1
        if case.get("fibres", "field") == "const_vector":
            return H.HolzapfelOgden(dim, T1=Q @ T1[0, 0], T2=Q @ T2[0, 0], **HO_PARAMS)
        return H.HolzapfelOgden(dim, T1=FeArray.asfearray(T1 @ Q.T), T2=FeArray.asfearray(T2 @ Q.T), **HO_PARAMS)
    raise ValueError(law)


def run_hyper(case):
    import contextlib
    import io
    from EasyFEA import Mesher, Simulations
    from EasyFEA.Geoms import Domain, Point
    dim = case["dim"]
    L, h, b = 2.0, 1.0, 1.0
    mesher = Mesher()
    if dim == 2:
        mesh0 = mesher.Mesh_2D(Domain(Point(0, 0), Point(L, h), case.get("meshSize", 0.5)), [], case["elemType"])
    else:
        mesh0 = mesher.Mesh_Extrude(Domain(Point(0, 0), Point(L, h), case.get("meshSize", 0.5)), [], [0, 0, b], [2], case["elemType"])
    x0 = mesh0.coord.copy()
    n0 = np.where(np.abs(x0[:, 0]) < 1e-9)[0]
    nL = np.where(np.abs(x0[:, 0] - L) < 1e-9)[0]
    R, t = transform(case)
    mesh1 = mesh0.copy()
    motion = {}
    if case.get("build", "api") == "api":
        move_mesh_api(mesh1, case, motion)
    else:
        move_mesh(mesh1, R, t)
    d0 = np.asarray(case.get("d", [0.05 * L, -0.03 * L, 0.02 * L if dim == 3 else 0.0]), dtype=float)
    v0 = np.asarray(case.get("v0", [0.0, 0.0, 0.0]), dtype=float)

    def solve(mesh, Q):
        mat = hyper_material(case, mesh0, Q)
        simu = Simulations.HyperElastic(mesh, mat, absTol=case.get("absTol", 1e-10), maxIter=60, verbosity=False)
        unknowns = simu.Get_unknowns()
        simu.add_dirichlet(n0, [0.0] * dim, unknowns)
        simu.add_dirichlet(nL, [float(x) for x in (Q @ d0)[:dim]], unknowns)
        simu.Solve()
        out = [(simu.displacement.reshape(-1, dim).copy(), float(simu._Calc_W()))]
        if case.get("dynamic"):
            simu.Bc_Init()
            simu.add_dirichlet(n0, [0.0] * dim, unknowns)
            simu.rho = 1.0e-3
            simu.Solver_Set_Hyperbolic_Algorithm(dt=2e-3)
            simu.Solve()
            out.append((simu.displacement.reshape(-1, dim).copy(), float(simu._Calc_W())))
        return out

    def energy_of(mesh, Q, u):
        mat = hyper_material(case, mesh0, Q)
        simu = Simulations.HyperElastic(mesh, mat, verbosity=False)
        simu._Set_solutions(simu.problemType, np.ascontiguousarray(u).ravel())
        return float(simu._Calc_W())

    Rd = R[:dim, :dim]
    # (a) no solve: stored energy of a prescribed smooth deformation and of the rigidly moved state
    G = np.array([[0.04, -0.03, 0.02], [0.01, 0.05, -0.02], [-0.03, 0.02, 0.03]])[:dim, :dim]
    Xr = x0[:, :dim]
    uA = Xr @ G.T + 0.02 * (Xr ** 2)[:, ::-1]
    with contextlib.redirect_stdout(io.StringIO()):
        WA0 = energy_of(mesh0, np.eye(3), uA)
        WA1 = energy_of(mesh1, R, uA @ Rd.T)
    res = {"err_W_prescribed_state": abs(WA1 - WA0) / abs(WA0), "W_prescribed": [WA0, WA1]}
    errs = [res["err_W_prescribed_state"], motion.get("err", 0.0)]
    # (b) Newton solves (static, optionally one dynamic step) of the original and the moved problem
    try:
        with contextlib.redirect_stdout(io.StringIO()):
            ref = solve(mesh0, np.eye(3))
            W_moved = energy_of(mesh1, R, ref[0][0] @ Rd.T)
            new = solve(mesh1, R)
    except AssertionError as ex:
        if res["err_W_prescribed_state"] > 1e-8:
            res["err"] = float(res["err_W_prescribed_state"])
            res["what"] = "hyperelastic: stored energy of a prescribed deformation vs the same state rigidly moved (the Newton solve also failed: %s)" % ex
            return res
        raise
    res.update({"err_W_moved_state": abs(W_moved - ref[0][1]) / abs(ref[0][1]), "W_ref": ref[0][1], "W_moved_state": W_moved})
    errs.append(res["err_W_moved_state"])
    for name, (u0, W0), (u1, W1) in zip(["static", "dynamic"], ref, new):
        eu = float(np.linalg.norm(u1 - u0 @ Rd.T) / np.linalg.norm(u0))
        eW = abs(W1 - W0) / abs(W0)
        res["err_u_" + name], res["err_W_" + name] = eu, eW
        res["W_" + name] = [W0, W1]
        errs += [eu, eW]
    res["err"] = float(max(errs))
    res["what"] = "hyperelastic: displacement transformed back, stored energy of the moved reference state, energies after the solve" + (" and after one dynamic step" if case.get("dynamic") else "")
    if motion.get("err", 0.0) > 1e-12:
        res["motion"] = motion
    return res


def run_beam_roll(case):
    """an EXISTING, already solved simulation whose section is rolled about the member's own axis
    (beam.yAxis = ...; nodes unmoved) vs the rolled problem built fresh"""
    from EasyFEA import Mesher, Models, Simulations
    from EasyFEA.Geoms import Domain, Point, Line
    d = np.asarray(case.get("dir", [1.0, 0.4, 0.2]), dtype=float)
    d = d / np.linalg.norm(d)
    y0 = np.cross([0.3, -0.5, 0.8], d)
    y0 = y0 / np.linalg.norm(y0)
    phi = math.radians(case["roll"])
    y1 = y0 * math.cos(phi) + np.cross(d, y0) * math.sin(phi)
    F = np.asarray(case["F"], dtype=float)

    def build(yAxis):
        mesher = Mesher()
        section = mesher.Mesh_2D(Domain(Point(-6.5, -3.0), Point(6.5, 3.0)))      # Iy != Iz
        p1, p2 = Point(0, 0, 0), Point(*(120.0 * d))
        beam = Models.Beam.Isotropic(3, Line(p1, p2, 40.0), section, 210000.0, 0.3, yAxis=tuple(yAxis))
        mesh = mesher.Mesh_Beams([beam], elemType=case["elemType"])
        simu = Simulations.Beam(mesh, Models.Beam.BeamStructure([beam]), useTimoshenko=case.get("timo", False), verbosity=False)
        mesh = simu.mesh
        simu.add_dirichlet(mesh.Nodes_Point(p1), [0] * simu.Get_dof_n(), simu.Get_unknowns())
        simu.add_neumann(mesh.Nodes_Point(p2), [float(x) for x in F], ["x", "y", "z"])
        return simu, beam

    def sol(simu):
        simu.Solve()
        return np.asarray(simu.displacement, dtype=float).copy()
    simu, beam = build(y0)
    u_before = sol(simu)
    beam.yAxis = tuple(y1)                 # roll the section on the existing simulation
    u_rolled = sol(simu)
    simu2, _ = build(y1)
    u_fresh = sol(simu2)
    e = float(np.abs(u_rolled - u_fresh).max() / np.abs(u_fresh).max())
    changed = float(np.abs(u_fresh - u_before).max() / np.abs(u_fresh).max())
    return {"err": e, "roll_changes_solution_by": changed,
            "what": "displacements after rolling the section of an already solved simulation (beam.yAxis = ...) vs the rolled problem built fresh",
            "sample": {"tip_existing": u_rolled[-6:].tolist(), "tip_fresh": u_fresh[-6:].tolist()}}


def run_beam_inplace(case):
    """create -> solve -> move the SAME objects in place (the user's Line, the simulation's mesh, beam.yAxis, the
    loads) -> re-solve; the second solution must be the first one moved"""
    from EasyFEA import Mesher, Models, Simulations
    from EasyFEA.Geoms import Domain, Point, Line
    dim = case["dim"]
    d = np.asarray(case.get("dir", [1.0, 0.3, 0.0] if dim == 2 else [1.0, 0.4, 0.2]), dtype=float)
    d = d / np.linalg.norm(d)
    mesher = Mesher()
    section = mesher.Mesh_2D(Domain(Point(-6.5, -3.0), Point(6.5, 3.0)))
    p1, p2 = Point(0, 0, 0), Point(*(120.0 * d))
    line = Line(p1, p2, 40.0)
    kw = {}
    if dim == 3:
        y0 = np.cross([0.3, -0.5, 0.8], d)
        kw["yAxis"] = tuple(y0 / np.linalg.norm(y0))
    beam = Models.Beam.Isotropic(dim, line, section, 210000.0, 0.3, **kw)
    mesh = mesher.Mesh_Beams([beam], elemType=case["elemType"])
    simu = Simulations.Beam(mesh, Models.Beam.BeamStructure([beam]), useTimoshenko=case.get("timo", False), verbosity=False)
    mesh = simu.mesh
    n1, n2 = mesh.Nodes_Point(p1), mesh.Nodes_Point(p2)
    F = np.asarray(case["F"], dtype=float)
    comps = ["x", "y", "z"][:dim]
    names = ["ux", "uy", "rz"] if dim == 2 else ["ux", "uy", "uz", "rx", "ry", "rz"]

    def solve(Fv):
        simu.Bc_Init()
        simu.add_dirichlet(n1, [0] * simu.Get_dof_n(), simu.Get_unknowns())
        simu.add_neumann(n2, [float(x) for x in Fv[:dim]], comps)
        simu.Solve()
        return {r: np.asarray(simu.Result(r, nodeValues=True), dtype=float).reshape(-1).copy() for r in names}
    r1 = solve(F)
    yA = np.asarray(beam.yAxis, dtype=float)
    # ---- move everything in place
    ang, ax = float(case["angle"]), tuple(float(v) for v in case.get("axis", [0, 0, 1]))
    tr = tuple(float(v) for v in case.get("translate", [0, 0, 0]))
    R = rot_matrix(ax, ang)
    line.Rotate(ang, (0.0, 0.0, 0.0), ax)
    line.Translate(*tr)
    simu.mesh.Rotate(ang, (0.0, 0.0, 0.0), ax)
    simu.mesh.Translate(*tr)
    beam.yAxis = tuple(R @ yA)
    r2 = solve(R @ F)
    n = len(r1["ux"])
    u1, u2, w1, w2 = np.zeros((n, 3)), np.zeros((n, 3)), np.zeros((n, 3)), np.zeros((n, 3))
    for k, nm in enumerate(["ux", "uy", "uz"][:dim]):
        u1[:, k], u2[:, k] = r1[nm], r2[nm]
    for k, nm in enumerate(["rx", "ry", "rz"]):
        if nm in r1:
            w1[:, k], w2[:, k] = r1[nm], r2[nm]
    eu = float(np.abs(u2 @ R - u1).max() / np.abs(u1).max())
    ew = float(np.abs(w2 @ R - w1).max() / np.abs(w1).max())
    ex = float(np.abs(np.asarray(beam.xAxis, dtype=float) - R @ d).max())
    return {"err": max(eu, ew, ex), "err_u": eu, "err_rot": ew, "err_xAxis": ex,
            "what": "the SAME line / mesh / beam objects moved in place and re-solved vs the first solution moved",
            "sample": {"xAxis_now": np.asarray(beam.xAxis).tolist(), "xAxis_expected": (R @ d).tolist()}}


def run_Bcheck(case):
    """per-node block of Get_B_e_pg vs the transcription used in C10_continuum.v"""
    from EasyFEA.FEM._group_elem import GroupElemFactory
    from EasyFEA.FEM._utils import ElemType, MatrixType
    rng = np.random.default_rng(case["seed"])
    dim = case["dim"]
    et = ElemType.TRI3 if dim == 2 else ElemType.TETRA4
    nPe = 3 if dim == 2 else 4
    X = np.zeros((nPe, 3))
    X[:, :dim] = np.eye(nPe, dim, k=-1) + 0.2 * rng.random((nPe, dim))
    gid = GroupElemFactory.DICT_ELEMTYPE[et][0]
    g = GroupElemFactory.GROUP_CLASS_MAP[et](gid, np.arange(nPe).reshape(1, -1), X)
    B = np.asarray(g.Get_B_e_pg(MatrixType.rigi))[0, 0]
    dN = np.asarray(g.Get_dN_e_pg(MatrixType.rigi))[0, 0]
    c = 1 / math.sqrt(2)
    worst = 0.0
    for n in range(nPe):
        if dim == 2:
            gx, gy = dN[:, n]
            Bn = np.array([[gx, 0], [0, gy], [gy * c, gx * c]])
        else:
            gx, gy, gz = dN[:, n]
            Bn = np.array([[gx, 0, 0], [0, gy, 0], [0, 0, gz], [0, gz * c, gy * c], [gz * c, 0, gx * c], [gy * c, gx * c, 0]])
        worst = max(worst, float(np.abs(B[:, n * dim:(n + 1) * dim] - Bn).max()))
    return {"err": worst, "what": "Get_B_e_pg node blocks vs Bnode of C10_continuum.v"}


def run_case(case):
    try:
        if case["kind"] in ("elastic", "thermal"):
            return run_continuum(case)
        if case["kind"] == "beam":
            return run_beam(case)
        if case["kind"] == "Bcheck":
            return run_Bcheck(case)
        if case["kind"] == "motion":
            return run_motion(case)
        if case["kind"] == "hyper":
            return run_hyper(case)
        if case["kind"] == "beam_roll":
            return run_beam_roll(case)
        if case["kind"] == "beam_inplace":
            return run_beam_inplace(case)
        return {"raises": "unknown kind"}
    except Exception as ex:  # noqa
        import traceback
        return {"raises": "%s: %s" % (type(ex).__name__, ex), "tb": traceback.format_exc()[-800:]}


def replay(case, tol):
    r = run_case(case)
    print(json.dumps({"case": case, "result": r}, indent=1, default=str))
    if "raises" in r:
        print("the implementation raised:", r["raises"])
        sys.exit(1)
    print("discrepancy between the moved problem's solution (transformed back) and the original solution: %.3e (tolerance %.1e)" % (r["err"], tol))
    sys.exit(0 if r["err"] <= tol else 1)          # NaN (singular moved problem) counts as a failure


if __name__ == "__main__":
    req = json.load(sys.stdin)
    import contextlib
    import io
    res = []
    for c in req["cases"]:
        buf = io.StringIO()
        with contextlib.redirect_stdout(buf):
            r = run_case(c)
        res.append(r)
    json.dump(res, sys.stdout)
