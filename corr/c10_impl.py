"""C10 correspondence, implementation side: solve a problem and the rigidly moved problem with
EasyFEA and report the discrepancy after transforming back.  stdin: {"cases": [...]}, stdout JSON.
`run_case(case)` is also used by the replays."""
import json
import math
import sys
import numpy as np


def rot_matrix(axis, deg):
    a = np.asarray(axis, dtype=float)
    a = a / np.linalg.norm(a)
    t = math.radians(deg)
    K = np.array([[0, -a[2], a[1]], [a[2], 0, -a[0]], [-a[1], a[0], 0]])
    return np.eye(3) + math.sin(t) * K + (1 - math.cos(t)) * (K @ K)


def transform(case):
    """-> (R 3x3 orthogonal, t 3-vector)"""
    R = rot_matrix(case.get("axis", [0, 0, 1]), case.get("angle", 0.0))
    if case.get("reflect"):
        n = np.asarray(case["reflect"], dtype=float)
        n = n / np.linalg.norm(n)
        R = R @ (np.eye(3) - 2 * np.outer(n, n))
    return R, np.asarray(case.get("translate", [0, 0, 0]), dtype=float)


def move_mesh(mesh, R, t):
    new = mesh.coord @ R.T + t
    for g in mesh.dict_groupElem.values():
        g.coord = new
    mesh._Notify("The mesh has been modified")


def rel(a, b):
    a, b = np.asarray(a, dtype=float), np.asarray(b, dtype=float)
    return float(np.abs(a - b).max() / max(np.abs(b).max(), 1e-300))


# ------------------------------------------------------------------------------ continuum
def build_material(case, R):
    from EasyFEA import Models
    dim = case["dim"]
    law = case["law"]
    a = np.asarray(case.get("axes", [[1, 0, 0], [0, 1, 0]])[0], dtype=float)
    b = np.asarray(case.get("axes", [[1, 0, 0], [0, 1, 0]])[1], dtype=float)
    a, b = R @ a, R @ b
    ps = case.get("ps", True)
    if law == "iso":
        return Models.Elastic.Isotropic(dim, E=case["E"], v=case["v"], planeStress=ps)
    if law == "ti":
        return Models.Elastic.TransverselyIsotropic(dim, El=case["El"], Et=case["Et"], Gl=case["Gl"], vl=case["vl"], vt=case["vt"],
                                                    axis_l=a, axis_t=b, planeStress=ps)
    if law == "ortho":
        p = case["p"]
        return Models.Elastic.Orthotropic(dim, *p, axis_1=a, axis_2=b, planeStress=ps)
    if law == "aniso":
        return Models.Elastic.Anisotropic(dim, np.asarray(case["C"], dtype=float), False, a, b)
    raise ValueError(law)


def solve_continuum(case, moved):
    from EasyFEA import Mesher, Models, Simulations, ElemType
    from EasyFEA.Geoms import Domain, Point
    dim = case["dim"]
    R, t = transform(case) if moved else (np.eye(3), np.zeros(3))
    L, h = 2.0, 1.0
    mesher = Mesher()
    if dim == 2:
        mesh = mesher.Mesh_2D(Domain(Point(0, 0), Point(L, h), case.get("meshSize", 0.5)), [], case["elemType"])
    else:
        mesh = mesher.Mesh_Extrude(Domain(Point(0, 0), Point(L, h), case.get("meshSize", 0.7)), [], [0, 0, 0.6], [2], case["elemType"])
    x0 = mesh.coord.copy()
    left = np.where(np.abs(x0[:, 0]) < 1e-9)[0]
    right = np.where(np.abs(x0[:, 0] - L) < 1e-9)[0]
    if moved:
        move_mesh(mesh, R, t)
    unknowns = ["x", "y", "z"][:dim]
    if case["kind"] == "thermal":
        mat = Models.Thermal(k=case.get("k", 2.5), c=1.0, thickness=1.0)
        simu = Simulations.Thermal(mesh, mat, verbosity=False)
        simu.add_dirichlet(left, [case.get("T0", 3.0)], ["t"])
        simu.add_neumann(right, [case.get("q", 1.7)], ["t"])
        sol = simu.Solve()
        return np.asarray(sol, dtype=float).copy(), R, None
    mat = build_material(case, R)
    simu = Simulations.Elastic(mesh, mat, verbosity=False)
    u0 = R @ np.asarray(case.get("u0", [0.0, 0.0, 0.0]), dtype=float)
    F = R @ np.asarray(case["F"], dtype=float)
    simu.add_dirichlet(left, [float(x) for x in u0[:dim]], unknowns)
    simu.add_neumann(right, [float(x) for x in F[:dim]], unknowns)
    sol = np.asarray(simu.Solve(), dtype=float).reshape(-1, dim).copy()
    W = float(simu.Result("Wdef"))
    return sol, R, W


def run_continuum(case):
    s1, _, W1 = solve_continuum(case, False)
    s2, R, W2 = solve_continuum(case, True)
    if case["kind"] == "thermal":
        return {"err": rel(s2, s1), "what": "temperature field", "n": int(s1.size), "sample": [float(s1[-1]), float(s2[-1])]}
    dim = case["dim"]
    back = s2 @ R[:dim, :dim]          # rows: R^T u'
    e = rel(back, s1)
    eW = abs(W2 - W1) / max(abs(W1), 1e-300)
    return {"err": max(e, eW), "err_u": e, "err_W": eW, "what": "displacement (transformed back) and strain energy", "n": int(s1.size),
            "sample": [s1[-1].tolist(), back[-1].tolist(), W1, W2]}


# ------------------------------------------------------------------------------ beams
def solve_beam(case, moved):
    from EasyFEA import Mesher, Models, Simulations
    from EasyFEA.Geoms import Domain, Point, Line
    dim = case["dim"]
    R, t = transform(case) if moved else (np.eye(3), np.zeros(3))
    Lb, nL = 120.0, 4
    b, h = 13.0, 9.0
    mesher = Mesher()
    section = mesher.Mesh_2D(Domain(Point(-b / 2, -h / 2), Point(b / 2, h / 2)))
    d0 = np.asarray(case.get("dir", [1, 0, 0]), dtype=float)
    d0 = d0 / np.linalg.norm(d0)
    p1v = R @ np.zeros(3) + t
    p2v = R @ (Lb * d0) + t
    y0 = np.asarray(case.get("yAxis", [0, 1, 0]), dtype=float)
    yv = R @ y0
    p1, p2 = Point(*p1v), Point(*p2v)
    line = Line(p1, p2, Lb / nL)
    beam = Models.Beam.Isotropic(dim, line, section, 210000.0, 0.3, yAxis=tuple(yv))
    mesh = mesher.Mesh_Beams([beam], elemType=case["elemType"])
    st = Models.Beam.BeamStructure([beam])
    simu = Simulations.Beam(mesh, st, useTimoshenko=case.get("timo", False), verbosity=False)
    simu.add_dirichlet(mesh.Nodes_Point(p1), [0] * simu.Get_dof_n(), simu.Get_unknowns())
    F = R @ np.asarray(case["F"], dtype=float)
    comps = ["x", "y", "z"][:dim]
    simu.add_neumann(mesh.Nodes_Point(p2), [float(x) for x in F[:dim]], comps)
    simu.Solve()
    tip = mesh.Nodes_Point(p2)
    out = {}
    for r in (["ux", "uy", "rz"] if dim == 2 else ["ux", "uy", "uz", "rx", "ry", "rz"]):
        out[r] = float(simu.Result(r, nodeValues=True)[tip][0])
    return out, R


def run_beam(case):
    r1, _ = solve_beam(case, False)
    r2, R = solve_beam(case, True)
    dim = case["dim"]
    det = float(np.linalg.det(R))
    if dim == 2:
        u1 = np.array([r1["ux"], r1["uy"], 0.0])
        u2 = np.array([r2["ux"], r2["uy"], 0.0])
        back = R.T @ u2
        th1, th2 = r1["rz"], det * r2["rz"]            # in-plane rotation: pseudo-scalar
        eu = float(np.abs(back[:2] - u1[:2]).max() / np.abs(u1[:2]).max())
        et = abs(th2 - th1) / abs(th1)
        return {"err": max(eu, et), "err_u": eu, "err_rot": et, "what": "tip displacement and rotation transformed back",
                "sample": {"original": r1, "moved": r2, "moved_back": [float(back[0]), float(back[1]), th2]}}
    u1 = np.array([r1["ux"], r1["uy"], r1["uz"]])
    u2 = np.array([r2["ux"], r2["uy"], r2["uz"]])
    w1 = np.array([r1["rx"], r1["ry"], r1["rz"]])
    w2 = np.array([r2["rx"], r2["ry"], r2["rz"]])
    bu, bw = R.T @ u2, det * (R.T @ w2)
    eu = float(np.abs(bu - u1).max() / np.abs(u1).max())
    ew = float(np.abs(bw - w1).max() / np.abs(w1).max())
    return {"err": max(eu, ew), "err_u": eu, "err_rot": ew, "what": "tip displacement and rotation vector transformed back",
            "sample": {"original": r1, "moved": r2, "moved_back_u": bu.tolist(), "moved_back_rot": bw.tolist()}}


def run_Bcheck(case):
    """per-node block of Get_B_e_pg vs the transcription used in C10_continuum.v"""
    from EasyFEA.FEM._group_elem import GroupElemFactory
    from EasyFEA.FEM._utils import ElemType, MatrixType
    rng = np.random.default_rng(case["seed"])
    dim = case["dim"]
    et = ElemType.TRI3 if dim == 2 else ElemType.TETRA4
    nPe = 3 if dim == 2 else 4
    X = np.zeros((nPe, 3))
    X[:, :dim] = np.eye(nPe, dim, k=-1) + 0.2 * rng.random((nPe, dim))
    gid = GroupElemFactory.DICT_ELEMTYPE[et][0]
    g = GroupElemFactory.GROUP_CLASS_MAP[et](gid, np.arange(nPe).reshape(1, -1), X)
    B = np.asarray(g.Get_B_e_pg(MatrixType.rigi))[0, 0]
    dN = np.asarray(g.Get_dN_e_pg(MatrixType.rigi))[0, 0]
    c = 1 / math.sqrt(2)
    worst = 0.0
    for n in range(nPe):
        if dim == 2:
            gx, gy = dN[:, n]
            Bn = np.array([[gx, 0], [0, gy], [gy * c, gx * c]])
        else:
            gx, gy, gz = dN[:, n]
            Bn = np.array([[gx, 0, 0], [0, gy, 0], [0, 0, gz], [0, gz * c, gy * c], [gz * c, 0, gx * c], [gy * c, gx * c, 0]])
        worst = max(worst, float(np.abs(B[:, n * dim:(n + 1) * dim] - Bn).max()))
    return {"err": worst, "what": "Get_B_e_pg node blocks vs Bnode of C10_continuum.v"}


def run_case(case):
    try:
        if case["kind"] in ("elastic", "thermal"):
            return run_continuum(case)
        if case["kind"] == "beam":
            return run_beam(case)
        if case["kind"] == "Bcheck":
            return run_Bcheck(case)
        return {"raises": "unknown kind"}
    except Exception as ex:  # noqa
        import traceback
        return {"raises": "%s: %s" % (type(ex).__name__, ex), "tb": traceback.format_exc()[-800:]}


def replay(case, tol):
    r = run_case(case)
    print(json.dumps({"case": case, "result": r}, indent=1, default=str))
    if "raises" in r:
        print("the implementation raised:", r["raises"])
        sys.exit(1)
    print("discrepancy between the moved problem's solution (transformed back) and the original solution: %.3e (tolerance %.1e)" % (r["err"], tol))
    sys.exit(1 if r["err"] > tol else 0)


if __name__ == "__main__":
    req = json.load(sys.stdin)
    import contextlib
    import io
    res = []
    for c in req["cases"]:
        buf = io.StringIO()
        with contextlib.redirect_stdout(buf):
            r = run_case(c)
        res.append(r)
    json.dump(res, sys.stdout)
