"""C05 -- the documented scheme definitions (Solvers.py AlgoType docstrings, Solver_Set_Parabolic_Algorithm
docstring) as plain python predicates on lists of numbers (float or Fraction).  Hand-written mirror of
coq/props/C05/C05_spec.v; independent of the translator.  Used (a) to judge the implementation's output in
the correspondence run, (b) by the replays."""


def _z(f, *vs):
    return [f(*t) for t in zip(*vs)]


def matvec(A, x):
    return [sum(a * b for a, b in zip(row, x)) for row in A]


def spec_points(algo, P, prev, new):
    """documented evaluation-point states (u_t, v_t, a_t) from the previous and the new state.
    a_t is None for parabolic.  For euler_explicit a_t is the solved a^n (= new['a'])."""
    al = P.get("alpha", 0)
    u0, v0, a0 = prev["u"], prev["v"], prev["a"]
    u1, v1, a1 = new["u"], new["v"], new["a"]
    if algo in ("newmark", "euler_implicit"):
        return u1, v1, a1
    if algo == "hht":
        return (_z(lambda p, q: (1 - al) * p + al * q, u1, u0), _z(lambda p, q: (1 - al) * p + al * q, v1, v0),
                _z(lambda p, q: (1 - al) * p + al * q, a1, a0))
    if algo == "hht_newmark":
        return _z(lambda p, q: (1 - al) * p + al * q, u1, u0), v1, a1
    if algo == "midpoint":
        return _z(lambda p, q: (p + q) / 2, u1, u0), _z(lambda p, q: (p + q) / 2, v1, v0), _z(lambda p, q: (p + q) / 2, a1, a0)
    if algo == "parabolic":
        return u1, v1, None
    if algo == "euler_explicit":
        return u0, v0, a1
    raise KeyError(algo)


def effective_params(algo, P):
    """beta, gamma the scheme documents (hht_newmark derives them from alpha)."""
    Q = dict(P)
    if algo == "hht_newmark":
        al = P["alpha"]
        Q["beta"] = (1 + al) * (1 + al) / 4
        Q["gamma"] = al + (al - al + 1) / 2
    return Q


def _rel(name, *terms):
    """a relation `sum(terms) = 0`: (name, residual vector, scale = largest term magnitude).  The scale is that of
    the relation's own terms, so the judgement is invariant under scaling the whole problem (no absolute floor)."""
    res = [sum(t) for t in zip(*terms)]
    sc = max((abs(float(x)) for t in terms for x in t), default=0.0)
    return (name, res, sc)


def update_residuals(algo, P, prev, new):
    """list of (name, residual vector, scale) that the documented update relations require to vanish."""
    P = effective_params(algo, P)
    dt = P["dt"]
    u0, v0, a0 = prev["u"], prev["v"], prev["a"]
    u1, v1, a1 = new["u"], new["v"], new["a"]
    m = lambda c, v: [c * x for x in v]
    out = []
    if algo in ("newmark", "hht", "hht_newmark"):
        be, ga = P["beta"], P["gamma"]
        out.append(_rel("a1 = (u1 - pred)/(beta dt^2)", m(be * dt * dt, a1), m(-1, u1), u0, m(dt, v0), m(dt * dt / 2 * (1 - 2 * be), a0)))
        out.append(_rel("v1 = v0 + dt((1-gamma) a0 + gamma a1)", v1, m(-1, v0), m(-dt * (1 - ga), a0), m(-dt * ga, a1)))
    elif algo == "midpoint":
        out.append(_rel("v1 = 2/dt (u1-u0) - v0", m(dt, v1), m(-2, u1), m(2, u0), m(dt, v0)))
        out.append(_rel("a1 = 2/dt (v1-v0) - a0", m(dt, a1), m(-2, v1), m(2, v0), m(dt, a0)))
    elif algo == "euler_implicit":
        out.append(_rel("v1 = (u1-u0)/dt", m(dt, v1), m(-1, u1), u0))
        out.append(_rel("a1 = (v1-v0)/dt", m(dt, a1), m(-1, v1), v0))
    elif algo == "euler_explicit":
        out.append(_rel("u1 = u0 + dt v0", u1, m(-1, u0), m(-dt, v0)))
        out.append(_rel("v1 = v0 + dt a^n", v1, m(-1, v0), m(-dt, a1)))
    elif algo == "parabolic":
        al = P["alpha"]
        out.append(_rel("u1 = u0 + dt((1-alpha) v0 + alpha v1)", u1, m(-1, u0), m(-dt * (1 - al), v0), m(-dt * al, v1)))
        out.append(_rel("a unchanged (no acceleration for parabolic)", a1, m(-1, a0)))
    else:
        raise KeyError(algo)
    return out


def eom_residual(algo, P, K, C, M, load, prev, new):
    """K u_t + C v_t + M a_t - load, all dofs (the caller restricts to the free ones)."""
    ut, vt, at = spec_points(algo, P, prev, new)
    r = _z(lambda a, b: a + b, matvec(K, ut), matvec(C, vt))
    if at is not None:
        r = _z(lambda a, b: a + b, r, matvec(M, at))
    return _z(lambda a, b: a - b, r, load), ut, vt, at


def scale(*vs):
    """largest magnitude among the given vectors -- NO absolute floor: a tolerance `tol * scale(...)` is relative to the
    problem's own size, so tiny (1e-18) and huge (1e15) states are judged like O(1) ones."""
    m = 0.0
    for v in vs:
        for x in v:
            m = max(m, abs(float(x)))
    return m


def energy(K, M, u, v):
    return (sum(a * b for a, b in zip(v, matvec(M, v))) + sum(a * b for a, b in zip(u, matvec(K, u)))) / 2
