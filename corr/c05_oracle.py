"""C05 -- the documented scheme definitions (Solvers.py AlgoType docstrings, Solver_Set_Parabolic_Algorithm
docstring) as plain python predicates on lists of numbers (float or Fraction).  Hand-written mirror of
coq/props/C05/C05_spec.v; independent of the translator.  Used (a) to judge the implementation's output in
the correspondence run, (b) by the replays."""


def _z(f, *vs):
    return [f(*t) for t in zip(*vs)]


def matvec(A, x):
    return [sum(a * b for a, b in zip(row, x)) for row in A]


def spec_points(algo, P, prev, new):
    """documented evaluation-point states (u_t, v_t, a_t) from the previous and the new state.
    a_t is None for parabolic.  For euler_explicit a_t is the solved a^n (= new['a'])."""
    al = P.get("alpha", 0)
    u0, v0, a0 = prev["u"], prev["v"], prev["a"]
    u1, v1, a1 = new["u"], new["v"], new["a"]
    if algo in ("newmark", "euler_implicit"):
        return u1, v1, a1
    if algo == "hht":
        return (_z(lambda p, q: (1 - al) * p + al * q, u1, u0), _z(lambda p, q: (1 - al) * p + al * q, v1, v0),
                _z(lambda p, q: (1 - al) * p + al * q, a1, a0))
    if algo == "hht_newmark":
        return _z(lambda p, q: (1 - al) * p + al * q, u1, u0), v1, a1
    if algo == "midpoint":
        return _z(lambda p, q: (p + q) / 2, u1, u0), _z(lambda p, q: (p + q) / 2, v1, v0), _z(lambda p, q: (p + q) / 2, a1, a0)
    if algo == "parabolic":
        return u1, v1, None
    if algo == "euler_explicit":
        return u0, v0, a1
    raise KeyError(algo)


def effective_params(algo, P):
    """beta, gamma the scheme documents (hht_newmark derives them from alpha)."""
    Q = dict(P)
    if algo == "hht_newmark":
        al = P["alpha"]
        Q["beta"] = (1 + al) * (1 + al) / 4
        Q["gamma"] = al + (al - al + 1) / 2
    return Q


def update_residuals(algo, P, prev, new):
    """list of (name, residual vector) that the documented update relations require to vanish."""
    P = effective_params(algo, P)
    dt = P["dt"]
    u0, v0, a0 = prev["u"], prev["v"], prev["a"]
    u1, v1, a1 = new["u"], new["v"], new["a"]
    out = []
    if algo in ("newmark", "hht", "hht_newmark"):
        be, ga = P["beta"], P["gamma"]
        pred = _z(lambda u, v, a: u + dt * v + dt * dt / 2 * (1 - 2 * be) * a, u0, v0, a0)
        out.append(("a1 = (u1 - pred)/(beta dt^2)", _z(lambda a, u, p: a * (be * dt * dt) - (u - p), a1, u1, pred)))
        out.append(("v1 = v0 + dt((1-gamma) a0 + gamma a1)", _z(lambda v, w, a, b: v - (w + dt * ((1 - ga) * a + ga * b)), v1, v0, a0, a1)))
    elif algo == "midpoint":
        out.append(("v1 = 2/dt (u1-u0) - v0", _z(lambda v, u, p, w: v * dt - (2 * (u - p) - dt * w), v1, u1, u0, v0)))
        out.append(("a1 = 2/dt (v1-v0) - a0", _z(lambda a, v, w, b: a * dt - (2 * (v - w) - dt * b), a1, v1, v0, a0)))
    elif algo == "euler_implicit":
        out.append(("v1 = (u1-u0)/dt", _z(lambda v, u, p: v * dt - (u - p), v1, u1, u0)))
        out.append(("a1 = (v1-v0)/dt", _z(lambda a, v, w: a * dt - (v - w), a1, v1, v0)))
    elif algo == "euler_explicit":
        out.append(("u1 = u0 + dt v0", _z(lambda u, p, w: u - (p + dt * w), u1, u0, v0)))
        out.append(("v1 = v0 + dt a^n", _z(lambda v, w, a: v - (w + dt * a), v1, v0, a1)))
    elif algo == "parabolic":
        al = P["alpha"]
        out.append(("u1 = u0 + dt((1-alpha) v0 + alpha v1)", _z(lambda u, p, w, v: u - (p + dt * ((1 - al) * w + al * v)), u1, u0, v0, v1)))
        out.append(("a unchanged (no acceleration for parabolic)", _z(lambda a, b: a - b, a1, a0)))
    else:
        raise KeyError(algo)
    return out


def eom_residual(algo, P, K, C, M, load, prev, new):
    """K u_t + C v_t + M a_t - load, all dofs (the caller restricts to the free ones)."""
    ut, vt, at = spec_points(algo, P, prev, new)
    r = _z(lambda a, b: a + b, matvec(K, ut), matvec(C, vt))
    if at is not None:
        r = _z(lambda a, b: a + b, r, matvec(M, at))
    return _z(lambda a, b: a - b, r, load), ut, vt, at


def scale(*vs):
    m = 1.0
    for v in vs:
        for x in v:
            m = max(m, abs(float(x)))
    return m


def energy(K, M, u, v):
    return (sum(a * b for a, b in zip(v, matvec(M, v))) + sum(a * b for a, b in zip(u, matvec(K, u)))) / 2
