"""C15 implementation-side harness (runs with EasyFEA importable from VERIF_REPO).

stdin : JSON {"root": scratch dir under /verif/build/C15, "cases": [{"id", "sim", "ops": [[name, args...]]}],
              "probes": [names]}
stdout: JSON {"cases": [...], "probes": {...}}

Every case is an operation list of the Gallina model EFModel.C15_IterStore (Solve / SaveIter /
SetFolder / GetResults / SetIter / ResultQ / WriteRet / SetMesh / SaveLoad) executed on a REAL
simulation.  The harness keeps its own deep copies (ghost) of what was live at each Save_Iter and
(1) evaluates the property's own predicates after each op, bitwise; (2) returns the final
observation (live fields, mesh index, every stored iteration read back) as sha1 of the raw bytes
together with the registry token -> sha1, so that the driver can compare with the model's
`observe` computed by Coq.
"""
import hashlib
import io
import json
import os
import pickle
import sys
import contextlib

import numpy as np


def sha(a):
    if a is None:
        return "absent"
    if isinstance(a, dict):  # InElastic state: {elemType: array}
        h = hashlib.sha1()
        for k in sorted(a, key=str):
            h.update(str(k).encode())
            h.update(sha(a[k]).encode())
        return "d" + h.hexdigest()[:15]
    a = np.asarray(a)
    h = hashlib.sha1()
    h.update(str(a.dtype).encode())
    h.update(str(a.shape).encode())
    h.update(np.ascontiguousarray(a).tobytes())
    return h.hexdigest()[:16]


def iszero(a):
    if a is None:
        return False
    if isinstance(a, dict):
        return all(not np.any(v) for v in a.values())
    return not np.any(np.asarray(a))


def deep(a):
    if a is None:
        return None
    if isinstance(a, dict):
        return {k: np.array(v, copy=True) for k, v in a.items()}
    return np.array(a, copy=True)


def fill(a, c):
    """in-place write by the user into an array (or dict of arrays) he was handed"""
    if a is None:
        return
    if isinstance(a, dict):
        for v in a.values():
            v[...] = c
    else:
        a[...] = c


def flat(a):
    """one flat float vector for an array or a dict of arrays (sorted keys)"""
    if isinstance(a, dict):
        return np.concatenate([np.asarray(a[k]).ravel() for k in sorted(a, key=str)]) if a else np.zeros(0)
    return np.asarray(a).ravel()


def parts(a):
    """an array as the model sees it: two cells = (first element, all the others)"""
    if a is None:
        return {"sha": ["absent", "absent"], "zero": [False, False]}
    f = flat(a)
    return {"sha": [sha(f[:1]), sha(f[1:])], "zero": [bool(not np.any(f[:1])), bool(not np.any(f[1:]))]}


def fill_part(a, i, c):
    """partial in-place write by the user: cell 0 = the first element (arr.flat[0] = c), cell 1 = the slice of
    all the others (arr.flat[1:] = c)"""
    if a is None:
        return
    arrs = [a[k] for k in sorted(a, key=str)] if isinstance(a, dict) else [a]
    first = True
    for v in arrs:
        if v.size == 0:
            continue
        fl = v.reshape(-1) if v.flags["C_CONTIGUOUS"] else None
        if fl is None:
            raise ValueError("non-contiguous array handed out")
        if first:
            if i == 0:
                fl[0] = c
            else:
                fl[1:] = c
            first = False
        elif i == 1:
            fl[:] = c


def res_differs(a, b, scale=0.0):
    """advertised results: 1e-9 RELATIVE to the result's own scale (its largest magnitude at any saved iteration of
    the scenario; no absolute floor) on values recomputed from re-assembled operators"""
    if isinstance(a, str) or isinstance(b, str) or a is None or b is None:
        return a is not b and a != b
    a, b = np.asarray(a, dtype=float), np.asarray(b, dtype=float)
    if a.shape != b.shape:
        return True
    if a.size == 0:
        return False
    with np.errstate(invalid="ignore"):
        d = np.abs(a - b)
    if np.isnan(a).any() or np.isnan(b).any():
        return not np.array_equal(np.isnan(a), np.isnan(b)) or bool(np.nanmax(np.where(np.isnan(d), 0.0, d)) > 1e-9 * max(float(np.nanmax(np.abs(b))), scale))
    return bool(d.max() > 1e-9 * max(float(np.abs(b).max()), scale))


def filled_like(a, c):
    b = deep(a)
    fill(b, c)
    return b


with contextlib.redirect_stdout(io.StringIO()):
    from EasyFEA import Models, Simulations, AlgoType, Mesh, ElemType
    from EasyFEA.FEM._group_elem import GroupElemFactory
    from EasyFEA.Simulations._simu import Load_Simu


def quad_mesh(nx, ny, L=1.0, H=1.0):
    xs = np.linspace(0, L, nx + 1)
    ys = np.linspace(0, H, ny + 1)
    coord = np.array([[x, y, 0.0] for y in ys for x in xs])
    conn = []
    for j in range(ny):
        for i in range(nx):
            n0 = j * (nx + 1) + i
            conn.append([n0, n0 + 1, n0 + nx + 2, n0 + nx + 1])
    g = GroupElemFactory.Create(ElemType.QUAD4, np.array(conn), coord)
    return Mesh({ElemType.QUAD4: g})


def mixed_mesh(nx, ny, L=1.0, H=1.0):
    """TRI3 + QUAD4 of the same (main) dimension sharing one coordinates array, with a SEG2 boundary group:
    left half of the columns in quads, right half split into triangles"""
    xs = np.linspace(0, L, nx + 1)
    ys = np.linspace(0, H, ny + 1)
    coord = np.array([[x, y, 0.0] for y in ys for x in xs])
    quads, tris = [], []
    for j in range(ny):
        for i in range(nx):
            n0 = j * (nx + 1) + i
            q = [n0, n0 + 1, n0 + nx + 2, n0 + nx + 1]
            if i < max(1, nx // 2):
                quads.append(q)
            else:
                tris.append([q[0], q[1], q[2]])
                tris.append([q[0], q[2], q[3]])
    segs = [[j * (nx + 1), (j + 1) * (nx + 1)] for j in range(ny)]   # the edge x = 0
    gT = GroupElemFactory.Create(ElemType.TRI3, np.array(tris), coord)
    gQ = GroupElemFactory.Create(ElemType.QUAD4, np.array(quads), coord)
    gS = GroupElemFactory.Create(ElemType.SEG2, np.array(segs), coord)
    mesh = Mesh({ElemType.SEG2: gS, ElemType.TRI3: gT, ElemType.QUAD4: gQ})
    left = np.array([j * (nx + 1) for j in range(ny + 1)])
    for g in (gT, gQ, gS):
        g.Set_Tag(left, "LEFT")
    return mesh


def seg_mesh(n, L=1.0):
    coord = np.array([[x, 0.0, 0.0] for x in np.linspace(0, L, n + 1)])
    conn = np.array([[i, i + 1] for i in range(n)])
    g = GroupElemFactory.Create(ElemType.SEG2, conn, coord)
    return Mesh({ElemType.SEG2: g})


MESH_SHAPES = [(3, 2), (2, 2), (4, 1), (2, 3), (3, 3)]


class Adapter:
    """One simulation class in one algorithm mode.  keys[k] = dict key of field k in the iteration
    dict; getters[k] = public getter of field k; results[k] = Result() name of field k (or None)."""
    name = "?"
    keys = []
    results = []
    can_setmesh = True
    can_saveload = True

    hyperbolic = False
    also_parabolic = False   # a hyperbolic configuration whose class stores and restores the same keys under the parabolic scheme
    algo = None       # time algorithm of this case (name of an AlgoType member), None = the adapter's default
    alpha = None
    time_dependent = False

    def __init__(self):
        self.nmesh_made = 0

    def set_hyperbolic(self, simu, dt_implicit, dt_explicit):
        if self.algo == "parabolic":
            # a first-order (parabolic) scheme on a class that also accepts the hyperbolic ones (also_parabolic)
            simu.Solver_Set_Parabolic_Algorithm(dt=dt_implicit, alpha=self.alpha if self.alpha is not None else 0.5)
            return
        algo = AlgoType(self.algo or "newmark")
        kw = {}
        if self.alpha is not None and algo in (AlgoType.hht, AlgoType.hht_newmark):
            kw["alpha"] = self.alpha
        elif algo == AlgoType.hht:
            kw["alpha"] = 0.1
        elif algo == AlgoType.hht_newmark:
            kw["alpha"] = 1 / 6
        simu.Solver_Set_Hyperbolic_Algorithm(dt=dt_explicit if algo == AlgoType.euler_explicit else dt_implicit, algo=algo, **kw)

    Ls = 1.0               # case option: length scale of the meshes (coordinates multiplied by Ls)
    mixed = False          # case option: meshes with several element types of the main dimension
    supports_mixed = False
    elem_results = []      # element-wise Result() names compared (nodeValues=False) at every restore

    def new_mesh(self):
        nx, ny = MESH_SHAPES[self.nmesh_made % len(MESH_SHAPES)]
        self.nmesh_made += 1
        if self.mixed and self.supports_mixed:
            return mixed_mesh(max(nx, 2), ny, self.Ls, self.Ls)
        return quad_mesh(nx, ny, self.Ls, self.Ls)

    def live(self, simu):
        pt = simu.problemType
        return [simu._Get_u_n(pt), simu._Get_v_n(pt), simu._Get_a_n(pt)][: len(self.keys)]

    def entry_fields(self, res):
        # a key that is missing from the iteration dict is observed as "absent" (never equal to a saved array)
        return [res.get(k) for k in self.keys]

    skip_results = ()      # advertised results whose evaluation is itself a state change (documented per class)

    def all_results(self, simu):
        """every result the class advertises (Results_Available), node values and element values"""
        out = {}
        for nm in simu.Results_Available():
            if nm in self.skip_results:
                continue
            for nv in (True, False):
                try:
                    v = simu.Result(nm, nodeValues=nv)
                    out["%s|%s" % (nm, "n" if nv else "e")] = None if v is None else (float(v) if np.ndim(v) == 0 else np.array(v, dtype=float, copy=True))
                except Exception as ex:   # some advertised names are not implemented: must at least behave the same later
                    out["%s|%s" % (nm, "n" if nv else "e")] = "EXC:" + type(ex).__name__
        return out

    def warm(self, simu):
        """what post-processing does before looking at an older iteration: assembled matrices of every
        problem and the scalar (energy) results of the CURRENT state -> caches are up to date"""
        if not simu.isNonLinear:
            # (a nonlinear simulation assembles about the Newton iterate of its last Solve: Get_K_C_M_F is then
            # not a post-processing call; its energies below go through the same caches)
            for pt in simu.Get_problemTypes():
                simu.Get_K_C_M_F(pt)
        for nm in simu.Results_Available():
            if nm in self.skip_results:
                continue
            try:
                v = simu.Result(nm)
            except Exception:
                continue
            if v is not None and np.ndim(v) != 0:
                continue

    def internal(self, simu):
        """committed internal variables that are not live fields (name -> array/dict), compared with the
        ghost after every restore"""
        return {}

    def bc(self, simu, n):
        raise NotImplementedError

    def solve(self, simu, n):
        simu.Bc_Init()
        self.bc(simu, n)
        simu.Solve()

    def inject(self, simu, arrays):
        """bind the live fields to the given arrays through the protected API (None = leave that field)"""
        simu._Set_solutions(simu.problemType, *[a for a in arrays if a is not None])


def exotic_like(a, kind, seed):
    """values OUTSIDE any physical range, of the shape/dtype of the live field a (restoration must be bitwise
    whatever the values are)"""
    if isinstance(a, dict) or a is None:
        return None
    rng = np.random.default_rng(seed)
    a = np.asarray(a, dtype=float)
    u = rng.uniform(size=a.shape)
    if kind == "range":
        return -0.5 + 2.0 * u                                  # negative and > 1 (a damage field!)
    if kind == "huge":
        return np.where(u < 0.5, -1.0, 1.0) * 1e30 * (0.5 + u)
    if kind == "tiny":
        return np.where(u < 0.3, 5e-324, np.where(u < 0.6, -1e-300 * u, 1e-300 * u))   # denormals too
    if kind == "negzero":
        return np.where(u < 0.4, -0.0, np.where(u < 0.7, 0.0, 1e-17 * (u - 0.85)))
    base = a if np.any(a) else (u - 0.5)
    return base * (2.0 ** -60 if kind == "down" else 2.0 ** 60)   # exactly scaled twin of the current field


def _edges(simu):
    mesh = simu.mesh
    x = mesh.coord[:, 0]
    n0 = mesh.Nodes_Conditions(lambda x, y, z: x == 0)
    nL = mesh.Nodes_Conditions(lambda x, y, z: x == x.max())
    return n0, nL


class ElasticStatic(Adapter):
    name = "Elastic_static"
    keys = ["displacement"]
    results = ["displacement"]
    supports_mixed = True
    elem_results = ["Svm", "Exx"]

    def build(self, folder):
        mat = Models.Elastic.Isotropic(2, E=210000.0, v=0.3, planeStress=True, thickness=1.0)
        return Simulations.Elastic(self.new_mesh(), mat, folder=folder, verbosity=False)

    def bc(self, simu, n):
        n0, nL = _edges(simu)
        simu.add_dirichlet(n0, [0, 0], ["x", "y"])
        simu.add_dirichlet(nL, [1e-3 * (n + 1) * self.Ls], ["x"])


class ElasticDyn(ElasticStatic):
    name = "Elastic_newmark"
    hyperbolic = True
    also_parabolic = True
    keys = ["displacement", "speed", "accel"]
    results = ["displacement", "speed", "accel"]

    time_dependent = True

    def build(self, folder):
        simu = super().build(folder)
        self.set_hyperbolic(simu, 1e-3, 1e-4)   # explicit: below h/c ~ 7e-4 on these meshes
        return simu

    def bc(self, simu, n):
        n0, nL = _edges(simu)
        simu.add_dirichlet(n0, [0, 0], ["x", "y"])
        simu.add_neumann(nL, [10.0 * (n + 1)], ["x"])


class ThermalStatic(Adapter):
    name = "Thermal_static"
    keys = ["thermal"]
    results = ["thermal"]
    supports_mixed = True

    def build(self, folder):
        return Simulations.Thermal(self.new_mesh(), Models.Thermal(k=1, c=1, thickness=1.0), folder=folder, verbosity=False)

    def bc(self, simu, n):
        n0, nL = _edges(simu)
        simu.add_dirichlet(n0, [0], ["t"])
        simu.add_dirichlet(nL, [10.0 * (n + 1)], ["t"])


class ThermalParabolic(ThermalStatic):
    name = "Thermal_parabolic"
    keys = ["thermal", "thermalDot"]
    results = ["thermal", "thermalDot"]

    time_dependent = True

    def build(self, folder):
        simu = super().build(folder)
        simu.Solver_Set_Parabolic_Algorithm(dt=0.1, **({"alpha": self.alpha} if self.alpha is not None else {}))
        return simu


class Beam(Adapter):
    name = "Beam_static"
    keys = ["displacement"]
    results = ["displacement"]

    def seg(self):
        n = [3, 2, 4, 5][self.nmesh_made % 4]
        self.nmesh_made += 1
        mesh = seg_mesh(n)
        mesh.groupElem.Set_Tag(mesh.nodes, self.beam.name)
        return mesh

    def new_mesh(self):
        # the Beam constructor swaps the SEG group for the beam element class; the mesh setter
        # does not, so a mesh handed to the setter is converted the same way here
        from EasyFEA.FEM.Elems._beam import _Construct_Euler_Bernoulli_mesh
        return _Construct_Euler_Bernoulli_mesh(self.seg())

    def build(self, folder):
        from EasyFEA.Geoms import Line, Point
        sect = quad_mesh(1, 1, 0.1, 0.1)
        sect.coord = sect.coord - np.array([0.05, 0.05, 0.0])
        self.beam = Models.Beam.Isotropic(2, Line(Point(0, 0), Point(1, 0)), sect, 210000.0, 0.3)
        structure = Models.Beam.BeamStructure([self.beam])
        return Simulations.Beam(self.seg(), structure, folder=folder, verbosity=False)

    def live(self, simu):
        return [simu._Get_u_n(simu.problemType)]

    def bc(self, simu, n):
        mesh = simu.mesh
        n0 = mesh.Nodes_Conditions(lambda x, y, z: x == 0)
        nL = mesh.Nodes_Conditions(lambda x, y, z: x == x.max())
        simu.add_dirichlet(n0, [0] * simu.Get_dof_n(), simu.Get_unknowns())
        simu.add_neumann(nL, [-1.0 * (n + 1)], ["y"])


class BeamDyn(Beam):
    """Beam under the hyperbolic algorithms (Construct_local_matrix_system provides the mass matrix)"""
    name = "Beam_newmark"
    keys = ["displacement", "speed", "accel"]
    results = ["displacement", None, None]
    time_dependent = True
    hyperbolic = True

    def build(self, folder):
        simu = super().build(folder)
        simu.rho = 7.8e-3
        self.set_hyperbolic(simu, 1e-3, 1e-6)
        return simu

    def live(self, simu):
        pt = simu.problemType
        return [simu._Get_u_n(pt), simu._Get_v_n(pt), simu._Get_a_n(pt)]


class PhaseField(Adapter):
    name = "PhaseField"
    keys = ["damage", "displacement"]
    results = ["damage", "displacement"]
    pf_solver = None
    # Result("psiP") recomputes AND rebinds the trial history field (__psiP_e_pg): a state-changing read
    skip_results = ("psiP",)

    def build(self, folder):
        mat = Models.Elastic.Isotropic(2, E=210000.0, v=0.3, planeStress=True, thickness=1.0)
        kw = {} if self.pf_solver is None else {"solver": getattr(Models.PhaseField.SolverType, self.pf_solver)}
        pfm = Models.PhaseField(mat, "Miehe", "AT2", 2.7, 0.4, **kw)
        simu = Simulations.PhaseField(self.new_mesh(), pfm, folder=folder, verbosity=False)
        return simu

    def live(self, simu):
        return [simu.damage, simu.displacement]

    def inject(self, simu, arrays):
        if arrays[0] is not None:
            simu._Set_solutions(simu.ProblemTypes.damage, arrays[0])
        if arrays[1] is not None:
            simu._Set_solutions(simu.ProblemTypes.elastic, arrays[1])

    def bc(self, simu, n):
        n0, nL = _edges(simu)
        simu.add_dirichlet(n0, [0, 0], ["x", "y"])
        simu.add_dirichlet(nL, [2e-3 * (n + 1)], ["x"])

    def solve(self, simu, n):
        super().solve(simu, n)
        # as every phase-field script does after a solve (Save() needs it, see probe phasefield_save)
        simu.Results_Set_Iteration_Summary(n, 2e-3 * (n + 1), "m")


class PhaseFieldHD(PhaseField):
    """HistoryDamage solver: the damage field itself is the only memory, so a restart from a restored
    iteration must reproduce the original continuation"""
    name = "PhaseField_HistoryDamage"
    pf_solver = "HistoryDamage"


class HyperElastic(Adapter):
    name = "HyperElastic_static"
    keys = ["displacement"]
    results = ["displacement"]

    def build(self, folder):
        mat = Models.HyperElastic.NeoHookean(2, K=5.0e4)
        return Simulations.HyperElastic(self.new_mesh(), mat, folder=folder, verbosity=False)

    def bc(self, simu, n):
        n0, nL = _edges(simu)
        simu.add_dirichlet(n0, [0, 0], simu.Get_unknowns())
        simu.add_dirichlet(nL, [-0.01 * (n + 1)], ["y"])


class HyperElasticDyn(HyperElastic):
    name = "HyperElastic_newmark"
    hyperbolic = True
    keys = ["displacement", "speed", "accel"]
    results = ["displacement", "speed", "accel"]

    time_dependent = True

    def build(self, folder):
        simu = super().build(folder)
        self.set_hyperbolic(simu, 0.01, 1e-4)
        return simu

    def bc(self, simu, n):
        n0, nL = _edges(simu)
        simu.add_dirichlet(n0, [0, 0], simu.Get_unknowns())
        simu.add_neumann(nL, [-1.0 * (n + 1)], ["y"])


class InElastic(Adapter):
    name = "InElastic"
    keys = ["displacement", "state"]
    results = ["displacement", None]
    can_setmesh = False   # the committed state is keyed by element type and survives a mesh change (C14 matter)

    def build(self, folder):
        from EasyFEA.Models.Elastic._laws import Isotropic
        beh = Models.InElastic.Behavior(
            2, Isotropic(3, E=210000.0, v=0.3),
            hardening=Models.InElastic.IsotropicHardening.Linear(2000.0),
            yieldSurface=Models.InElastic.Yield.VonMises(250.0), thickness=1.0)
        return Simulations.InElastic(self.new_mesh(), beh, folder=folder, verbosity=False)

    def live(self, simu):
        # the trial state: replaced by every Solve, committed (copied) by Save_Iter, restored by Set_Iter
        z = simu._InElastic__z
        return [simu.displacement, {k: np.asarray(v) for k, v in z.items()}]

    def internal(self, simu):
        return {"committed_state": {k: np.asarray(v) for k, v in simu._InElastic__zOld.items()}}

    def bc(self, simu, n):
        n0, nL = _edges(simu)
        simu.add_dirichlet(n0, [0, 0], ["x", "y"])
        simu.add_dirichlet(nL, [0.8e-3 * (n + 1)], ["x"])


class WeakFormsStatic(Adapter):
    name = "WeakForms_static"
    keys = ["u"]
    results = ["u"]
    can_setmesh = False
    can_saveload = False

    def build(self, folder):
        from EasyFEA.FEM import Field, BiLinearForm
        mesh = self.new_mesh()
        field = Field(mesh.groupElem, 1)

        @BiLinearForm
        def bilinear_form(u, v):
            return u.grad.dot(v.grad)

        wf = Models.WeakForms(field, bilinear_form)
        return Simulations.WeakForms(mesh, wf, folder=folder, verbosity=False)

    def live(self, simu):
        return [simu.u]

    def bc(self, simu, n):
        n0, nL = _edges(simu)
        simu.add_dirichlet(n0, [0], ["u"])
        simu.add_dirichlet(nL, [1.0 * (n + 1)], ["u"])


class WeakFormsParabolic(WeakFormsStatic):
    """K = grad u . grad v, C = u v, parabolic scheme"""
    name = "WeakForms_parabolic"
    keys = ["u", "v"]
    results = ["u", None]
    time_dependent = True
    forms = ("C",)

    def build(self, folder):
        from EasyFEA.FEM import Field, BiLinearForm
        mesh = self.new_mesh()
        field = Field(mesh.groupElem, 1)

        @BiLinearForm
        def computeK(u, v):
            return u.grad.dot(v.grad)

        @BiLinearForm
        def computeUV(u, v):
            return u.dot(v)

        wf = Models.WeakForms(field, computeK, computeUV if "C" in self.forms else None, computeUV if "M" in self.forms else None)
        simu = Simulations.WeakForms(mesh, wf, folder=folder, verbosity=False)
        self.set_time(simu)
        return simu

    def set_time(self, simu):
        simu.Solver_Set_Parabolic_Algorithm(dt=0.1, **({"alpha": self.alpha} if self.alpha is not None else {}))

    def live(self, simu):
        return [simu.u, simu.v, simu.a][: len(self.keys)]


class WeakFormsDyn(WeakFormsParabolic):
    """K = grad u . grad v, M = u v, every hyperbolic scheme"""
    name = "WeakForms_newmark"
    keys = ["u", "v", "a"]
    results = ["u", None, None]
    hyperbolic = True
    forms = ("M",)

    def set_time(self, simu):
        self.set_hyperbolic(simu, 0.05, 1e-3)

    def bc(self, simu, n):
        # a load (not a prescribed value) so that every scheme, the explicit one included, moves
        n0, nL = _edges(simu)
        simu.add_dirichlet(n0, [0], ["u"])
        simu.add_neumann(nL, [1.0 * (n + 1)], ["u"])


ADAPTERS = {a.name: a for a in (PhaseFieldHD, BeamDyn, WeakFormsParabolic, WeakFormsDyn, ElasticStatic, ElasticDyn, ThermalStatic, ThermalParabolic, Beam, PhaseField,
                                HyperElastic, HyperElasticDyn, InElastic, WeakFormsStatic)}


def group_order(mesh):
    return [str(et) for et in mesh.dict_groupElem] + ["|"] + [str(g.elemType) for g in mesh.Get_list_groupElem(mesh.dim)]


def mesh_sig(mesh):
    h = hashlib.sha1()
    h.update(np.ascontiguousarray(mesh.coord).tobytes())
    for et, g in mesh.dict_groupElem.items():
        h.update(str(et).encode())
        h.update(np.ascontiguousarray(g.connect).tobytes())
        for tag in sorted(g._dict_nodes_tags):
            h.update(tag.encode())
            h.update(np.ascontiguousarray(np.sort(np.asarray(g._dict_nodes_tags[tag]))).tobytes())
    return h.hexdigest()[:16]


class Run:
    def __init__(self, case, root, load_shift=0, init_folder=0):
        self.case = case
        self.load_shift = load_shift
        self.trace = []         # what every restore / read brought back, in order (memory-vs-disk comparison)
        self.ad = ADAPTERS[case["sim"]]()
        self.ad.mixed = bool(case.get("mixed"))
        self.ad.Ls = float(case.get("coord_scale", 1.0))
        self.field_scale = {}    # field index -> largest magnitude seen in this scenario (natural scale for tolerances)
        self.injected = {}
        self.ad.algo = case.get("algo")
        self.ad.alpha = case.get("alpha")
        self.rates_nonzero = 0   # saved iterations whose rate fields (v, a / thermalDot) were all non-zero
        self.root = os.path.join(root, "case%s" % case["id"])
        self.simu = self.ad.build("")
        if init_folder:
            self.simu.folder = os.path.join(self.root, "f%d" % init_folder)
        self.reg = {"0": None}  # token -> sha (per field the zero vector differs in size: handled by driver via 'zero')
        self.ghost = []       # (indexMesh, mesh_sig, [deep copies per field], [Result values per field])
        self.handed = []
        self.handed_src = None
        self.nsolve = 0
        self.fails = []       # property predicate failures: dict(kind, step, detail)
        self.wrote = []       # sources of arrays that were written in place so far
        self.events = []
        self.last_store = {}
        self.corrupt = {}
        self.loaded = False
        self.warm_since_solve = False
        self.nresults = 0
        self.mesh_id = 0        # the harness's own count of mesh assignments (index of the current mesh in the history)
        self.cur_mesh = 0
        self.load_of = {}       # first token of a Solve -> load counter used (a Solve re-using tokens replays that load)
        self.reg_arr = {}

    def folder(self, f):
        return "" if f == 0 else os.path.join(self.root, "f%d" % f)

    # ---- observation through the public API (no writes) ----
    def store_obs(self):
        out = []
        s = self.simu
        for i in range(s.Niter):
            try:
                r = raw_entry(s, i)   # NOT through Get_results: observing must not perturb what is observed
                out.append([int(r["indexMesh"])] + [sha(x) for x in self.ad.entry_fields(r)])
            except Exception as ex:  # unreadable entry
                out.append(["ERR", type(ex).__name__])
        return out

    def obs(self):
        s = self.simu
        return {"live": [sha(x) for x in self.ad.live(s)], "mesh": int(s._Simu__indexMesh), "nmesh": int(s.Nmesh),
                "mesh_sig": mesh_sig(s.mesh), "group_order": group_order(s.mesh), "niter": int(s.Niter), "store": self.store_obs()}

    def fail(self, kind, step, detail):
        self.fails.append({"kind": kind, "step": step, "detail": detail, "wrote": list(self.wrote)})

    def check_restored(self, i, step, via):
        """property predicate: live fields and mesh are those that were current at Save_Iter i"""
        g = self.ghost[i]
        s = self.simu
        live = self.ad.live(s)
        bad = [self.ad.keys[k] for k in range(len(live)) if sha(live[k]) != sha(g[2][k])]
        if bad:
            self.fail("restore-fields", step, {"iter": i, "via": via, "fields": bad, "entry_corrupted_by": self.corrupt.get(i)})
        intern = self.ad.internal(s)
        badi = [k for k in intern if sha(intern[k]) != sha(g[4][k]) and not (iszero(intern[k]) and iszero(g[4][k]))]
        if badi:
            self.fail("restore-internal", step, {"iter": i, "via": via, "internal": badi})
        self.cur_mesh = g[0]
        if group_order(s.mesh) != g[5]:
            self.fail("load-mesh-group-order", step, {"iter": i, "via": via, "group_order": group_order(s.mesh), "expected": g[5]})
        if not bad:
            bade = [nm for nm in self.ad.elem_results if sha(s.Result(nm, nodeValues=False)) != sha(g[6][nm])]
            if bade:
                self.fail("element-results", step, {"iter": i, "via": via, "results": bade, "after_load_simu": self.loaded})
        if g[7] is not None and not bad:
            now = self.ad.all_results(s)
            def hist_scale(k):
                vs = [gg[7][k] for gg in self.ghost if gg[7] is not None and k in gg[7] and not isinstance(gg[7][k], str) and gg[7][k] is not None]
                ms = [float(np.nanmax(np.abs(v))) for v in vs if np.size(v) and np.isfinite(np.asarray(v, dtype=float)).any()]
                return max(ms + [0.0])
            badr = sorted(k for k in g[7] if k not in now or res_differs(now[k], g[7][k], hist_scale(k)))
            if badr:
                def fmt(v):
                    return v if isinstance(v, (str, float)) or v is None else "array max|.|=%.6g" % float(np.nanmax(np.abs(v))) if np.size(v) else "empty"
                self.fail("result-iter-differs", step, {"iter": i, "via": via, "results": badr[:8], "n_results_compared": len(g[7]), "warm": self.warm_since_solve,
                                                        "now": fmt(now.get(badr[0])), "at_save_time": fmt(g[7][badr[0]])})
        if int(s._Simu__indexMesh) != g[0] or mesh_sig(s.mesh) != g[1]:
            self.fail("restore-mesh", step, {"iter": i, "via": via, "indexMesh": int(s._Simu__indexMesh), "expected": g[0]})

    def check_store_vs_ghost(self, step, after):
        """every stored iteration still reads as what was saved; a corruption is reported once, at the
        op after which it is first seen (self.corrupt remembers the cause for later restore failures)"""
        st = self.store_obs()
        for i, e in enumerate(st):
            g = self.ghost[i]
            exp = [g[0]] + [sha(x) for x in g[2]]
            if e != exp and self.last_store.get(i) != e:
                kind = "disk" if isinstance(s_entry(self.simu, i), str) else "mem"
                self.corrupt.setdefault(i, after)
                self.fail("store-changed", step, {"iter": i, "after": after, "kind_of_entry": kind,
                                                  "fields": [self.ad.keys[k] for k in range(len(self.ad.keys)) if len(e) == len(exp) and e[k + 1] != exp[k + 1]] or e})
            self.last_store[i] = e

    def step(self, n, op):
        name = op[0]
        s = self.simu
        ad = self.ad
        neg = None
        if name in ("GetResultsNeg", "SetIterNeg", "ResultQNeg"):
            # python-style index -k, meaning "k-th from the end of the history as it is NOW"
            neg = -int(op[1])
            i_now = s.Niter + neg if 1 <= -neg <= s.Niter else s.Niter   # out of range -> must be rejected
            name = name[:-3]
            op = [name, i_now] + list(op[2:])
        if name == "Solve":
            toks = op[1]
            if len(op) > 3 and op[2] == "inject":
                # not a solve: the live fields are REBOUND (like a solve does) to arrays with non-physical values
                if toks[0] not in self.injected:
                    self.injected[toks[0]] = [exotic_like(a, op[3], 7919 * toks[0] + k) for k, a in enumerate(ad.live(s))]
                ad.inject(s, [None if a is None else a.copy() for a in self.injected[toks[0]]])
                for t, a in zip(toks, ad.live(s)):
                    self.reg.setdefault(str(t), []).append(parts(a)["sha"])
                    self.reg_arr[t] = deep(a)
            elif toks[0] in self.load_of:
                # continuation replay: same load as the Solve that originally produced these tokens, from the
                # restored iteration it started from: must reproduce it (1e-9 RELATIVE to the field's own scale in
                # this scenario: re-assembled operators)
                ad.solve(s, self.load_of[toks[0]])
                for k, (t, a) in enumerate(zip(toks, ad.live(s))):
                    ref = self.reg_arr[t]
                    if isinstance(a, dict):
                        d = max([float(np.max(np.abs(np.asarray(a[e]) - np.asarray(ref[e])))) if e in ref and np.shape(a[e]) == np.shape(ref[e]) else float("inf") for e in a] + [0.0 if set(a) == set(ref) else float("inf")])
                        sc = max([float(np.max(np.abs(ref[e]))) for e in ref if np.size(ref[e])] + [0.0])
                    else:
                        d = float(np.max(np.abs(a - ref))) if np.shape(a) == np.shape(ref) else float("inf")
                        sc = float(np.max(np.abs(ref))) if np.size(ref) else 0.0
                    sc = max(sc, self.field_scale.get(k, 0.0))
                    if d > 1e-9 * sc:
                        self.fail("continuation-differs", n, {"field": ad.keys[k], "max_abs_diff": d, "scale": sc, "warm": self.warm_since_solve})
                    self.reg.setdefault(str(t), []).append(parts(a)["sha"])   # a replay may differ in the last bits
            else:
                ad.solve(s, (self.nsolve + self.load_shift) % 7)
                self.load_of[toks[0]] = (self.nsolve + self.load_shift) % 7
                self.nsolve += 1
                for k, (t, a) in enumerate(zip(toks, ad.live(s))):
                    self.reg[str(t)] = [parts(a)["sha"]]
                    self.reg_arr[t] = deep(a)
                    f_ = flat(a)
                    if f_.size and np.isfinite(f_).all():
                        self.field_scale[k] = max(self.field_scale.get(k, 0.0), float(np.max(np.abs(f_))))
            self.warm_since_solve = False
            self.check_store_vs_ghost(n, "Solve")
        elif name == "SaveIter":
            s.Save_Iter()
            live = [deep(x) for x in ad.live(s)]
            resv = []
            for rname in ad.results:
                resv.append(None if rname is None else deep(s.Result(rname)))
            self.ghost.append((self.cur_mesh, mesh_sig(s.mesh), live, resv, {k: deep(v) for k, v in ad.internal(s).items()},
                               group_order(s.mesh), {nm: deep(s.Result(nm, nodeValues=False)) for nm in ad.elem_results},
                               ad.all_results(s) if self.case.get("allresults") else None))
            if ad.time_dependent and len(live) > 1 and all(not iszero(x) for x in live[1:]):
                self.rates_nonzero += 1
            self.check_store_vs_ghost(n, "SaveIter")
        elif name == "Warm":
            before = self.obs()
            ad.warm(s)
            self.warm_since_solve = True
            if self.obs() != before:
                self.fail("result-query-impure", n, {"what": "Get_K_C_M_F / scalar Result() of the current state changed live fields, mesh or store"})
        elif name == "SetFolder":
            s.folder = self.folder(op[1])
            self.check_store_vs_ghost(n, "SetFolder")
        elif name == "GetResults":
            i = op[1]
            before = self.obs()
            try:
                # python-style negative indices address the same entries
                r = s.Get_results(neg if neg is not None else (i - s.Niter if (0 <= i < s.Niter and (i + n) % 3 == 0) else i))
            except AssertionError:
                if 0 <= i < s.Niter:
                    raise   # a valid index must not be rejected
                self.events.append([n, "GetResults-invalid"])
                return
            after = self.obs()
            if before != after:
                self.fail("get-results-impure", n, {"iter": i, "before": before, "after": after})
            self.handed = ad.entry_fields(r)
            self.handed_src = "Get_results:" + ("disk" if isinstance(s_entry(s, i), str) else "inmem")
            if i < len(self.ghost):
                g = self.ghost[i]
                if [int(r["indexMesh"])] + [sha(x) for x in self.handed] != [g[0]] + [sha(x) for x in g[2]]:
                    self.fail("get-results-value", n, {"iter": i, "entry_corrupted_by": self.corrupt.get(i)})
        elif name == "SetIter":
            i = op[1]
            try:
                if neg == -1 and n % 2 == 0:
                    r = s.Set_Iter()   # default argument = the last iteration
                else:
                    r = s.Set_Iter(neg if neg is not None else (i - s.Niter if (0 <= i < s.Niter and (i + n) % 3 == 0) else i))
            except AssertionError:
                if 0 <= i < s.Niter:
                    raise   # a valid index must not be rejected
                self.events.append([n, "SetIter-invalid"])
                return
            self.handed = ad.entry_fields(r)
            self.handed_src = "Set_Iter:" + ("disk" if isinstance(s_entry(s, i), str) else "inmem")
            self.check_restored(i, n, "Set_Iter")
        elif name == "ResultQ":
            i, k = op[1], op[2]
            rname = ad.results[k]
            try:
                it = neg if neg is not None else i
                if rname is None:
                    s.Set_Iter(it)
                    v = deep(ad.live(s)[k])
                else:
                    v = s.Result(rname, iter=it)
            except AssertionError:
                if 0 <= i < s.Niter:
                    raise   # a valid index must not be rejected
                self.events.append([n, "ResultQ-invalid"])
                return
            # Result(iter=i) = Set_Iter(i) + getter
            self.handed = [v]
            self.handed_src = "Result"
            self.check_restored(i, n, "Result")
            g = self.ghost[i]
            if rname is not None and sha(v) != sha(g[3][k]):
                self.fail("result-value", n, {"iter": i, "result": rname, "entry_corrupted_by": self.corrupt.get(i)})
        elif name in ("WriteRet", "WriteRetAt"):
            k = op[1]
            tok = op[-1]
            if k < len(self.handed) and self.handed[k] is not None:
                c = 1000.0 + tok
                self.reg[str(tok)] = [parts(filled_like(self.handed[k], c))["sha"]]
                livebefore = [sha(x) for x in ad.live(s)]
                if name == "WriteRet":
                    fill(self.handed[k], c)            # whole array
                else:
                    fill_part(self.handed[k], op[2], c)  # one element / a slice
                self.wrote.append(self.handed_src)
                self.events.append([n, "write" if name == "WriteRet" else "partial-write", self.handed_src, k])
                if [sha(x) for x in ad.live(s)] != livebefore:
                    self.events.append([n, "write-reached-live", self.handed_src, k])
                self.check_store_vs_ghost(n, "WriteRet:" + str(self.handed_src))
        elif name == "SetMesh":
            if not ad.can_setmesh:
                return
            s.mesh = ad.new_mesh()
            self.mesh_id += 1
            self.cur_mesh = self.mesh_id
            self.check_store_vs_ghost(n, "SetMesh")
        elif name == "SaveLoad":
            if not ad.can_saveload:
                return
            f = self.folder(op[1])
            before = self.obs()
            try:
                s.Save(f)
            except Exception as ex:
                self.fail("save-crash", n, {"error": type(ex).__name__ + ": " + str(ex)[:200]})
                self.handed = []
                if len(op) > 2 and op[2] == "mem":
                    s.folder = ""
                return
            self.simu = Load_Simu(f)
            self.loaded = True
            if len(op) > 2 and op[2] == "mem":
                self.simu.folder = ""      # memory variant of the scenario: keep storing dicts after the round trip
                f = ""
            after = self.obs()
            if before != after:
                diff = [k for k in before if before[k] != after[k]]
                self.fail("save-load", n, {"differs": diff})
            if self.simu.folder != f:
                self.fail("save-load-folder", n, {"folder": self.simu.folder})
            self.handed = []
            self.handed_src = None
        else:
            raise ValueError(name)

    def run(self):
        err = None
        for n, op in enumerate(self.case["ops"]):
            try:
                with contextlib.redirect_stdout(io.StringIO()):
                    ninv = len([e for e in self.events if str(e[1]).endswith("-invalid")])
                    self.step(n, op)
                    if op[0] in ("GetResults", "SetIter", "ResultQ", "GetResultsNeg", "SetIterNeg", "ResultQNeg") \
                            and ninv == len([e for e in self.events if str(e[1]).endswith("-invalid")]):
                        self.trace.append({"op": op[0], "live": [sha(x) for x in self.ad.live(self.simu)],
                                           "handed": [sha(x) for x in self.handed], "mesh": int(self.simu._Simu__indexMesh),
                                           "niter": int(self.simu.Niter)})
            except Exception as ex:  # the implementation raised on a valid op list
                import traceback
                err = {"step": n, "op": op, "error": type(ex).__name__ + ": " + str(ex)[:300], "tb": traceback.format_exc()[-1500:],
                       "abandoned": op[0] == "Solve" and (any(e[1] == "write-reached-live" for e in self.events)
                                                          # the nonlinear solver gave up on this load path (large load
                                                          # reversals of the random history): not a statement of C15
                                                          or any(t in str(ex) for t in ("did not converge", "reduce load steps", "reduce the load step")))}
                break
        out = {"id": self.case["id"], "sim": self.case["sim"], "fails": self.fails, "events": self.events, "error": err,
               "reg": self.reg, "nfields": len(self.ad.keys), "rates_nonzero": self.rates_nonzero,
               "n_results_recorded": max([len(g[7]) for g in self.ghost if g[7] is not None] + [0]),
               "algo": (str(self.simu.algo.value) if hasattr(self.simu.algo, "value") else str(self.simu.algo))}
        if err is None:
            with contextlib.redirect_stdout(io.StringIO()):
                o = self.obs()
                o["live_parts"] = [parts(x) for x in self.ad.live(self.simu)]
                o["store_parts"] = []
                for i in range(self.simu.Niter):
                    try:
                        e = raw_entry(self.simu, i)
                        o["store_parts"].append([int(e["indexMesh"])] + [parts(x) for x in self.ad.entry_fields(e)])
                    except Exception as ex:
                        o["store_parts"].append(["ERR", type(ex).__name__])
                o["live_zero"] = [bool(iszero(x)) for x in self.ad.live(self.simu)]
                o["store_zero"] = []
                for i in range(self.simu.Niter):
                    try:
                        o["store_zero"].append([bool(iszero(x)) for x in self.ad.entry_fields(raw_entry(self.simu, i))])
                    except Exception:
                        o["store_zero"].append([])
                o["entries"] = ["disk" if isinstance(s_entry(self.simu, i), str) else "mem" for i in range(self.simu.Niter)]
                o["folder_is_empty"] = self.simu.folder == ""
            out["final"] = o
        return out


def s_entry(simu, i):
    return simu._Simu__list_results[i]


def raw_entry(simu, i):
    """the stored iteration as it is in the history: the dict itself, or the pickle at the pinned path
    (MPI_SIZE == 1: the pickle holds the plain dict)"""
    e = s_entry(simu, i)
    if isinstance(e, str):
        with open(e, "rb") as f:
            return pickle.load(f)
    return e


# ------------------------------------------------------------------------------------------
# dedicated probes of the suspected defects (each returns a dict; 'violates' = property fails)
# ------------------------------------------------------------------------------------------
def probe_phasefield_history(root):
    """History solver: after Set_Iter(i) the next Solve must equal the Solve that followed
    iteration i originally (same boundary conditions)."""
    out = {}
    for reset in (False, True):
        ad = PhaseField()
        s = ad.build("")
        loads = [6, 0, 3]   # load, unload, reload below the first peak (solve counter -> displacement)
        for n in loads[:2]:
            ad.solve(s, n)
            s.Save_Iter()
        ad.solve(s, loads[2])
        ref_d, ref_u = s.damage.copy(), s.displacement.copy()
        s.Save_Iter()
        # overwrite the history with a much larger load, then go back to iteration 1
        ad.solve(s, 30)
        s.Save_Iter()
        s.Set_Iter(1, resetAll=reset)
        ad.solve(s, loads[2])
        d2, u2 = s.damage.copy(), s.displacement.copy()
        out["resetAll=%s" % reset] = {"max_abs_damage_diff": float(np.max(np.abs(d2 - ref_d))), "ref_damage_max": float(ref_d.max()),
                                      "replayed_damage_max": float(d2.max()),
                                      "violates": bool(np.max(np.abs(d2 - ref_d)) > 1e-9 * max(1.0, float(np.max(np.abs(ref_d)))))}
    return out


def probe_inelastic_state(root):
    """committed / trial internal variables after Set_Iter: the next Solve equals the original next Solve"""
    ad = InElastic()
    s = ad.build("")
    for n in (1, 3):
        ad.solve(s, n)
        s.Save_Iter()
    ad.solve(s, 1)   # unloading from the plastic state
    ref_u = s.displacement.copy()
    ref_z = {k: np.array(v) for k, v in s._InElastic__z.items()}
    s.Save_Iter()
    ad.solve(s, 8)
    s.Save_Iter()
    s.Set_Iter(1)
    zOld = {k: np.asarray(v) for k, v in s._InElastic__zOld.items()}
    committed_ok = sha(zOld) == sha(deep(s.Get_results(1)["state"]))
    ad.solve(s, 1)
    u2 = s.displacement.copy()
    z2 = {k: np.array(v) for k, v in s._InElastic__z.items()}
    du = float(np.max(np.abs(u2 - ref_u)))
    dz = max(float(np.max(np.abs(z2[k] - ref_z[k]))) for k in ref_z) if ref_z else 0.0
    plastic = any(float(np.max(np.abs(v))) > 0 for v in ref_z.values())
    return {"committed_restored": bool(committed_ok), "max_du": du, "max_dz": dz, "plastic_history_nonzero": bool(plastic),
            "violates": bool((not committed_ok) or du > 1e-9 * float(np.max(np.abs(ref_u))) or dz > 1e-9 * max([float(np.max(np.abs(v))) for v in ref_z.values()] + [0.0]))}


def probe_algo_change(root):
    """iteration saved under a hyperbolic/parabolic algorithm, restored after the algorithm was
    switched to elliptic (e.g. for post-processing): stored speed/accel are in the entry."""
    out = {}
    ad = ElasticDyn()
    s = ad.build("")
    for n in range(2):
        ad.solve(s, n)
        s.Save_Iter()
    g = [deep(x) for x in ad.live(s)]
    s.Solver_Set_Elliptic_Algorithm()
    s.Set_Iter(1)
    live = ad.live(s)
    out["Elastic"] = {"u_ok": sha(live[0]) == sha(g[0]), "v_ok": sha(live[1]) == sha(g[1]), "a_ok": sha(live[2]) == sha(g[2]),
                      "result_speed_ok": sha(s.Result("speed", iter=1)) == sha(g[1])}
    out["Elastic"]["violates"] = not all(out["Elastic"].values())
    ad = ThermalParabolic()
    s = ad.build("")
    for n in range(2):
        ad.solve(s, n)
        s.Save_Iter()
    g = [deep(x) for x in ad.live(s)]
    s.Solver_Set_Elliptic_Algorithm()
    s.Set_Iter(1)
    live = ad.live(s)
    out["Thermal"] = {"u_ok": sha(live[0]) == sha(g[0]), "v_ok": sha(live[1]) == sha(g[1])}
    out["Thermal"]["violates"] = not all(out["Thermal"].values())
    ad = HyperElasticDyn()
    s = ad.build("")
    for n in range(2):
        ad.solve(s, n)
        s.Save_Iter()
    g = [deep(x) for x in ad.live(s)]
    s.Solver_Set_Elliptic_Algorithm()
    s.Set_Iter(1)
    live = ad.live(s)
    out["HyperElastic"] = {"u_ok": sha(live[0]) == sha(g[0]), "v_ok": sha(live[1]) == sha(g[1]), "a_ok": sha(live[2]) == sha(g[2])}
    out["HyperElastic"]["violates"] = not all(out["HyperElastic"].values())
    return out


def probe_init_shared(root):
    ad = ElasticStatic()
    s = ad.build("")
    pt = s.problemType
    u, v, a = s._Simu__dict_u_n[pt], s._Simu__dict_v_n[pt], s._Simu__dict_a_n[pt]
    return {"u_is_v": u is v, "u_is_a": u is a, "violates": False,
            "note": "__Init_Sols_n binds u, v, a to one zero vector; harmless as long as the slots are only rebound"}


def probe_save_then_folder_change(root):
    """Save() replaces the live mesh list by paths relative to the folder of Save; a later folder
    change must not redirect the meshes of older iterations."""
    ad = ElasticStatic()
    s = ad.build("")
    ad.solve(s, 0); s.Save_Iter()
    sig0 = mesh_sig(s.mesh)
    s.mesh = ad.new_mesh()
    ad.solve(s, 1); s.Save_Iter()
    fa, fb = os.path.join(root, "probeA"), os.path.join(root, "probeB")
    s.Save(fa)
    s.folder = fb
    try:
        s.Set_Iter(0)
        ok = mesh_sig(s.mesh) == sig0
        err = None
    except Exception as ex:
        ok, err = False, type(ex).__name__ + ": " + str(ex)[:200]
    return {"mesh_restored": ok, "exc": err, "violates": not ok}


def probe_phasefield_save(root):
    """Save() of a phase-field simulation that never called Results_Set_Iteration_Summary"""
    ad = PhaseField()
    s = ad.build("")
    Adapter.solve(ad, s, 0)
    s.Save_Iter()
    try:
        s.Save(os.path.join(root, "probePF"))
        s2 = Load_Simu(os.path.join(root, "probePF"))
        ok = sha(s2.damage) == sha(s.damage) and s2.Niter == 1
        return {"violates": not ok, "error_save": None}
    except Exception as ex:
        return {"violates": True, "error_save": type(ex).__name__ + ": " + str(ex)[:200]}


def probe_mesh_roundtrip(root):
    """Mesh.Save / Load_Mesh of a mesh with two element types of the main dimension + a boundary group + tags"""
    mesh = mixed_mesh(4, 3)
    path = mesh.Save(os.path.join(root, "probeMesh"), "mixed")
    from EasyFEA.FEM._mesh import Load_Mesh
    m2 = Load_Mesh(path)
    out = {"group_order_saved": group_order(mesh), "group_order_loaded": group_order(m2)}
    out["order_ok"] = out["group_order_saved"] == out["group_order_loaded"]
    out["coord_ok"] = sha(mesh.coord) == sha(m2.coord)
    out["connect_ok"] = all(et in m2.dict_groupElem and sha(g.connect) == sha(m2.dict_groupElem[et].connect) for et, g in mesh.dict_groupElem.items())
    out["connect_main_dim_ok"] = [sha(g.connect) for g in mesh.Get_list_groupElem(mesh.dim)] == [sha(g.connect) for g in m2.Get_list_groupElem(m2.dim)]
    out["tags_ok"] = all(sorted(g._dict_nodes_tags) == sorted(m2.dict_groupElem[et]._dict_nodes_tags) and
                         all(sha(np.sort(g._dict_nodes_tags[t])) == sha(np.sort(m2.dict_groupElem[et]._dict_nodes_tags[t])) for t in g._dict_nodes_tags)
                         for et, g in mesh.dict_groupElem.items() if et in m2.dict_groupElem)
    out["Ne_Nn_ok"] = (mesh.Ne, mesh.Nn) == (m2.Ne, m2.Nn)
    out["violates"] = not all(out[k] for k in ("order_ok", "coord_ok", "connect_ok", "connect_main_dim_ok", "tags_ok", "Ne_Nn_ok"))
    return out


def probe_write_origins(root):
    """per configuration and per ORIGIN of a returned array (Get_results / Set_Iter of an in-memory entry, of an
    on-disk entry, Result(.., iter=)): write one cell in place, then look at the stored iterations and the live
    fields again"""
    out = {}
    seen_cls = set()
    for name, cls in ADAPTERS.items():
        if os.environ.get("VERIF_TIER", "quick") == "quick":
            # wall time: one mode per simulation class in the quick tier, every configuration in the thorough tier
            if name.split("_")[0] in seen_cls:
                continue
            seen_cls.add(name.split("_")[0])
        out[name] = {}
        ad = cls()
        s = ad.build("")
        ad.solve(s, 1)
        s.Save_Iter()                                   # iteration 0 in memory
        s.folder = os.path.join(root, "wo_" + name)
        ad.solve(s, 2)
        s.Save_Iter()                                   # iteration 1 on disk
        ad.solve(s, 3)
        for no, origin in enumerate(("Get_results:inmem", "Get_results:disk", "Set_Iter:inmem", "Set_Iter:disk", "Result(iter=)")):
            i = 0 if origin.endswith("inmem") or origin.startswith("Result") else 1
            k = 0
            if origin.startswith("Get_results"):
                arr = ad.entry_fields(s.Get_results(i))[k]
            elif origin.startswith("Set_Iter"):
                arr = ad.entry_fields(s.Set_Iter(i))[k]
            else:
                arr = s.Result(ad.results[0], iter=i)
            store0 = [[sha(x) for x in ad.entry_fields(raw_entry(s, j))] for j in range(s.Niter)]
            live0 = [sha(x) for x in ad.live(s)]
            fill_part(arr if not isinstance(arr, np.ndarray) or arr.flags["C_CONTIGUOUS"] else np.ascontiguousarray(arr), 0, 12345.0 + no)
            store1 = [[sha(x) for x in ad.entry_fields(raw_entry(s, j))] for j in range(s.Niter)]
            live1 = [sha(x) for x in ad.live(s)]
            out[name][origin] = {"field": ad.keys[k], "store_changed": store0 != store1, "live_changed": live0 != live1}
    nviol = sum(1 for a in out.values() for o in a.values() if o["store_changed"])
    return {"observed": out, "violates": nviol > 0, "n_store_changed": nviol}


PROBES = {"write_origins": probe_write_origins, "mesh_roundtrip": probe_mesh_roundtrip, "phasefield_save": probe_phasefield_save, "phasefield_history": probe_phasefield_history, "inelastic_state": probe_inelastic_state,
          "algo_change": probe_algo_change, "init_shared": probe_init_shared,
          "save_then_folder_change": probe_save_then_folder_change}


def mem_vs_disk(c, root):
    """the SAME scenario on two identical simulations: once with every iteration kept in memory (folder ""),
    once with every iteration written to disk (scratch folders, the scenario's folder changes kept); what every
    restore / read brings back must agree bitwise"""
    cm = dict(c, ops=[(["SetFolder", 0] if o[0] == "SetFolder" else (["SaveLoad", o[1], "mem"] if o[0] == "SaveLoad" else o)) for o in c["ops"]])
    cd = dict(c, ops=[(["SetFolder", o[1] if o[1] else 3] if o[0] == "SetFolder" else o) for o in c["ops"]])
    cm.pop("twin", None), cd.pop("twin", None)
    rm = Run(cm, root + "_mem")
    om = rm.run()
    rd_ = Run(cd, root + "_disk", init_folder=1)
    od = rd_.run()
    out = {"n_mem": len(rm.trace), "n_disk": len(rd_.trace), "error_mem": (om["error"] or {}).get("error"), "error_disk": (od["error"] or {}).get("error"),
           "entries_mem": sorted(set(om.get("final", {}).get("entries", []))), "entries_disk": sorted(set(od.get("final", {}).get("entries", []))),
           "diff": None, "n_compared": 0}
    for k, (a, b) in enumerate(zip(rm.trace, rd_.trace)):
        out["n_compared"] += 1
        for what in ("live", "handed", "mesh", "niter"):
            if a[what] != b[what]:
                out["diff"] = {"read_number": k, "op": a["op"], "what": what, "mem": a[what], "disk": b[what]}
                return out
    if out["error_mem"] is None and out["error_disk"] is None and len(rm.trace) != len(rd_.trace):
        out["diff"] = {"read_number": min(len(rm.trace), len(rd_.trace)), "op": "-", "what": "number-of-accepted-reads", "mem": len(rm.trace), "disk": len(rd_.trace)}
    return out


def main():
    req = json.loads(sys.stdin.read())
    if req.get("query") == "algos":
        # which time algorithms does each time-dependent configuration accept (asked to the implementation)
        hyp = [a.value for a in AlgoType.Get_Hyperbolic_Types()]
        sup = {}
        rejected = {}
        with contextlib.redirect_stdout(io.StringIO()):
            for name, cls in ADAPTERS.items():
                if not cls.hyperbolic:
                    continue
                sup[name] = []
                for a in hyp + (["parabolic"] if cls.also_parabolic else []):
                    ad = cls()
                    ad.algo = a
                    try:
                        ad.build("")
                        sup[name].append(a)
                    except AssertionError as ex:
                        rejected.setdefault(name, {})[a] = str(ex)[:200]
        sys.stdout.write(json.dumps({"hyperbolic": hyp, "all": [a.value for a in AlgoType], "supported": sup, "rejected": rejected}))
        return
    root = req["root"]
    assert "/build/C15" in root
    os.makedirs(root, exist_ok=True)
    res = {"cases": [], "probes": {}}
    for c in req.get("cases", []):
        r = Run(c, root).run()
        if c.get("twin"):
            # a SECOND simulation of the same class (other loads, so other values) runs the same op list in the
            # same process and the SAME folders, rewriting results0.. : every read through it must give ITS values
            r2 = Run(c, root, load_shift=3).run()
            for f in r2["fails"]:
                f["second_simulation"] = True
            r2["fails"] = r["fails"] + r2["fails"]
            r2["error"] = r2["error"] or r["error"]
            if r2["error"] and r2["error"] is not r["error"]:
                r2["error"]["second_simulation"] = True
            r2["twin"] = True
            r = r2
        if c.get("memdisk"):
            r["memdisk"] = mem_vs_disk(c, root)
        res["cases"].append(r)
    for p in req.get("probes", []):
        try:
            with contextlib.redirect_stdout(io.StringIO()):
                res["probes"][p] = PROBES[p](root)
        except Exception as ex:
            import traceback
            res["probes"][p] = {"error": type(ex).__name__ + ": " + str(ex)[:300], "tb": traceback.format_exc()[-1500:]}
    sys.stdout.write(json.dumps(res))


if __name__ == "__main__":
    main()
