"""C01 — patch test: linear fields are reproduced by the full solve.

1. regenerate Gen_Elems / Gen_LinalgR from ctx.repo, compile C01_tables.v (interp_linear, grad_linear,
   strain_linear for all 19 types, all points, all node coordinates) and C01_patch.v (abstract assembly:
   residual identity, patch_equilibrium_partial, uniqueness, energy)
2. correspondence: full patch tests through the real pipeline (gmsh meshes + affine map + renumbering,
   mixed QUAD4+TRI3 grid, laws, thermal, beams): interior nodes, strain/stress/energy vs exact, 1e-9.
3. when a proof breaks: exact search (python Fractions on the translated tables) for an element whose
   derivative columns do not sum to zero / N does not sum to one, replayed on the live lambdas.
"""
import json
import os
import re
from fractions import Fraction as F

from translator import elems as T_elems, pyexpr
from translator.pyexpr import TranslateError
from vlib import common

TOL = 1e-9

REPLAY = r'''
import json, sys
from corr.C01_impl import run_case
case = json.loads(%(case)r)
r = run_case(case)
if "error" in r:
    print("case raises:", r["error"]); sys.exit(1)
bad = False
if case["kind"] == "beam":
    print("nodal errors per unknown", r["err"], "scale", r["scale"])
    print("relative errors of the reported constants", r["post"])
    print("errors relative to the largest translation / rotation", r["err_rel"])
    bad = max(r["err_rel"].values()) > 1e-9 or max(list(r["post"].values()) + [0.0]) > 1e-9
else:
    T9 = 1e-9 * max(1.0, r.get("coord_conditioning", 1.0))   # conditioning-aware tolerance (see props/C01.py)
    print("interior nodes:", r["n_interior"], " max |u - u_lin| =", r["err_u_interior"], " scale", r["scale_u"])
    bad = not (r["err_u_interior"] <= T9 * r["scale_u"])
    if "err_u_all" in r:
        print("all nodes (prescribed ones included): max |u - u_lin| =", r["err_u_all"], " free nodes:", r["n_interior"])
        bad = bad or not (r["err_u_all"] <= T9 * r["scale_u"])
    if "first_solve_err" in (r.get("pre") or {}):
        print("solve before the in-place moves: error", r["pre"]["first_solve_err"])
        bad = bad or r["pre"]["first_solve_err"] > T9
    if "energy" in r:
        print("u'Ku of the linear field", r["energy"], "exact thickness*measure*density", r["energy_exact"], " residual at interior dofs / scale", r["residual_interior"] / r["residual_scale"])
        bad = bad or abs(r["energy"] - r["energy_exact"]) > T9 * abs(r["energy_exact"]) or r["residual_interior"] > T9 * r["residual_scale"]
    pre = r.get("pre") or {}
    for mv, sp in pre.get("moves_log", []):
        if sp > 1e-12:
            print("after Mesh move", mv, ": groups disagree on the node coordinates by", sp); bad = True
    for lg in ("queries_log", "queries_log_after_solve"):
        for q, ch, e in pre.get(lg, []):
            if ch != 0.0:
                print("read-only call", q, "changed node coordinates by", ch); bad = True
    if "requery_err_u" in r:
        print("patch test repeated after the read-only queries: nodes", r["requery_err_u"], "strain", r["requery_err_strain"], "coordinates changed by", r["requery_coord_change"])
        bad = bad or r["requery_err_u"] > T9 * r["scale_u"] or r["requery_coord_change"] != 0.0
    if case["phys"] == "elastic" and not r.get("assemble_only"):
        print("strain error", r["err_strain_comp"], "scale", r["scale_strain"], "| stress error", r["err_stress_comp"], "scale", r["scale_stress"],
              "| Wdef", r["Wdef"], "exact", r["Wdef_exact"])
        bad = bad or r["err_strain_comp"] > T9 * r["scale_strain"] or r["err_stress_comp"] > T9 * r["scale_stress"] \
            or abs(r["Wdef"] - r["Wdef_exact"]) > T9 * abs(r["Wdef_exact"]) \
            or r["err_Strain_plain"] > T9 * r["scale_strain"] or r["err_Stress_plain"] > T9 * r["scale_stress"]
        if "remap_err_u" in r:
            print("after a near-identity rotation (nodes moved by", r["remap_moved"], "): nodes", r["remap_err_u"], "strain", r["remap_err_strain"], "stress", r["remap_err_stress"], "Wdef", r["remap_Wdef"])
            bad = bad or r["remap_err_u"] > T9 * r["scale_u"] or r["remap_err_strain"] > T9 * r["scale_strain"] or r["remap_err_stress"] > T9 * r["scale_stress"] \
                or abs(r["remap_Wdef"] - r["Wdef_exact"]) > T9 * abs(r["Wdef_exact"]) \
                or abs(r["remap_Wdef_new"] - r["remap_Wdef_new_exact"]) > T9 * abs(r["remap_Wdef_new_exact"]) or r["remap_measure_err"] > T9
            print("  second map (affine, new simulation): Wdef", r["remap_Wdef_new"], "exact", r["remap_Wdef_new_exact"], "measure error", r["remap_measure_err"])
sys.exit(1 if bad else 0)
'''

REPLAY_TABLE = r'''
import sys, numpy as np
from EasyFEA.FEM._group_elem import GroupElemFactory
from EasyFEA.FEM._utils import ElemType
et = getattr(ElemType, %(elem)r)
gid, nPe, dim = GroupElemFactory.DICT_ELEMTYPE[et][:3]
g = GroupElemFactory.GROUP_CLASS_MAP[et](gid, np.arange(nPe).reshape(1, -1), np.zeros((nPe, 3)))
pt = %(pt)r
if %(kind)r == "pou":
    s = sum(f[0](*pt) for f in np.asarray(g._N(), dtype=object))
    print("sum_i N_i(%%s) = %%r (expected 1)" %% (pt, s)); sys.exit(1 if abs(s - 1) > 1e-9 else 0)
d = %(d)d
s = sum(row[d](*pt) for row in np.asarray(g._dN(), dtype=object))
print("sum_i dN_i/dxi_%%d (%%s) = %%r (expected 0: constants have zero gradient)" %% (d, pt, s))
sys.exit(1 if abs(s) > 1e-9 else 0)
'''


def search_tables(E):
    import itertools
    found = []
    for name, r in E.items():
        dim, nPe = r["dim"], r["nPe"]
        pts = [list(map(F, p)) for p in itertools.product((-1, 0, F(1, 3), 1, 2), repeat=dim)]
        N = [row[0] for row in r["tables"]["_N"]]
        dN = r["tables"]["_dN"]
        for p in pts:
            s = sum(pyexpr.ev(n, p) for n in N)
            if s != 1:
                found.append(("table-pou:" + name, "%s: sum_i N_i(%s) = %s, so a constant field is not interpolated exactly" % (name, [str(x) for x in p], s),
                              {"replay_py": REPLAY_TABLE % dict(elem=name, kind="pou", pt=[float(x) for x in p], d=0)}))
                break
        if dN is None:
            found.append(("table-dN:" + name, "%s: no first-derivative table" % name, {}))
            continue
        done = False
        for d in range(dim):
            for p in pts:
                s = sum(pyexpr.ev(dN[i][d], p) for i in range(nPe))
                if s != 0:
                    found.append(("table-dsum:" + name, "%s: sum_i dN_i/dxi_%d at %s = %s: a constant field has a non-zero gradient, linear fields are not reproduced" % (name, d, [str(x) for x in p], s),
                                  {"replay_py": REPLAY_TABLE % dict(elem=name, kind="dsum", pt=[float(x) for x in p], d=d)}))
                    done = True
                    break
            if done:
                break
    return found


def gen_cases(ctx, E):
    rng = ctx.rng
    quick = ctx.tier != "thorough"
    cases = []

    def affine(dim):
        A = [[(1 + rng.uniform(-.2, .2)) if i == j else rng.uniform(-.3, .3) for j in range(dim)] for i in range(dim)]
        return A, [rng.uniform(-1, 1) for _ in range(dim)]

    def law(dim):
        k = rng.choice(["isotropic", "isotropic", "transverse", "orthotropic"])
        ps = rng.random() < 0.5
        th = round(rng.uniform(0.3, 2.0), 3)
        import math
        a = rng.uniform(0, math.pi)
        ax1, ax2 = [math.cos(a), math.sin(a), 0.0], [-math.sin(a), math.cos(a), 0.0]
        if k == "isotropic":
            return k, {"E": rng.uniform(1, 300), "v": rng.uniform(0.0, 0.4), "planeStress": ps, "thickness": th}
        if k == "transverse":
            return k, {"El": rng.uniform(100, 300), "Et": rng.uniform(50, 100), "Gl": rng.uniform(30, 80), "vl": rng.uniform(0.1, 0.3),
                       "vt": rng.uniform(0.1, 0.3), "axis_l": ax1, "axis_t": ax2, "planeStress": ps, "thickness": th}
        return k, {"E1": rng.uniform(150, 300), "E2": rng.uniform(80, 150), "E3": rng.uniform(50, 120), "G23": rng.uniform(30, 60),
                   "G13": rng.uniform(30, 60), "G12": rng.uniform(30, 60), "v23": rng.uniform(0.1, 0.25), "v13": rng.uniform(0.1, 0.25),
                   "v12": rng.uniform(0.1, 0.25), "axis_1": ax1, "axis_2": ax2, "planeStress": ps, "thickness": th}

    types = list(E)
    reps = 1 if quick else 3
    for rep in range(reps):
        for et in types:
            dim = E[et]["dim"]
            big = E[et]["nPe"] > 10
            if quick and dim == 3 and E[et]["nPe"] > 10:
                continue    # quick tier: the large 3-D types run in the thorough tier
            A, b = affine(dim)
            c = {"kind": "gmsh", "elem": et, "dim": dim, "L": 2.0, "H": 1.0, "D": 1.0, "layers": 2,
                 "size": {1: 0.5, 2: 0.7 if big else 0.45, 3: 0.6}[dim], "A": A, "b": b,
                 "perm_seed": rng.randrange(10**6), "field_seed": rng.randrange(10**6)}
            # in-place motions of the mesh through the Mesh API before the patch test (boundary data are read
            # from mesh.coord AFTER the moves) and read-only queries before / after the solve
            if dim >= 2:
                import math
                def unit(d):
                    v = [rng.gauss(0, 1) for _ in range(d)] + [0.0] * (3 - d)
                    nv = math.sqrt(sum(x * x for x in v))
                    return [x / nv for x in v]
                def move():
                    k = rng.choice(["translate", "rotate", "mirror", "coord"])
                    if k == "translate":
                        return [k, [rng.uniform(-2, 2) for _ in range(dim)] + [0.0] * (3 - dim)]
                    if k == "rotate":
                        return [k, rng.uniform(10, 170), [0.0, 0.0, 1.0] if dim == 2 else unit(3)]
                    if k == "mirror":
                        return [k, unit(dim)]
                    B = [[(1.0 + rng.uniform(-.2, .2)) if i == j else (rng.uniform(-.25, .25) if max(i, j) < dim else 0.0) for j in range(3)] for i in range(3)]
                    for i in range(dim, 3):
                        B[i][i] = 1.0
                    return [k, B]
                c["moves"] = [move() for _ in range(rng.randint(1, 3))]
                if rng.random() < 0.6:
                    # scaled twin: change of length unit (nano / micro / kilo) through the coordinate setter
                    c["moves"].insert(rng.randrange(len(c["moves"]) + 1), ["scale", rng.choice([1e-9, 1e-6, 1e3])])
                if not any(m[0] == "mirror" for m in c["moves"]) and rng.random() < 0.5:
                    c["moves"].insert(rng.randrange(len(c["moves"]) + 1), ["mirror", unit(dim)])
                c["queries"] = True
                # half of the moved cases: the simulation exists, carries a Dirichlet condition and has been
                # solved BEFORE the moves; afterwards Bc_Init + callables of (x, y, z) on the SAME simulation
                c["sim_first"] = rng.random() < 0.5
                if c["sim_first"]:
                    c["queries"] = False      # (keeps the quick tier at its previous duration)
            c["bc_mode"] = rng.choice(["arrays", "perm-arrays", "perm-callables", "split", "callables"])
            if dim == 1:
                cases.append(dict(c, phys="thermal", params={"k": rng.uniform(0.5, 5), "c": 1.0}))
                continue
            lw, par = law(dim)
            cases.append(dict(c, phys="elastic", law=lw, params=par))
            if lw == "isotropic" and E[et]["nPe"] <= 10:
                # second solve on the same objects after a near-identity rotation (angle ~6e-5 deg), third with a new
                # simulation after a near-identity shear+stretch through mesh.coord
                cases[-1]["remap"] = [rng.uniform(3e-5, 9e-5), [0.0, 0.0, 1.0] if dim == 2 else [0.3, -0.5, 0.8]]
                # every coordinate O(1), away from the coordinate planes: the maps are RELATIVE changes of ~1e-6
                cases[-1]["b"] = [rng.uniform(3, 4) for _ in range(dim)]
                cases[-1]["moves"] = [m for m in cases[-1].get("moves", []) if m[0] == "rotate"][:1]
                cases[-1]["moves"] = []
                cases[-1]["sim_first"] = False
            if rep == 0 and (not quick or E[et]["order"] <= 2):
                cases.append(dict(c, phys="thermal", params={"k": rng.uniform(0.5, 5), "c": 1.0, "thickness": 0.8}, field_seed=rng.randrange(10**6)))
        A, b = affine(2)
        lw, par = law(2)
        cases.append({"kind": "mixed", "elem": "QUAD4+TRI3", "nx": 4, "ny": 3, "L": 2.0, "H": 1.0, "A": A, "b": b, "perm_seed": rng.randrange(10**6),
                      "field_seed": rng.randrange(10**6), "phys": "elastic", "law": lw, "params": par, "bc_mode": rng.choice(["perm-arrays", "perm-callables", "split"])})
    # mixed-group meshes x model options: thermal with thickness != 1 (elastic above has a random thickness)
    for _ in range(1 if quick else 3):
        A, b = affine(2)
        cases.append({"kind": "mixed", "elem": "QUAD4+TRI3", "nx": 4, "ny": 3, "L": 2.0, "H": 1.0, "A": A, "b": b, "perm_seed": rng.randrange(10**6),
                      "field_seed": rng.randrange(10**6), "phys": "thermal", "params": {"k": rng.uniform(0.5, 5), "c": 1.0, "thickness": round(rng.uniform(0.3, 0.8), 3)}})
    # embedded lower-dimensional elements (tilted plates, inclined rods) at unit, micro and nano scale
    import math
    def rot():
        a_, b_ = rng.uniform(0.3, 1.2), rng.uniform(0.3, 1.2)
        Rx = [[1, 0, 0], [0, math.cos(a_), -math.sin(a_)], [0, math.sin(a_), math.cos(a_)]]
        Rz = [[math.cos(b_), -math.sin(b_), 0], [math.sin(b_), math.cos(b_), 0], [0, 0, 1]]
        return {"R": [[sum(Rx[i][k] * Rz[k][j] for k in range(3)) for j in range(3)] for i in range(3)], "t": [rng.uniform(-1, 1) for _ in range(3)]}
    def cuts(n, L):
        cc = sorted(rng.uniform(0.15, 0.85) for _ in range(n - 1))
        return [0.0] + [round(L * (0.1 + 0.8 * x), 4) for x in cc] + [L]
    for et, (nx, ny) in (("QUAD4", (4, 3)), ("TRI3", (3, 3)), ("TRI6", (3, 2)), ("SEG2", (5, 0)), ("SEG3", (4, 0))):
        for sc in ([None, 1e-7, 1e-9] if quick else [None, 1e-6, 1e-7, 1e-8, 1e-9, 1e3]):
            for emb in (True, False):
                if not emb and sc is None:
                    continue
                cases.append({"kind": "grid", "elem": et, "xs": cuts(nx, 2.0), "ys": cuts(ny, 1.0) if ny else None, "zs": None,
                              "embed": rot() if emb else None, "scale": sc, "phys": "thermal", "field_seed": rng.randrange(10**6),
                              "params": {"k": rng.uniform(0.5, 5), "c": 1.0, "thickness": round(rng.uniform(0.3, 0.8), 3)}})
    # degenerate but legal patches: a single element / a single layer (EVERY node prescribed: no free dof) and
    # exactly one free node; elastic and thermal, components in permuted order
    iso = {"E": 210.0, "v": 0.3, "planeStress": True, "thickness": 0.6}
    for et, xs, ys, zs in (("QUAD4", [0, 1.3], [0, 0.8], None), ("TRI3", [0, 1.3], [0, 0.8], None), ("QUAD4", [0, 0.7, 1.9], [0, 0.9], None),
                           ("QUAD4", [0, 0.7, 1.9], [0, 0.4, 1.0], None), ("TRI6", [0, 1.3], [0, 0.8], None), ("HEXA8", [0, 1.3], [0, 0.8], [0, 0.5]),
                           ("HEXA8", [0, 0.6, 1.3], [0, 0.3, 0.8], [0, 0.2, 0.5]), ("SEG2", [0, 1.3], None, None), ("SEG3", [0, 1.3], None, None)):
        g = {"kind": "grid", "elem": et, "xs": xs, "ys": ys, "zs": zs, "embed": None, "scale": None, "degenerate": True}
        cases.append(dict(g, phys="thermal", field_seed=rng.randrange(10**6), bc_mode=rng.choice(["arrays", "callables"]),
                          params={"k": rng.uniform(0.5, 5), "c": 1.0, "thickness": 0.7}))
        if ys is not None:
            cases.append(dict(g, phys="elastic", law="isotropic", params=iso, field_seed=rng.randrange(10**6),
                              bc_mode=rng.choice(["arrays", "perm-arrays", "perm-callables", "split"])))
    # index arithmetic of the assembly: more than 46341 dofs (46341^2 > 2^31), assembled operator examined
    # without a solve (residual of the linear field at interior dofs, energy)
    A, b = affine(2)
    cases.append({"kind": "gmsh", "elem": "TRI3", "dim": 2, "L": 2.0, "H": 1.0, "size": 0.0068, "A": A, "b": b, "large": True, "assemble_only": True,
                  "perm_seed": rng.randrange(10**6), "field_seed": rng.randrange(10**6), "phys": "thermal", "params": {"k": 2.0, "c": 1.0, "thickness": 0.6}})
    A, b = affine(2)
    cases.append({"kind": "gmsh", "elem": "TRI3", "dim": 2, "L": 2.0, "H": 1.0, "size": 0.0098, "A": A, "b": b, "large": True, "assemble_only": True,
                  "perm_seed": rng.randrange(10**6), "field_seed": rng.randrange(10**6), "phys": "elastic", "law": "isotropic",
                  "params": {"E": 210.0, "v": 0.3, "planeStress": True, "thickness": 0.6}})
    # LARGE meshes: "to round-off for every mesh" — the size is part of the quantifier (solver paths
    # may depend on the number of unknowns).  2-D: > 25000 unknowns of the reduced system each.
    A, b = affine(2)
    cases.append({"kind": "gmsh", "elem": "TRI3", "dim": 2, "L": 2.0, "H": 1.0, "size": 0.0125, "A": A, "b": b, "large": True,
                  "perm_seed": rng.randrange(10**6), "field_seed": rng.randrange(10**6), "phys": "elastic", "law": "isotropic",
                  "params": {"E": rng.uniform(1, 300), "v": rng.uniform(0.0, 0.4), "planeStress": rng.random() < 0.5, "thickness": 1.0}})
    A, b = affine(2)
    cases.append({"kind": "gmsh", "elem": "TRI3", "dim": 2, "L": 2.0, "H": 1.0, "size": 0.009, "A": A, "b": b, "large": True,
                  "perm_seed": rng.randrange(10**6), "field_seed": rng.randrange(10**6), "phys": "thermal", "params": {"k": rng.uniform(0.5, 5), "c": 1.0}})
    if not quick:
        A, b = affine(2)
        cases.append({"kind": "gmsh", "elem": "QUAD4", "dim": 2, "L": 2.0, "H": 1.0, "size": 0.008, "A": A, "b": b, "large": True,
                      "perm_seed": rng.randrange(10**6), "field_seed": rng.randrange(10**6), "phys": "elastic", "law": "isotropic",
                      "params": {"E": 210.0, "v": 0.3, "planeStress": True, "thickness": 0.5}})
        # 3-D, > 50000 unknowns
        A, b = affine(3)
        cases.append({"kind": "gmsh", "elem": "TETRA4", "dim": 3, "L": 2.0, "H": 1.0, "D": 1.0, "layers": 20, "size": 0.049, "A": A, "b": b, "large": True,
                      "perm_seed": rng.randrange(10**6), "field_seed": rng.randrange(10**6), "phys": "elastic", "law": "isotropic",
                      "params": {"E": 210.0, "v": 0.3}})
        A, b = affine(3)
        cases.append({"kind": "gmsh", "elem": "TETRA4", "dim": 3, "L": 2.0, "H": 1.0, "D": 1.0, "layers": 29, "size": 0.0348, "A": A, "b": b, "large": True,
                      "perm_seed": rng.randrange(10**6), "field_seed": rng.randrange(10**6), "phys": "thermal", "params": {"k": 2.0, "c": 1.0}})
    sg = lambda a, b: rng.uniform(a, b) * rng.choice([-1, 1])
    for et in ("SEG2", "SEG3", "SEG4", "SEG5"):
        for bd in (1, 2, 3):
            for timo in (False, True):
                base = {"kind": "beam", "elem": et, "beamDim": bd, "timo": timo, "n": rng.randint(2, 5), "b": 0.3, "h": 0.5,
                        "E": rng.uniform(100, 300), "v": 0.3, "axial": sg(5e-4, 2e-3), "curv": sg(5e-4, 3e-3),
                        "curv_y": sg(5e-4, 3e-3), "twist": sg(5e-4, 3e-3)}
                cases.append(dict(base, L=rng.uniform(5, 15), orient="x-axis"))
                if et in ("SEG2", "SEG3") or not quick:
                    sb = rng.choice([1e-9, 1e-6])       # (x1000 beams: see C02, blocked by an absolute tolerance in _Beam.section)
                    cases.append(dict(base, L=rng.uniform(5, 15), orient="x-axis:x%g" % sb, scale=sb))
                if bd >= 2:
                    # inclined in the plane / in space; for dim 3 also a user yAxis not perpendicular to the fibre
                    p1 = [rng.uniform(-1, 1), rng.uniform(-1, 1), rng.uniform(-1, 1) if bd == 3 else 0.0]
                    d = [rng.uniform(3, 7), sg(2, 6), sg(2, 6) if bd == 3 else 0.0]
                    c = dict(base, p1=p1, p2=[a + b for a, b in zip(p1, d)], orient="inclined")
                    if bd == 3 and rng.random() < 0.5:
                        c["yAxis"] = [rng.uniform(-1, 1), rng.uniform(0.5, 1.5), rng.uniform(-1, 1)]
                        c["orient"] = "inclined-user-yAxis"
                    if rng.random() < 0.5:
                        c["scale"] = rng.choice([1e-9, 1e-6])
                        c["orient"] += ":x%g" % c["scale"]
                    cases.append(c)
    return cases


def run(ctx):
    ctx.assumptions += [
        "theorems are over exact reals, for every evaluation point and all node coordinates (also curved/distorted elements): interpolation and (where det F != 0) the physical gradient of a linear field are exact; the Kelvin-Mandel strain of a linear displacement is the constant symmetric gradient",
        "patch_equilibrium_partial: the assembled residual of the linear field vanishes at a dof whose integrated B column vanishes (discrete divergence theorem on a conforming mesh) — that hypothesis is NOT formalised; it is evaluated numerically (K u_lin at interior dofs) on every generated mesh",
        "the closed-form inverse is regenerated from _linalg.Inv (translator/C12_linalg.py) and proved to be an inverse by field; B layout transcribed from Get_B_e_pg (checked against the running code by C02's correspondence)",
        "sparse direct solve, numpy/scipy and gmsh are trusted; comparisons at 1e-9 relative on well-conditioned generated instances (affine maps with cond < 4)",
    ]
    ok_static, log = ctx.ensure_static()
    if not ok_static:
        ctx.obligation("static-lib", False, log[-1500:])
        ctx.violation("static-lib-build", "coq/lib or coq/model does not build", {"log": log[-3000:]}, found_input=False)
        return
    try:
        E = T_elems.read_elems(ctx.repo)
        from translator import C12_linalg as T_lin
        _, tree = T_lin._src(ctx.repo)
        lin_txt = ("(* GENERATED from EasyFEA/FEM/_linalg.py (Det, Inv closed forms) by translator/C12_linalg.py *)\n"
                   "From Coq Require Import List Arith ZArith QArith Reals.\nImport ListNotations.\nLocal Open Scope nat_scope.\n" + T_lin.emit_det_inv(T_lin.translate_det_inv(tree)))
    except (TranslateError, SyntaxError, OSError, KeyError) as ex:
        ctx.obligation("translate", False, str(ex))
        ctx.violation("translate", "translator rejected the source: %s" % ex, {"construct": str(ex)}, found_input=False)
        return
    open(os.path.join(ctx.build, "Gen_Elems.v"), "w").write(T_elems.emit_coq(E))
    open(os.path.join(ctx.build, "Gen_LinalgR.v"), "w").write(lin_txt)
    ctx.copy_props("C01/C01_tables.v", "C01/C01_patch.v")
    r0 = ctx.coq(["Gen_Elems.v", "Gen_LinalgR.v"], timeout=300, count=False)
    if not r0.ok:
        ctx.obligation("generated files compile", False, r0.log[-1500:])
        ctx.violation("gen-compile", "generated Coq tables do not compile", {"log": r0.log[-3000:]}, found_input=False)
        return
    # rule_exact_for_patch (needs the dumped quadrature rules): compiled in a thread, concurrently with the
    # algebra files and the correspondence run
    import threading
    from translator import gauss as T_gauss
    rule_res = {}

    def chain_rule():
        rcg, outg, errg = ctx.impl_python(os.path.join(common.VERIF, "corr", "impl_gauss.py"), timeout=300)
        if rcg != 0:
            rule_res["dump_error"] = errg[-1500:]
            rule_ready.set()
            return
        open(os.path.join(ctx.build, "Gen_Gauss.v"), "w").write(T_gauss.emit_coq(json.loads(outg)))
        ctx.copy_props("C01/C01_rule.v", "C01/C01_rule_report.v")
        g = ctx.coq(["Gen_Gauss.v"], timeout=300, count=False)
        if not g.ok:
            rule_res["dump_error"] = g.log[-1500:]
            rule_ready.set()
            return
        rule_res["rule"] = ctx.coq(["C01_rule.v"], timeout=600)
        rule_ready.set()
        if rule_res["rule"].ok:
            geo = ["SEG2", "TRI3", "QUAD4", "TETRA4"] + (["PRISM6", "HEXA8"] if ctx.tier == "thorough" else [])
            geo = [n for n in geo if n in E]
            vertex_of = {"SEG": "SEG2", "TRI": "TRI3", "QUAD": "QUAD4", "TETRA": "TETRA4", "HEXA": "HEXA8", "PRISM": "PRISM6"}
            ho_all = [(n, vertex_of[n.rstrip("0123456789")]) for n in E if n.rstrip("0123456789") in vertex_of and n != vertex_of[n.rstrip("0123456789")] and vertex_of[n.rstrip("0123456789")] in E]
            # HEXA20 / HEXA27 with 24 free vertex coordinates did not finish in 10 minutes: not run
            ho = [t for t in ho_all if t[0] not in ("HEXA20", "HEXA27")] if ctx.tier == "thorough" else [t for t in ho_all if t[0] in ("SEG3", "TRI6", "QUAD8", "QUAD9", "TETRA10")]
            open(os.path.join(ctx.build, "Gen_RulePlan.v"), "w").write(
                "From Coq Require Import List String.\nImport ListNotations. Open Scope string_scope.\nDefinition geo_types : list string := [%s].\n" % "; ".join('"%s"' % n for n in geo)
                + "Definition geo_ho_types : list (string * string) := [%s].\n" % "; ".join('("%s", "%s")' % t for t in ho))
            ctx.copy_props("C01/C01_rule_geo.v", "C01/C01_rule_geo_ho.v")
            ctx.coq(["Gen_RulePlan.v"], timeout=60, count=False)
            rule_res["geo"] = ctx.coq(["C01_rule_geo.v"], timeout=1200)
            rule_res["geo_types"] = geo
            if rule_res["geo"].ok:
                rule_res["geo_ho"] = ctx.coq(["C01_rule_geo_ho.v"], timeout=2400)
                rule_res["geo_ho_types"] = ["%s (vertices %s)" % t for t in ho]
        if rule_res["rule"].ok:
            br = [n for n in (list(E) if ctx.tier == "thorough" else ["SEG2", "SEG3", "TRI3", "TRI6", "QUAD4", "QUAD8", "TETRA4"]) if n in E]
            open(os.path.join(ctx.build, "Gen_BridgePlan.v"), "w").write(
                "From Coq Require Import List String.\nImport ListNotations. Open Scope string_scope.\nDefinition bridge_types : list string := [%s].\n" % "; ".join('"%s"' % n for n in br))
            ctx.copy_props("C01/C01_rule_bridge.v")
            ctx.coq(["Gen_BridgePlan.v"], timeout=60, count=False)
            rule_res["bridge"] = ctx.coq(["C01_rule_bridge.v"], timeout=1800)
            rule_res["bridge_types"] = br
        if rule_res["rule"].ok and ctx.tier == "thorough":
            rule_res["report"] = ctx.coq(["C01_rule_report.v"], timeout=900, count=False)
            if rule_res["report"].ok:
                rule_res["printed"] = ctx.coq_eval("C01_rule_print.v", "From Coq Require Import String List.\nFrom EFP Require Import C01_rule_report.\nOpen Scope string_scope.\n"
                                                   "Eval vm_compute in (\"outside_doc\", rule_report_outside_documented_order).\nEval vm_compute in (\"stiffness_not_exact\", rule_report_stiffness_not_exact).\n", timeout=300)[1]
        elif not rule_res["rule"].ok:
            rule_res["diag"] = ctx.coq_eval("C01_rule_diag.v", open(os.path.join(ctx.build, "C01_rule.v")).read().split("Lemma all_dN_rule_exact")[0]
                                            + "\nEval vm_compute in map (fun e => (ename e, dN_rule_exact e)) all_elems.\n", timeout=600)[1]
    rule_ready = threading.Event()

    def chain_hermite():
        # needs C01_rule.vo (polynomial expansion); started once the algebra files are compiled (<= 3 processes)
        rule_ready.wait(timeout=1200)
        if "rule" in rule_res and rule_res["rule"].ok:
            try:
                from translator import hermite as T_herm
                open(os.path.join(ctx.build, "Gen_Hermite.v"), "w").write(T_herm.emit_coq(T_herm.read_hermite(ctx.repo, E)))
                ctx.copy_props("C01/C01_hermite.v")
                gh = ctx.coq(["Gen_Hermite.v"], timeout=300, count=False)
                rule_res["hermite"] = ctx.coq(["C01_hermite.v"], timeout=600) if gh.ok else gh
            except (TranslateError, SyntaxError, OSError, KeyError) as ex:
                rule_res["hermite_error"] = str(ex)
    th_herm = threading.Thread(target=chain_hermite)
    th_rule = threading.Thread(target=chain_rule)
    th_rule.start()
    cases = gen_cases(ctx, E)
    # two harness processes: the large cases start NOW (alongside the Coq compilations), the others after them
    order = sorted(range(len(cases)), key=lambda i: (1 if cases[i].get("large") else 0))
    half_a = [i for i in order if not cases[i].get("large")]
    half_b = [i for i in order if i not in set(half_a)]
    outs = {}

    def run_half(tag, idx):
        outs[tag] = ctx.impl_python(os.path.join(common.VERIF, "corr", "C01_impl.py"), input=json.dumps({"cases": [cases[i] for i in idx]}), timeout=2400)
        ctx.log("harness process %s done (%d cases)" % (tag, len(idx)))
    tb = threading.Thread(target=run_half, args=("b", half_b))
    tb.start()
    r1 = ctx.coq(["C01_tables.v"], timeout=300)
    r2 = ctx.coq(["C01_patch.v"], timeout=300)
    if not r1.ok:
        found = search_tables(E)
        for key, what, rep in found:
            ctx.violation(key, what, rep, True)
        if not found:
            ctx.violation("proof-broken:C01_tables.v", "C01_tables.v no longer checks against the regenerated tables (Inv closed form or element tables); the exact table search found no failing element: " + (r1.log.strip().splitlines() or ["?"])[-1][:200],
                          {"obligation": "C01_tables.v", "log": r1.log[-3000:]}, found_input=False)
    if not r2.ok:
        ctx.violation("proof-broken:C01_patch.v", "C01_patch.v no longer checks", {"obligation": "C01_patch.v", "log": r2.log[-3000:]}, found_input=False)
    # ---------------- correspondence ----------------
    ctx.log("algebra files done; starting the second harness process")
    th_herm.start()
    run_half("a", half_a)
    tb.join()
    results = [None] * len(cases)
    for tag, idx in (("a", half_a), ("b", half_b)):
        rc, out, err = outs[tag]
        if rc != 0 or "@@JSON@@" not in out:
            ctx.obligation("impl-run", False, err[-1500:])
            ctx.violation("impl-run", "the implementation-side harness failed: " + (err.strip().splitlines() or ["?"])[-1][:200], {"stderr": err[-3000:]}, found_input=False)
            return
        for i, r in zip(idx, json.loads(out.split("@@JSON@@")[1])["results"]):
            results[i] = r
    dist, margins, sizes = {}, [], []
    nmoves, nqueries, qerrors = 0, 0, set()
    for c, r in zip(cases, results):
        n = c["elem"]
        kind = c["kind"]
        if kind == "grid" and c.get("degenerate"):
            c = dict(c, law="degenerate:%dx%dx%d" % (len(c["xs"]) - 1, len(c["ys"] or [0]) - 1 if c["ys"] else 0, len(c["zs"] or [0]) - 1 if c["zs"] else 0))
        elif kind == "grid":
            c = dict(c, law="%s%s" % ("embedded" if c.get("embed") else "flat", "" if c.get("scale") is None else ":x%g" % c["scale"]))
        tag = "%s:%s:%s" % (kind, c.get("phys", "beam"), n) + (":dim%d:%s:%s" % (c["beamDim"], "timoshenko" if c["timo"] else "euler-bernoulli", c["orient"]) if kind == "beam" else ":" + c.get("law", ""))
        dist[tag.split(":")[0] + ":" + tag.split(":")[1]] = dist.get(tag.split(":")[0] + ":" + tag.split(":")[1], 0) + 1
        rep = {"replay_py": REPLAY % dict(case=json.dumps(c)), "case": c}
        if "error" in r:
            ctx.note_case(None)
            ctx.obligation("patch test runs (%s)" % tag, False, r["error"])
            ctx.violation("raises:" + tag, "%s: the patch test raises %s" % (tag, r["error"]), dict(rep, trace=r.get("trace")), True)
            continue
        if c.get("large"):
            tag += ":large"
            nunk = r["n_interior"] * (r["dim"] if c["phys"] == "elastic" else 1)
            sizes.append(nunk)
            need = 25000 if r["dim"] == 2 else 50000
            if c.get("assemble_only"):
                tag += ":assemble-only"
                nunk, need = r["Nn"] * (r["dim"] if c["phys"] == "elastic" else 1), 46341
            ctx.obligation("large mesh reaches the intended size (%s)" % tag, nunk > need, "%d unknowns" % nunk)
            if nunk <= need:
                ctx.violation("large-mesh-size:" + tag, "generated large mesh has only %d unknowns (> %d intended): the size part of the quantifier is not exercised" % (nunk, need), {"case": c}, found_input=False)
        ctx.note_case(tag if (r.get("n_interior", 0) > 0 or c.get("degenerate")) else None)
        if kind == "beam":
            worst = max(r["err_rel"].values())
            wpost = max(list(r["post"].values()) + [0.0])
            margins.append(max(worst, wpost))
            ok = worst <= TOL and wpost <= TOL
            ctx.obligation("beam: constant axial strain, curvatures (both planes) and twist reproduced, reported constants exact (%s)" % tag, ok, "nodes %.2e, results %.2e" % (worst, wpost))
            if not ok:
                ctx.violation("patch:" + tag, "%s: constant axial strain / curvature / twist field not reproduced: nodal errors %s (scale %.3g); relative errors of the reported constants %s" % (
                    tag, {k: "%.2e" % v for k, v in r["err"].items()}, r["scale"], {k: "%.2e" % v for k, v in r["post"].items() if v > TOL}), rep, True)
            continue
        checks = [("interior nodes", r["err_u_interior"] / r["scale_u"])]
        if "err_u_all" in r:
            checks.append(("all nodes (prescribed ones included)", r["err_u_all"] / r["scale_u"]))
        pre = r.get("pre") or {}
        if "first_solve_err" in pre:
            checks.append(("solve before the in-place moves", pre["first_solve_err"]))
        size = 1.0      # group_spread is relative to the coordinate magnitude
        for mvname, sp in pre.get("moves_log", []):
            okg = sp <= 1e-12 * size
            nmoves += 1
            if not okg:
                ctx.obligation("all groups share the coordinates after Mesh.%s (%s)" % (mvname, tag), False, "%.3e" % sp)
                ctx.violation("group-coords-diverge:%s:%s" % (mvname, n), "%s: after the in-place move '%s' (sequence %s) the element groups of the mesh no longer share the same node coordinates: max |group.coord - mesh.coord[group.nodes]| = %.3e" % (
                    tag, mvname, [m[0] for m in c.get("moves", [])], sp), rep, True)
        for lg in ("queries_log", "queries_log_after_solve"):
            for qname, ch, qerr in pre.get(lg, []):
                nqueries += 1
                if qerr:
                    qerrors.add("%s: %s" % (qname, qerr[:80]))
                if ch != 0.0:
                    ctx.obligation("read-only query leaves the coordinates bit-identical: %s (%s)" % (qname, tag), False, "%.3e" % ch)
                    ctx.violation("readonly-mutates:" + re.sub(r"\W+", "_", qname), "%s: the read-only call %s changed the node coordinates of the mesh / of a group by up to %.3e" % (tag, qname, ch), rep, True)
        if "requery_err_u" in r:
            checks += [("after read-only queries: nodes", r["requery_err_u"] / r["scale_u"]), ("after read-only queries: strain", r["requery_err_strain"] / r["scale_strain"]),
                       ("after read-only queries: Wdef", abs(r["requery_Wdef"] - r["Wdef_exact"]) / abs(r["Wdef_exact"])),
                       ("after read-only queries: mesh.coord changed", r["requery_coord_change"])]
        # the hypothesis of patch_equilibrium_partial, evaluated on this mesh
        checks.append(("residual K u_lin at interior dofs", r["residual_interior"] / r["residual_scale"]))
        if "energy" in r:
            checks.append(("u'Ku of the linear field vs thickness*measure*density", abs(r["energy"] - r["energy_exact"]) / abs(r["energy_exact"])))
        if kind == "grid" and c.get("embed") and r.get("inDim") != 3:
            checks.append(("embedded mesh must have inDim 3", float("inf")))
        if c["phys"] == "elastic" and not r.get("assemble_only"):
            checks += [("strain components", r["err_strain_comp"] / r["scale_strain"]), ("stress components", r["err_stress_comp"] / r["scale_stress"]),
                       ("Result('Strain')", r["err_Strain_plain"] / r["scale_strain"] if r["err_Strain_plain"] is not None else float("inf")),
                       ("Result('Stress')", r["err_Stress_plain"] / r["scale_stress"] if r["err_Stress_plain"] is not None else float("inf")),
                       ("Wdef", abs(r["Wdef"] - r["Wdef_exact"]) / abs(r["Wdef_exact"]))]
            if "remap_err_u" in r:
                checks += [("after near-identity rotation: nodes", r["remap_err_u"] / r["scale_u"]), ("after near-identity rotation: strain", r["remap_err_strain"] / r["scale_strain"]),
                           ("after near-identity rotation: stress", r["remap_err_stress"] / r["scale_stress"]),
                           ("after near-identity rotation: Wdef", abs(r["remap_Wdef"] - r["Wdef_exact"]) / abs(r["Wdef_exact"])),
                           ("after near-identity affine map, new simulation: Wdef", abs(r["remap_Wdef_new"] - r["remap_Wdef_new_exact"]) / abs(r["remap_Wdef_new_exact"])),
                           ("after near-identity affine map: mesh measure", r["remap_measure_err"])]
        # conditioning-aware tolerance: gradients are differences of coordinates, so the relative accuracy any
        # double-precision computation can reach degrades with |x|max / (size of the part)
        tol_c = TOL * max(1.0, r.get("coord_conditioning", 1.0))
        bad = [(nm, v) for nm, v in checks if not (v <= tol_c)]
        margins.append(max(v for _, v in checks))
        ctx.obligation("patch test (%s)" % tag, not bad, "; ".join("%s %.2e" % x for x in checks))
        if bad:
            ctx.violation("patch:" + tag, "%s (%d nodes, %d interior): linear field not reproduced — %s (relative, tolerance 1e-9)" % (
                tag, r["Nn"], r["n_interior"], "; ".join("%s %.3e" % x for x in bad) + " [tolerance 1e-9 x coordinate conditioning %.1f]" % max(1.0, r.get("coord_conditioning", 1.0))), rep, True)
    th_rule.join()
    th_herm.join()
    ctx.log("rule / hermite chains done")
    if "dump_error" in rule_res:
        ctx.obligation("C01_rule.v inputs", False, rule_res["dump_error"])
        ctx.violation("rule-dump", "cannot obtain / compile the quadrature tables needed by C01_rule.v", {"log": rule_res["dump_error"]}, found_input=False)
    elif not rule_res["rule"].ok:
        txt = re.sub(r"\s+", " ", rule_res.get("diag", ""))
        bad = re.findall(r'\("([A-Z0-9]+)", false\)', txt)
        ctx.violation("rule-inexact:" + ",".join(bad) if bad else "proof-broken:C01_rule.v",
                      "C01_rule.v no longer checks: the rule selected for stiffness integrals does not integrate every monomial of the _dN table exactly%s — on affine meshes the quadrature of int dN differs from the exact integral and the patch test cannot hold to round-off" % (
                          " for " + ", ".join(bad) if bad else ""), {"obligation": "C01_rule.v", "elements": bad, "log": rule_res["rule"].log[-2000:]}, found_input=False)
    if "geo" in rule_res:
        ctx.cov["rule_exact_for_all_vertex_positions"] = rule_res["geo_types"]
        if not rule_res["geo"].ok:
            ctx.violation("proof-broken:C01_rule_geo.v", "C01_rule_geo.v no longer checks: for some vertex-only element type the rule selected for stiffness integrals does not integrate every xi-monomial of (adj F grad N_i)_k exactly, so int_e dN_i/dx is not exact on non-affine straight-sided elements: " + ((rule_res["geo"].log.strip().splitlines() or ["?"])[-1][:200]),
                          {"obligation": "C01_rule_geo.v", "log": rule_res["geo"].log[-2500:]}, found_input=False)
    if "bridge" in rule_res:
        ctx.cov["code_quadrature_of_dN_proved_exact_for"] = rule_res["bridge_types"]
        if not rule_res["bridge"].ok:
            ctx.violation("proof-broken:C01_rule_bridge.v", "C01_rule_bridge.v no longer checks: the code's quadrature sum_p w_p*dN(xi_p) of some table entry is not the exact reference integral within 1e-14*sum|c_k|: " + ((rule_res["bridge"].log.strip().splitlines() or ["?"])[-1][:200]),
                          {"obligation": "C01_rule_bridge.v", "log": rule_res["bridge"].log[-2500:]}, found_input=False)
    if "geo_ho" in rule_res:
        ctx.cov["rule_exact_for_straight_sided_high_order"] = rule_res["geo_ho_types"]
        if not rule_res["geo_ho"].ok:
            ctx.violation("proof-broken:C01_rule_geo_ho.v", "C01_rule_geo_ho.v no longer checks: for some straight-sided higher-order element the rule selected for stiffness integrals does not integrate every xi-monomial of (adj F grad N_i)_k exactly: " + ((rule_res["geo_ho"].log.strip().splitlines() or ["?"])[-1][:200]),
                          {"obligation": "C01_rule_geo_ho.v", "log": rule_res["geo_ho"].log[-2500:]}, found_input=False)
    if "hermite_error" in rule_res:
        ctx.violation("translate-hermite", "translator rejected the Hermite tables: " + rule_res["hermite_error"], {"construct": rule_res["hermite_error"]}, found_input=False)
    elif "hermite" in rule_res and not rule_res["hermite"].ok:
        ctx.violation("proof-broken:C01_hermite.v", "C01_hermite.v no longer checks: the Hermitian tables do not reproduce every polynomial deflection of degree <= 2n-1 (or its curvature) within 1e-12 — a constant-curvature / cubic beam field is not in the discrete space: " + ((rule_res["hermite"].log.strip().splitlines() or ["?"])[-1][:200]),
                      {"obligation": "C01_hermite.v", "log": rule_res["hermite"].log[-2500:]}, found_input=False)
    if "printed" in rule_res:
        t = re.sub(r"\s+", " ", rule_res["printed"])
        ctx.cov["rule_report"] = {"dN_monomials_outside_the_documented_order_of_the_rigi_rule": re.findall(r'"([A-Z0-9]+)"', t.split("stiffness_not_exact")[0].split("outside_doc")[-1]),
                                  "stiffness_integrand_not_exact_on_affine_elements": re.findall(r'"([A-Z0-9]+)"', t.split('"stiffness_not_exact"')[-1])}
    ctx.cov["case_kinds"] = dist
    ctx.cov["unknowns_of_large_cases"] = sizes
    ctx.cov["in_place_moves_checked"] = nmoves
    ctx.cov["read_only_queries_checked_bit_identical"] = nqueries
    ctx.cov["query_calls_that_raised (not C01's predicate)"] = sorted(qerrors)[:12]
    ctx.cov["worst_relative_error"] = max(margins) if margins else None
    ctx.cov["margin_used_above_1e-12"] = sum(1 for m in margins if 1e-12 < m <= TOL)
    ctx.cov["element_types"] = sorted(set(c["elem"] for c in cases))
    ctx.sample({"case": {k: v for k, v in cases[0].items() if k != "params"}, "result": {k: results[0].get(k) for k in ("Nn", "n_interior", "err_u_interior", "scale_u", "Wdef", "Wdef_exact")}})
