"""C18 — hyperelastic stress, tangents and discrete energy balance are consistent (partial).

1. translate _laws.py / _state.py / GonzalezStressTensor / the midpoint branch of _simu.py
   (ast, fail-closed) -> Gen_HyperLaws.v, Gen_Law_<law>.v, Gen_HyperInv.v, Gen_HyperRef.v,
   Gen_Gonzalez.v
2. compile them with the static files coq/props/C18/*.v  (theorems over R)
3. correspondence: real law objects on random deformation states vs the translated formulas
   evaluated with 60-digit decimals; operator (K_e, R_e) pairs vs central differences
   (sampled); short free vibrations with the energy-conserving stresses (sampled)
4. if something broke: search a state where tabulated and true derivative differ on the model,
   replay on the real law object against a central difference.
"""
import json
import os
import decimal
from concurrent.futures import ThreadPoolExecutor
from fractions import Fraction as F

from translator import hyper as H
from translator.pyexpr import TranslateError
from vlib import common

D = decimal.Decimal
TOL = 1e-9          # implementation (float64) vs 60-digit model, relative to the largest entry
FD_TOL = 1e-6       # operator tangent vs central difference of the residual (sampled)
DRIFT_TOL = 1e-8    # relative energy drift, energy-conserving options, Newton absTol 1e-9


# ----------------------------------------------------------------------------------------
# model evaluation (translated trees, decimal arithmetic)
# ----------------------------------------------------------------------------------------
class Model:
    def __init__(self, M, prec=60):
        self.M = M
        self.num = H.DecNum(prec)
        self.r2 = D(2).sqrt()

    def inv_recs(self, L):
        S = self.M["state"]
        ks = set(L["invs"]) | set(k for (k, a) in L["dW"]) | set(L["d2W1"]) | set(k for p in L["d2W2"] for (k, a) in p)
        return {k: H.state_invariant(S, k, L["invs"].get(k, H._default_args(k))) for k in H.INV if k in ks}

    def cenv(self, Cm, A, B):
        e = {"cxx": Cm[0][0], "cyy": Cm[1][1], "czz": Cm[2][2], "cyz": Cm[1][2], "cxz": Cm[0][2], "cxy": Cm[0][1], "r2": self.r2}
        for nm, v in (("A", A), ("B", B)):
            for i, ax in enumerate("xyz"):
                e[nm + ax] = v[i]
        return e

    def invariants(self, L, Cm, A, B):
        e = self.cenv(Cm, A, B)
        return {k: H.ev(r["I"], e, self.num) for k, r in self.inv_recs(L).items()}

    def W(self, L, params, Cm, A, B):
        I = self.invariants(L, Cm, A, B)
        env = dict(params)
        for k in H.INV:
            env["I%d" % k] = I.get(k, D(0))
        return H.ev(L["W"], env, self.num)

    def tables(self, L, params, Cm, A, B):
        """(W, dW[6], d2W[6][6]) assembled exactly as the code assembles them."""
        e = self.cenv(Cm, A, B)
        recs = self.inv_recs(L)
        I = {k: H.ev(r["I"], e, self.num) for k, r in recs.items()}
        env = dict(params)
        for k in H.INV:
            env["I%d" % k] = I.get(k, D(0))
        W = H.ev(L["W"], env, self.num)
        g = {k: [H.ev(t, e, self.num) for t in r["d1"]] for k, r in recs.items()}
        h = {k: [[H.ev(t, e, self.num) for t in row] for row in r["d2"]] for k, r in recs.items()}
        dW = [D(0)] * 6
        for (k, a), c in L["dW"].items():
            gk = self._dir_table(L, k, a, e, g)
            cv = H.ev(c, env, self.num)
            dW = [x + cv * y for x, y in zip(dW, gk)]
        d2W = [[D(0)] * 6 for _ in range(6)]
        for k, c in L["d2W1"].items():
            cv = H.ev(c, env, self.num)
            for m in range(6):
                for n in range(6):
                    d2W[m][n] += cv * h[k][m][n]
        for ((j, aj), (k, ak)), c in L["d2W2"].items():
            cv = H.ev(c, env, self.num)
            gj, gk = self._dir_table(L, j, aj, e, g), self._dir_table(L, k, ak, e, g)
            for m in range(6):
                for n in range(6):
                    d2W[m][n] += cv * gj[m] * gk[n]
        return W, dW, d2W

    def _dir_table(self, L, k, a, e, g):
        if L["invs"].get(k, H._default_args(k)) == a:
            return g[k]
        rec = H.state_invariant(self.M["state"], k, a)
        return [H.ev(t, e, self.num) for t in rec["d1"]]

    # Kelvin-Mandel coordinates <-> C
    def C_of_km(self, v):
        s = self.r2
        return [[v[0], v[5] / s, v[4] / s], [v[5] / s, v[1], v[3] / s], [v[4] / s, v[3] / s, v[2]]]

    def km_of_C(self, Cm):
        s = self.r2
        return [Cm[0][0], Cm[1][1], Cm[2][2], s * Cm[1][2], s * Cm[0][2], s * Cm[0][1]]

    def true_derivs(self, L, params, Cm, A, B, second=True, h=D("1e-14")):
        """central differences of the MODEL energy w.r.t. the Kelvin-Mandel coordinates of
           E = (C - I)/2 (60 digits: truncation error ~1e-28 h^2-scaled)."""
        v0 = self.km_of_C(Cm)

        def Wv(v):
            return self.W(L, params, self.C_of_km(v), A, B)

        def grad(v):
            out = []
            for k in range(6):
                vp, vm = list(v), list(v)
                vp[k] += 2 * h       # dE = h  <=>  dC = 2 h
                vm[k] -= 2 * h
                out.append((Wv(vp) - Wv(vm)) / (2 * h))
            return out
        g = grad(v0)
        Hs = None
        if second:
            Hs = []
            h2 = D("1e-9")
            for k in range(6):
                vp, vm = list(v0), list(v0)
                vp[k] += 2 * h2
                vm[k] -= 2 * h2
                gp, gm = grad(vp), grad(vm)
                Hs.append([(a - b) / (2 * h2) for a, b in zip(gp, gm)])
            Hs = [[Hs[k][m] for k in range(6)] for m in range(6)]
        return g, Hs


# ----------------------------------------------------------------------------------------
# replays (self-contained, run on the real objects)
# ----------------------------------------------------------------------------------------
REPLAY_LAW = r'''
import sys, numpy as np
from EasyFEA import Models
from EasyFEA.FEM._group_elem import GroupElemFactory
from EasyFEA.FEM._utils import ElemType
from EasyFEA.Models.HyperElastic._state import HyperElasticState
law, params, dim, mode = %(law)r, %(params)r, %(dim)d, %(mode)r
Ckm = np.array(%(Ckm)r, dtype=float)          # Kelvin-Mandel components of C at the state
T1, T2 = %(T1)r, %(T2)r
s = np.sqrt(2)
def C_of(v):
    return np.array([[v[0], v[5]/s, v[4]/s], [v[5]/s, v[1], v[3]/s], [v[4]/s, v[3]/s, v[2]]])
def state(v):
    w, Q = np.linalg.eigh(C_of(v))
    U = Q @ np.diag(np.sqrt(w)) @ Q.T            # F = U symmetric, C = U^2
    et = ElemType.TETRA4 if dim == 3 else ElemType.TRI3
    X = np.zeros((4 if dim == 3 else 3, 3)); X[1, 0] = 1; X[2, 1] = 1
    if dim == 3: X[3, 2] = 1
    g = GroupElemFactory.Create(et, np.arange(len(X)).reshape(1, -1), X)
    u = (X[:, :dim] @ (U - np.eye(3))[:dim, :dim].T).ravel()
    return HyperElasticState(g, u, "rigi")
H = Models.HyperElastic
if law == "HolzapfelOgden":
    p = dict(params); ks = p.pop("ks")
    mat = H.HolzapfelOgden(dim, **p, T1=np.array(T1, float), T2=np.array(T2, float), ks=ks)
else:
    mat = getattr(H, law)(dim, **params)
idx = [0, 1, 2, 3, 4, 5] if dim == 3 else [0, 1, 5]
hh = 1e-5
def W(v): return float(np.asarray(mat.Compute_W(state(v)))[0, 0])
def S(v): return np.asarray(mat.Compute_dWde(state(v)), dtype=float)[0, 0]
def fd(f, v):
    cols = []
    for k in idx:
        e = np.zeros(6); e[k] = 2 * hh            # dE = hh  <=>  dC = 2 hh
        cols.append((f(v + e) - f(v - e)) / (2 * hh))
    return np.array(cols)
if mode == "stress":
    tab = S(Ckm); ref = fd(W, Ckm)
    print("Compute_dWde            =", tab); print("central diff of Compute_W =", ref)
else:
    tab = np.asarray(mat.Compute_d2Wde(state(Ckm)), dtype=float)[0, 0]; ref = fd(S, Ckm).T
    print("Compute_d2Wde =\n", tab); print("central diff of Compute_dWde =\n", ref)
err = np.abs(tab - ref).max() / max(np.abs(ref).max(), 1e-300)
print("relative defect", err, "tolerance", %(tol)r)
sys.exit(1 if err > %(tol)r else 0)
'''

REPLAY_INV = r'''
import sys, numpy as np
from EasyFEA.FEM._group_elem import GroupElemFactory
from EasyFEA.FEM._utils import ElemType
from EasyFEA.Models.HyperElastic._state import HyperElasticState
k, order, Ckm = %(k)d, %(order)d, np.array(%(Ckm)r, dtype=float)
A, B = np.array(%(A)r, float), np.array(%(B)r, float)
s = np.sqrt(2)
def C_of(v):
    return np.array([[v[0], v[5]/s, v[4]/s], [v[5]/s, v[1], v[3]/s], [v[4]/s, v[3]/s, v[2]]])
def state(v):
    w, Q = np.linalg.eigh(C_of(v)); U = Q @ np.diag(np.sqrt(w)) @ Q.T
    X = np.zeros((4, 3)); X[1, 0] = 1; X[2, 1] = 1; X[3, 2] = 1
    g = GroupElemFactory.Create(ElemType.TETRA4, np.arange(4).reshape(1, -1), X)
    return HyperElasticState(g, (X @ (U - np.eye(3)).T).ravel(), "rigi")
args = {1: (), 2: (), 3: (), 4: (A,), 6: (B,), 8: (A, B)}[k]
def I(v): return float(np.asarray(getattr(state(v), "Compute_I%%d" %% k)(*args)).ravel()[0])
def dI(v):
    x = np.asarray(getattr(state(v), "Compute_dI%%ddC" %% k)(*args), dtype=float)
    return np.broadcast_to(x, (1, 1, 6))[0, 0].copy()
hh = 1e-5
def fd(f, v):
    cols = []
    for m in range(6):
        e = np.zeros(6); e[m] = hh
        cols.append((f(v + e) - f(v - e)) / (2 * hh))
    return np.array(cols)
if order == 1:
    tab, ref = dI(Ckm), fd(I, Ckm)
else:
    x = np.asarray(getattr(state(Ckm), "Compute_d2I%%ddC" %% k)(), dtype=float)
    tab, ref = np.broadcast_to(x, (1, 1, 6, 6))[0, 0], fd(dI, Ckm).T
print("table:\n", tab); print("central difference w.r.t. the Kelvin-Mandel components of C:\n", ref)
err = np.abs(tab - ref).max() / max(np.abs(ref).max(), 1e-300)
print("relative defect", err)
sys.exit(1 if err > 1e-5 else 0)
'''

REPLAY_CASE = r'''
import sys, json
from corr import C18_impl as I
case = json.loads(%(case)r)
res = getattr(I, %(fn)r)(case)
print(json.dumps(res, indent=1)[:3000])
key, tol = %(key)r, %(tol)r
if key == "drift":
    import numpy as np
    E = np.array(res["energies"]); d = float(np.abs(E - E[0]).max() / abs(E[0]))
    if case.get("program"): d = res["step_defect"]
    print("relative energy drift", d, "tolerance", tol)
    sys.exit(1 if d > tol else 0)
print(key, "=", res.get(key), "tolerance", tol)
sys.exit(1 if not (res.get(key) is not None and res[key] <= tol) else 0)
'''


REPLAY_CC = r'''
import sys
import numpy as np
from EasyFEA.FEM import Operators
N, d = %(N)d, %(d)d
nodes, weights = getattr(Operators.NonLinear, "__clenshaw_curtis")(N)
nodes, weights = np.array(nodes), np.array(weights)
val = float((weights * nodes ** d).sum())
print("Clenshaw-Curtis nPoints =", N, ": sum_k w_k x_k^%%d =" %% d, val, "expected", 1.0 / (d + 1))
sys.exit(1 if abs(val - 1.0 / (d + 1)) > 1e-10 else 0)
'''

REPLAY_QUAD_ADAPT = r'''
import sys, json
from corr import C18_impl as I
case = json.loads(%(case)r)
tol = %(tol)r
case["nPoints"] = [1]; case["energyTols"] = [tol]
res = I.run_quad(case)
a = res["adaptive"][repr(tol)]
print(a, "bound", tol * a["ref"])
sys.exit(1 if a["npts"] < 33 and a["abs_defect"] > tol * a["ref"] * (1 + 1e-6) + 1e-12 * res["scale"] else 0)
'''

REPLAY_QUAD = r'''
import sys, json
from corr import C18_impl as I
case = json.loads(%(case)r)
n, bound = %(n)d, %(bound)r
if n:
    case["nPoints"] = [n]
res = I.run_quad(case)
print(json.dumps(res, indent=1)[:2000])
bad = any(abs(w - 1.0) > 1e-12 for w in res["wsum"].values()) or (n and res["defect"][str(n)] > bound)
print("weights sum", res["wsum"], "defect", res["defect"], "bound", bound)
bound = float(bound)
sys.exit(1 if bad else 0)
'''


# ----------------------------------------------------------------------------------------
# generators
# ----------------------------------------------------------------------------------------
def rot3(rng):
    import math
    # random rotation from a unit quaternion
    q = [rng.gauss(0, 1) for _ in range(4)]
    n = math.sqrt(sum(x * x for x in q))
    w, x, y, z = [c / n for c in q]
    return [[1 - 2 * (y * y + z * z), 2 * (x * y - z * w), 2 * (x * z + y * w)],
            [2 * (x * y + z * w), 1 - 2 * (x * x + z * z), 2 * (y * z - x * w)],
            [2 * (x * z - y * w), 2 * (y * z + x * w), 1 - 2 * (x * x + y * y)]]


def matmul(a, b):
    return [[sum(a[i][k] * b[k][j] for k in range(3)) for j in range(3)] for i in range(3)]


def transpose(a):
    return [[a[j][i] for j in range(3)] for i in range(3)]


def gen_G(rng, kind, dim):
    """displacement gradient G = F - I with det F > 0; kinds: near, moderate, stretch, rotated."""
    import math
    if dim == 2:
        t = rng.uniform(-math.pi, math.pi)
        Q = [[math.cos(t), -math.sin(t), 0], [math.sin(t), math.cos(t), 0], [0, 0, 1]]
        t2 = rng.uniform(-math.pi, math.pi)
        P = [[math.cos(t2), -math.sin(t2), 0], [math.sin(t2), math.cos(t2), 0], [0, 0, 1]]
    else:
        Q, P = rot3(rng), rot3(rng)
    if kind == "near":
        lam = [1 + rng.uniform(-1e-3, 1e-3) for _ in range(3)]
    elif kind == "moderate":
        lam = [1 + rng.uniform(-0.2, 0.25) for _ in range(3)]
    else:
        lam = [rng.uniform(0.6, 1.9) for _ in range(3)]
    if dim == 2:
        lam[2] = 1.0
    U = matmul(matmul(P, [[lam[0], 0, 0], [0, lam[1], 0], [0, 0, lam[2]]]), transpose(P))
    Fm = matmul(Q, U) if kind in ("rotated", "stretch") and rng.random() < 0.7 or kind == "rotated" else U
    return [[Fm[i][j] - (1.0 if i == j else 0.0) for j in range(3)] for i in range(3)]


def gen_params(rng, law):
    u = rng.uniform
    if law == "NeoHookean":
        return {"K": round(u(0.5, 3), 3)}
    if law in ("MooneyRivlin", "CiarletGeymonat", "AutoDiff"):
        return {"K1": round(u(0.5, 3), 3), "K2": round(u(0.2, 2), 3), "K": round(u(0.5, 3), 3)}
    if law == "SaintVenantKirchhoff":
        return {"lmbda": round(u(0.5, 3), 3), "mu": round(u(0.5, 2), 3), "K": round(u(0.0, 2), 3)}
    if law == "HolzapfelOgden":
        p = {k: round(u(0.1, 1.2), 3) for k in ("C0", "C1", "C2", "C3", "C4", "C5", "C6", "C7")}
        p.update(K=round(u(0.5, 3), 3), Mu1=round(u(0.2, 2), 3), Mu2=round(u(0.1, 1), 3), ks=float(rng.choice([2, 10, 40, 100])))
        return p
    raise KeyError(law)


ELEMS = {2: ["TRI3", "QUAD4", "TRI6", "QUAD8"], 3: ["TETRA4", "HEXA8", "TETRA10", "PRISM6"]}


MODULI = {"NeoHookean": ["K"], "MooneyRivlin": ["K", "K1", "K2"], "CiarletGeymonat": ["K", "K1", "K2"], "AutoDiff": ["K", "K1", "K2"],
          "SaintVenantKirchhoff": ["lmbda", "mu", "K"], "HolzapfelOgden": ["C0", "C2", "C4", "C6", "K", "Mu1", "Mu2"]}
# changes of units for the scaled twins: lengths, moduli, time (every checked quantity is homogeneous)
UNITS = [{"sL": 1e-6, "sE": 2.0 ** 40, "sT": 2.0 ** -30}, {"sL": 1e3, "sE": 2.0 ** -40, "sT": 2.0 ** -30}]


def twin(c, k, suffix):
    t = json.loads(json.dumps(c))
    t["id"] = c["id"] + suffix
    t["twin_of"] = c["id"]
    t["scale"] = dict(UNITS[k % len(UNITS)])
    return t


def add_state_twins(cases, every):
    out = list(cases)
    for i, c in enumerate(cases):
        if i % every == 0:
            t = twin(c, i // every, "u")
            sE = t["scale"].pop("sE")
            t["scale"].pop("sT")
            t["sE"] = sE
            t["params"] = {k: (v * sE if k in MODULI[c["law"]] else v) for k, v in c["params"].items()}
            out.append(t)
    return out


def gen_state_cases(ctx, laws, n_per):
    rng = ctx.rng
    cases = []
    kinds = ["near", "moderate", "stretch", "rotated"]
    cid = 0
    for law in laws:
        for dim in (2, 3):
            for i in range(n_per):
                kind = kinds[i % 4]
                A = [[1 + rng.uniform(-0.1, 0.1) if r == c else rng.uniform(-0.1, 0.1) for c in range(3)] for r in range(3)]
                c = {"id": "s%d" % cid, "elemType": rng.choice(ELEMS[dim]), "A": A, "G": gen_G(rng, kind, dim),
                     "pert": [rng.uniform(-1, 1) for _ in range(81)], "amp": 0.0 if i % 3 == 0 else 0.01,
                     "law": law, "params": gen_params(rng, law), "kind": kind, "dimreq": dim}
                if law == "HolzapfelOgden":
                    t = rng.uniform(0, 3.14)
                    import math
                    if dim == 2:
                        c["T1"], c["T2"] = [math.cos(t), math.sin(t), 0.0], [-math.sin(t), math.cos(t), 0.0]
                        if i % 2:
                            c["T2"] = [math.cos(t + 1.0), math.sin(t + 1.0), 0.0]       # non-orthogonal fibres
                    else:
                        R = rot3(rng)
                        c["T1"], c["T2"] = [R[0][0] * 2, R[1][0] * 2, R[2][0] * 2], [R[0][1], R[1][1], R[2][1]]  # un-normalised input
                        if i % 2:
                            c["T2"] = [R[0][1] + 0.3 * R[0][0], R[1][1] + 0.3 * R[1][0], R[2][1] + 0.3 * R[2][0]]
                cases.append(c)
                cid += 1
    return cases


def gen_fd_cases(ctx, laws, n):
    rng = ctx.rng
    out = []
    for i in range(n):
        dim = 2 + (i % 2)
        law = laws[i % len(laws)]
        et = ["TRI3", "QUAD4", "TRI6"][i // 2 % 3] if dim == 2 else ["TETRA4", "HEXA8", "PRISM6"][i // 2 % 3]
        I3 = [[1.0 if r == c else 0.0 for c in range(3)] for r in range(3)]
        c = {"id": "f%d" % i, "elemType": et, "A": I3, "G": gen_G(rng, "moderate", dim), "G0": gen_G(rng, "moderate", dim),
             "pert": [rng.uniform(-1, 1) for _ in range(81)], "amp": 0.02, "vel": [rng.uniform(-1, 1) for _ in range(81)],
             "law": law, "params": gen_params(rng, law), "T1": [1.0, 0.3, 0.2], "T2": [-0.3, 1.0, 0.1],
             "tau": round(rng.uniform(0.2, 1.5), 3), "eta": round(rng.uniform(0.1, 1.0), 3), "h": 1e-6,
             "dofs": [rng.randrange(0, 81) for _ in range(12)], "thickness": 1.0 if dim == 3 else round(rng.uniform(0.5, 2.0), 2)}
        out.append(c)
    return out


def gen_surface_cases(ctx, n):
    rng = ctx.rng
    out = []
    I3 = [[1.0 if r == c else 0.0 for c in range(3)] for r in range(3)]
    for i in range(n):
        out.append({"id": "p%d" % i, "elemType": ["TRI3", "QUAD4", "TRI6"][i % 3], "A": I3,
                    "z": [rng.uniform(-0.1, 0.1) for _ in range(9)], "u": [rng.uniform(-0.05, 0.05) for _ in range(27)],
                    "pressure": round(rng.uniform(0.5, 3), 3), "h": 1e-6,
                    "normal": [rng.uniform(-0.2, 0.2), rng.uniform(-0.2, 0.2), 1.0],
                    # the plane cuts through the element so that some Gauss points penetrate; gaps stay away from 0
                    "p0": [0.3, 0.3, round(rng.uniform(-0.02, 0.02), 4)], "penalty": round(rng.uniform(10, 100), 2)})
    return out


def gen_simfd_cases(ctx, laws, schemes=("newmark", "hht", "midpoint", "hht_newmark")):
    """short sequences of the public setters (scheme / stress option, both orders, scheme or step size
    changed afterwards, option re-selected) followed by the finite-difference check of the assembled
    Newton matrix of Construct_local_matrix_system with respect to u_{n+1}."""
    rng = ctx.rng
    quick = ctx.tier == "quick"

    def algo(name=None):
        name = name or rng.choice(list(schemes))
        alpha = round(rng.uniform(0.05, 0.4), 2) if name == "hht" else round(rng.uniform(0.05, 0.33), 2)
        return ["algo", name, rng.choice([0.02, 0.05, 0.1]), alpha]

    def stress(kind):
        if kind == "pointwise":
            return ["stress", "pointwise", 3, None, True]
        if kind == "gonzalez":
            return ["stress", "gonzalez", 3, None, True]     # useConsistentTangent=False is documented as not consistent
        if kind == "quadrature":
            return ["stress", "quadrature", rng.choice([1, 2, 3, 4, 5, 6, 9]), None, True]
        return ["stress", "quadrature", rng.choice([1, 3]), rng.choice([1e-3, 1e-6, 1e-9]), True]
    cases = []
    meshes = [dict(dim=2, n=[2, 1, 1], L=[2.0, 1.0, 1.0], elemType="QUAD4"), dict(dim=2, n=[2, 1, 1], L=[2.0, 1.0, 1.0], elemType="TRI3"),
              dict(dim=3, n=[2, 1, 1], L=[2.0, 1.0, 1.0], elemType="HEXA8")]
    reps = 1 if quick else 3
    cid = 0
    # scheme sweep: EVERY scheme the simulation accepts, with every optional physics on (Kelvin-Voigt viscosity, density,
    # active fibre stress), alpha > 0 where the scheme has one; 2-D (quick) and 3-D (thorough)
    for rep in range(reps):
        for si, sname in enumerate(schemes):
            for kind in (("pointwise",) if quick else ("pointwise", "quadrature")):
                if kind == "gonzalez" and sname != "midpoint":
                    continue
                law = laws[(si + rep) % len(laws)]
                m = meshes[(si + rep) % (2 if quick else 3)]
                a = algo(sname)
                a[3] = round(rng.uniform(0.1, 0.3), 2)
                cases.append(dict(m, id="w%d" % cid, law=law, params=gen_params(rng, law), rho=round(rng.uniform(0.5, 2.0), 2),
                                  rand=[rng.gauss(0, 1) for _ in range(240)], amp=0.03, h=1e-6, elems=[rng.randrange(0, 8) for _ in range(2)],
                                  cols=[rng.randrange(0, 24) for _ in range(4)], ops=[a, stress(kind)], pattern="scheme-sweep:" + sname, kind=kind,
                                  eta=round(rng.uniform(0.2, 0.8), 2), tau=round(rng.uniform(0.2, 1.0), 2), T1=[1.0, 0.3, 0.0], T2=[-0.3, 1.0, 0.0]))
                cid += 1
    for rep in range(reps):
        for kind in ("pointwise", "gonzalez", "quadrature", "adaptive"):
            for pattern in ("scheme-then-stress", "stress-then-scheme", "scheme-changed-after-stress", "step-size-changed-after-stress", "stress-reselected"):
                final = "midpoint" if kind == "gonzalez" else None
                if pattern == "scheme-then-stress":
                    ops = [algo(final), stress(kind)]
                elif pattern == "stress-then-scheme":
                    if kind == "gonzalez":
                        continue            # the setter rejects gonzalez before midpoint is selected (documented)
                    ops = [stress(kind), algo()]
                elif pattern == "scheme-changed-after-stress":
                    first = algo("midpoint")
                    second = algo(final)
                    if kind != "gonzalez":
                        while second[1] == "midpoint":
                            second = algo()
                    ops = [first, stress(kind), second]
                elif pattern == "step-size-changed-after-stress":
                    a = algo(final)
                    b = list(a)
                    b[2] = a[2] / 2
                    ops = [a, stress(kind), b]
                else:
                    a = algo(final)
                    other = rng.choice([k for k in ("pointwise", "quadrature", "adaptive") if k != kind])
                    ops = [a, stress(other), stress(kind)]
                law = laws[cid % len(laws)]
                m = meshes[cid % len(meshes)] if not quick else meshes[cid % 2]
                c = dict(m, id="t%d" % cid, law=law, params=gen_params(rng, law), rho=round(rng.uniform(0.5, 2.0), 2),
                         rand=[rng.gauss(0, 1) for _ in range(240)], amp=0.03, h=1e-6, elems=[rng.randrange(0, 8) for _ in range(2)],
                         cols=[rng.randrange(0, 24) for _ in range(4)], ops=ops, pattern=pattern, kind=kind,
                         eta=round(rng.uniform(0.1, 0.5), 2) if rng.random() < 0.3 else 0.0,
                         T1=[1.0, 0.3, 0.0], T2=[-0.3, 1.0, 0.0])
                # history before the check: consecutive unsaved solves, saved solves, a rewind
                if kind != "adaptive" and pattern in ("scheme-then-stress", "step-size-changed-after-stress"):
                    c["presteps"] = rng.choice([["solve", "solve"], ["solve", "save", "solve"], ["solve", "save", "solve", "save", ["set_iter", 0], "solve"]])
                    c["amp"] = 0.01
                cases.append(c)
                cid += 1
    return cases


QUAD_NPOINTS = list(range(1, 10)) + [17, 33]


def gen_quad_cases(ctx, laws):
    """SVK with K = 0 (energy quadratic in E: every rule exact) on moderate steps; the other laws on SMALL steps
    (|dG| <= 0.004, so that the stress path is analytic with a wide margin and the 33-point rule is converged)."""
    rng = ctx.rng
    out = []
    I3 = [[1.0 if r == c else 0.0 for c in range(3)] for r in range(3)]
    todo = [("SaintVenantKirchhoff", {"lmbda": round(rng.uniform(0.5, 2), 3), "mu": round(rng.uniform(0.5, 2), 3), "K": 0.0})]
    todo += [(l, gen_params(rng, l)) for l in laws]
    for i, (law, p) in enumerate(todo):
        dim = 3 if i % 2 == 0 else 2
        quadratic = law == "SaintVenantKirchhoff" and p["K"] == 0.0
        G = gen_G(rng, "moderate", dim)
        if quadratic:
            G0, same = gen_G(rng, "moderate", dim), False
        else:
            G0 = [[G[r][c] - (rng.uniform(-0.004, 0.004) if r < dim and c < dim else 0.0) for c in range(3)] for r in range(3)]
            same = True
        out.append({"id": "q%d" % i, "elemType": "HEXA8" if dim == 3 else "QUAD4", "A": I3, "G": G, "G0": G0, "same_pert": same,
                    "pert": [rng.uniform(-1, 1) for _ in range(81)], "amp": 0.01, "law": law, "params": p, "nPoints": QUAD_NPOINTS,
                    "energyTols": [1e-3, 1e-6, 1e-9], "T1": [1.0, 0.3, 0.2], "T2": [-0.3, 1.0, 0.1], "quadratic": quadratic})
    return out


def gen_drift_cases(ctx):
    rng = ctx.rng
    quick = ctx.tier == "quick"
    out = [
        {"id": "d0", "dim": 2, "n": [6, 2, 1], "L": [6.0, 1.0, 1.0], "elemType": "QUAD4", "law": "NeoHookean",
         "params": {"K": round(rng.uniform(30, 80), 2)}, "absTol": 1e-9, "rho": 1.0, "dt": 0.05, "algo": "midpoint",
         "stress": "gonzalez", "v0": round(rng.uniform(0.6, 1.2), 3), "nStep": 25 if quick else 200},
        {"id": "d1", "dim": 2, "n": [5, 2, 1], "L": [5.0, 1.0, 1.0], "elemType": "TRI3", "law": "MooneyRivlin",
         "params": {"K1": 20.0, "K2": 8.0, "K": 30.0}, "absTol": 1e-9, "rho": 1.0, "dt": round(rng.uniform(0.02, 0.08), 3),
         "algo": "midpoint", "stress": "quadrature", "nPoints": 1, "energyTol": 1e-9, "v0": 0.8, "nStep": 20 if quick else 120},
    ]
    out.append({"id": "d4", "dim": 2, "n": [5, 2, 1], "L": [5.0, 1.0, 1.0], "elemType": "QUAD4", "law": "SaintVenantKirchhoff",
                "params": {"lmbda": 30.0, "mu": 20.0, "K": 0.0}, "absTol": 1e-9, "rho": 1.0, "dt": 0.05, "algo": "midpoint",
                "stress": "quadrature", "nPoints": rng.choice([4, 6, 8]), "v0": 0.8, "nStep": 15 if quick else 100, "exact_rule": True})
    def prog(kind, n):
        if kind == "save-every-k":
            k = rng.choice([2, 3, 4])
            return [x for i in range(n) for x in (["solve", "save"] if (i + 1) % k == 0 else ["solve"])]
        if kind == "never-saved":
            return ["solve"] * n
        if kind == "rewind":
            m = max(3, n // 3)
            back = rng.randrange(0, m - 1)
            return ["solve", "save"] * m + [["set_iter", back]] + ["solve"] * 2 + ["save"] + ["solve"] * (n - m - 2)
        if kind == "dt-changed":
            m = n // 2
            # a near-equal change of the step (1e-6 relative) must be honoured like a large one
            k = max(1, (n - m) // 4)
            return ["solve"] * m + ["save", ["dt", 0.05 * (1 + 1e-6)]] + ["solve", "solve", "save"] * k + [["dt", round(rng.uniform(0.02, 0.08), 3)]] + ["solve", "solve", "save"] * k
        raise KeyError(kind)
    nS = 12 if quick else 60
    kinds = ["save-every-k", "never-saved", "rewind", "dt-changed"]
    specs = [("gonzalez", None, "NeoHookean", {"K": 60.0}), ("quadrature", 1e-9, "MooneyRivlin", {"K1": 20.0, "K2": 8.0, "K": 30.0}),
             ("gonzalez", None, "CiarletGeymonat", {"K1": 20.0, "K2": 5.0, "K": 40.0}), ("quadrature", None, "SaintVenantKirchhoff", {"lmbda": 30.0, "mu": 20.0, "K": 0.0})]
    for i, kind in enumerate(kinds):
        stress, etol, law, params = specs[(i + (0 if quick else rng.randrange(4))) % 4] if not quick else specs[i]
        c = {"id": "h%d" % i, "dim": 2, "n": [5, 2, 1], "L": [5.0, 1.0, 1.0], "elemType": "QUAD4" if i % 2 == 0 else "TRI3", "law": law, "params": params,
             "absTol": 1e-9, "rho": 1.0, "dt": 0.05, "algo": "midpoint", "stress": stress, "v0": round(rng.uniform(0.6, 1.0), 3),
             "nStep": nS, "program": prog(kind, nS), "program_kind": kind}
        if stress == "quadrature":
            c["nPoints"] = 5 if etol is None else 1
            c["energyTol"] = etol
            c["exact_rule"] = law == "SaintVenantKirchhoff"
        out.append(c)
    if not quick:
        out.append({"id": "d2", "dim": 3, "n": [4, 1, 1], "L": [4.0, 1.0, 1.0], "elemType": "HEXA8", "law": "SaintVenantKirchhoff",
                    "params": {"lmbda": 40.0, "mu": 30.0, "K": 0.0}, "absTol": 1e-9, "rho": 1.0, "dt": 0.04, "algo": "midpoint",
                    "stress": "gonzalez", "v0": 0.7, "nStep": 100})
        out.append({"id": "d3", "dim": 2, "n": [6, 2, 1], "L": [6.0, 1.0, 1.0], "elemType": "QUAD4", "law": "CiarletGeymonat",
                    "params": {"K1": 20.0, "K2": 5.0, "K": 40.0}, "absTol": 1e-9, "rho": 1.0, "dt": 0.1, "algo": "midpoint",
                    "stress": "gonzalez", "v0": 1.0, "nStep": 200})
    return out


# ----------------------------------------------------------------------------------------
def relerr(model, impl):
    s = max(max(abs(float(x)) for x in model), 1e-300)
    return max(abs(float(a) - b) for a, b in zip(model, impl)) / s


def flat(m):
    return [x for r in m for x in r]


def compare_states(ctx, M, model, cases, results):
    S = M["state"]
    mism = []
    worst = 0.0
    dist = {}
    for c, r in zip(cases, results):
        if "error" in r:
            mism.append((c["id"], c["law"], "implementation raised " + r["error"]))
            continue
        dim = r["dim"]
        sl = S["slices"][dim]
        slm = S["slices_mat"][dim]
        if min(r["J"]) <= 0.05:
            ctx.note_case(None)
            continue
        lawname = c["law"] if c["law"] != "AutoDiff" else "MooneyRivlin"     # same potential, differentiated by jax
        L = M["laws"][lawname]
        params = {k: D(repr(v)) for k, v in c["params"].items()}
        tol = TOL
        for p in range(len(r["W"])):
            Cm = [[D(x) for x in row] for row in r["C"][p]]
            A = [D(x) for x in r.get("T1n", [0, 0, 0])]
            B = [D(x) for x in r.get("T2n", [0, 0, 0])]
            for z in S["zeroed"].get(dim, []):
                A[z] = D(0)
                B[z] = D(0)
            W, dW, d2W = model.tables(L, params, Cm, A, B)
            dWs = [dW[i] for i in sl]
            d2Ws = [d2W[i][j] for i in slm for j in slm]
            errs = {"W": abs(float(W) - r["W"][p]) / max(abs(float(W)), max(abs(float(x)) for x in dW), 1e-300),
                    "dWde": relerr(dWs, r["dW"][p]), "d2Wde": relerr(d2Ws, flat(r["d2W"][p]))}
            for q, e in errs.items():
                worst = max(worst, e)
                if not e <= tol:
                    mism.append((c["id"], c["law"], "%s at Gauss point %d (dim %d, %s, %s): relative defect %.3g" % (q, p, dim, c["elemType"], c["kind"], e), c, q))
            ctx.note_case("%s:%d:%s:%s" % (c["law"], dim, c["kind"], c["elemType"]))
        dist["%s/%dD/%s" % (c["law"], dim, c["kind"])] = dist.get("%s/%dD/%s" % (c["law"], dim, c["kind"]), 0) + 1
    # scaled twins: moduli x sE (a power of two) and lengths x sL must give exactly sE times the base response
    byid = {c["id"]: r for c, r in zip(cases, results)}
    ntw = 0
    for c, r in zip(cases, results):
        if "twin_of" not in c or "error" in r or "error" in byid.get(c["twin_of"], {"error": 1}):
            continue
        b = byid[c["twin_of"]]
        ntw += 1
        for q in ("W", "dW", "d2W"):
            a1 = [x for p_ in r[q] for x in (flat(p_) if q == "d2W" else (p_ if q == "dW" else [p_]))]
            a0 = [x * c["sE"] for p_ in b[q] for x in (flat(p_) if q == "d2W" else (p_ if q == "dW" else [p_]))]
            sc = max(max(abs(x) for x in a0), 1e-300)
            e = max(abs(x - y) for x, y in zip(a1, a0)) / sc
            if not e <= 1e-9:
                mism.append((c["id"], c["law"], "change of units (lengths x %g, moduli x 2^%d): %s is not the predicted multiple of the base case, relative defect %.3g"
                             % (c["scale"]["sL"], round(__import__("math").log2(c["sE"])), q, e), c, q))
    ctx.cov["state_scaled_twins"] = ntw
    ctx.cov["state_case_distribution"] = dist
    ctx.cov["state_worst_relative_defect"] = worst
    return mism


def search_law_defects(ctx, M, model, only=None):
    """model-level search: states where the assembled (tabulated) stress / tangent differ from the
       derivative of the translated energy; each hit gets a replay on the real law object."""
    rng = ctx.rng
    found = []
    for name, L in M["laws"].items():
        if only and name not in only:
            continue
        hit = {"stress": None, "tangent": None}
        for trial in range(8):
            dim = 3
            G = gen_G(rng, "moderate" if trial % 2 == 0 else "stretch", 3)
            Fm = [[F(str(round(G[i][j] + (1 if i == j else 0), 3))) for j in range(3)] for i in range(3)]
            Cq = [[sum(Fm[k][i] * Fm[k][j] for k in range(3)) for j in range(3)] for i in range(3)]
            Cm = [[D(x.numerator) / D(x.denominator) for x in row] for row in Cq]
            p = gen_params(rng, name)
            params = {k: D(repr(v)) for k, v in p.items()}
            T1 = [F(2, 7), F(3, 7), F(6, 7)]          # unit, pairwise distinct components
            T2 = [F(-6, 7), F(2, 7), F(3, 7)] if trial % 2 == 0 else [F(3, 7), F(6, 7), F(2, 7)]
            A = [D(x.numerator) / D(x.denominator) for x in T1]
            B = [D(x.numerator) / D(x.denominator) for x in T2]
            W, dW, d2W = model.tables(L, params, Cm, A, B)
            g, Hs = model.true_derivs(L, params, Cm, A, B)
            # stress = dW/dE ; tangent = d(stress)/dE, both in Kelvin-Mandel components
            es = max(abs(a - b) for a, b in zip(dW, g)) / max(max(abs(x) for x in g), D("1e-300"))
            # tangent compared with the derivative of the TABULATED stress (so that a wrong stress does
            # not hide behind a consistent tangent and vice versa)
            Ckm = [float(x) for x in model.km_of_C(Cm)]
            if es > D("1e-12") and (hit["stress"] is None or float(es) > hit["stress"][0]):
                hit["stress"] = (float(es), Ckm, p, T1, T2, [float(x) for x in dW], [float(x) for x in g])
            h2 = D("1e-12")
            v0 = model.km_of_C(Cm)
            Jt = []
            for k in range(6):
                vp, vm = list(v0), list(v0)
                vp[k] += 2 * h2
                vm[k] -= 2 * h2
                sp = model.tables(L, params, model.C_of_km(vp), A, B)[1]
                sm = model.tables(L, params, model.C_of_km(vm), A, B)[1]
                Jt.append([(a - b) / (2 * h2) for a, b in zip(sp, sm)])
            Jt = [[Jt[k][m] for k in range(6)] for m in range(6)]
            et = max(abs(d2W[m][n] - Jt[m][n]) for m in range(6) for n in range(6)) / max(max(abs(x) for x in flat(Jt)), D("1e-300"))
            if et > D("1e-10") and (hit["tangent"] is None or float(et) > hit["tangent"][0]):
                hit["tangent"] = (float(et), Ckm, p, T1, T2, None, None)
            if all(h is not None and h[0] > 1e-2 for h in hit.values()):
                break
            if trial >= 3 and not any(hit.values()):
                break
        for mode, h in hit.items():
            if h is None:
                continue
            e, Ckm, p, T1, T2, tab, ref = h
            what = ("%s: Compute_%s is not the derivative of Compute_%s at C (Kelvin-Mandel) = %s, parameters %s: relative defect %.3g on the translated formulas"
                    % (name, "dWde" if mode == "stress" else "d2Wde", "W" if mode == "stress" else "dWde", [round(x, 4) for x in Ckm], p, e))
            rep = {"replay_py": REPLAY_LAW % dict(law=name, params=p, dim=3, mode=mode, Ckm=Ckm, tol=max(1e-7, min(1e-5, e / 20)),
                                                  T1=[float(x) for x in T1], T2=[float(x) for x in T2]),
                   "law": name, "mode": mode, "C_kelvin_mandel": Ckm, "params": p, "model_tabulated": tab, "model_true": ref}
            found.append(("%s:%s" % (mode, name), what, rep))
    return found


def confirm_2d(ctx, M, mism):
    """correspondence mismatches the 3-D model search does not explain (e.g. the 1-D/2-D reduction):
       evaluate the property's own predicate (derivative by central differences) on the real law
       object in 2-D at the mismatching state; keep the candidates that reproduce."""
    found, seen, tries = [], set(), {}
    for m in mism:
        cid, law, text, c, q = m
        if law not in M["laws"] or c.get("dimreq") != 2 or q == "W":
            continue
        mode = "stress" if q == "dWde" else "tangent"
        if (law, mode) in seen or tries.get((law, mode), 0) >= 4:
            continue
        tries[(law, mode)] = tries.get((law, mode), 0) + 1
        G = c["G"]
        Fm = [[G[i][j] + (1.0 if i == j else 0.0) for j in range(3)] for i in range(3)]
        Cm = [[sum(Fm[k][i] * Fm[k][j] for k in range(3)) for j in range(3)] for i in range(3)]
        Ckm = [Cm[0][0], Cm[1][1], 1.0, 0.0, 0.0, 2 ** 0.5 * Cm[0][1]]
        snippet = REPLAY_LAW % dict(law=law, params=c["params"], dim=2, mode=mode, Ckm=Ckm, tol=1e-5,
                                    T1=c.get("T1", [1.0, 0.0, 0.0]), T2=c.get("T2", [0.0, 1.0, 0.0]))
        path = os.path.join(ctx.build, "cand_%s_%s.py" % (law, mode))
        open(path, "w").write(snippet)
        rc, out, err = ctx.impl_python(path, timeout=300)
        if rc == 1:
            seen.add((law, mode))
            found.append(("%s2d:%s" % (mode, law),
                          "%s (2-D): Compute_%s is not the derivative of Compute_%s at C (Kelvin-Mandel) = %s, parameters %s: %s"
                          % (law, "dWde" if mode == "stress" else "d2Wde", "W" if mode == "stress" else "dWde", [round(x, 4) for x in Ckm], c["params"], out.strip().splitlines()[-1] if out.strip() else ""),
                          {"replay_py": snippet, "law": law, "mode": mode, "dim": 2, "C_kelvin_mandel": Ckm}))
    return found


def search_cc_defects(ctx):
    """numerical search on the translated Clenshaw-Curtis rules: first (nPoints, degree) whose moment is wrong."""
    found = []
    for N in H.CC_ALL:
        try:
            xs, ws = H.read_clenshaw_curtis(ctx.repo, N)
        except TranslateError:
            continue
        xv, wv = [H._num(t) for t in xs], [H._num(t) for t in ws]
        for d in range(0, H.cc_degree(N) + 1):
            val = sum(w * x ** d for w, x in zip(wv, xv))
            if abs(val - 1.0 / (d + 1)) > 1e-10:
                found.append(("clenshaw-curtis:n=%d" % N,
                              "Clenshaw-Curtis rule with nPoints=%d: sum_k w_k x_k^%d = %.12g, the integral of x^%d over [0,1] is %.12g (the rule must be exact up to degree %d)"
                              % (N, d, val, d, 1.0 / (d + 1), H.cc_degree(N)),
                              {"replay_py": REPLAY_CC % dict(N=N, d=d), "nPoints": N, "degree": d, "model_value": val}))
                break
        if len(found) >= 6:
            break
    return found


def search_newton_coef_defects(ctx, NC, laws):
    """exact search on the translated time-scheme tables; each hit is confirmed on a real simulation (assembled Newton
    matrix vs central differences of the assembled residual with every physics switched on)."""
    found = []
    rng = ctx.rng
    for algo, nm, slope, cv in H.newton_coef_defects(NC):
        what0 = ("time scheme %s: d(%s)/d(u_{n+1}) = %s but %s = %s (dt=1/20, beta=3/10, gamma=3/5, alpha=1/5): the Newton matrix coefK K + coefC C + coefM M "
                 "is not the derivative of the residual" % (algo, nm.split("/")[0], slope, nm.split("/")[1], cv))
        law = laws[0]
        c = dict(dim=2, n=[2, 1, 1], L=[2.0, 1.0, 1.0], elemType="QUAD4", id="nc_" + algo, law=law, params=gen_params(rng, law), rho=1.3,
                 rand=[rng.gauss(0, 1) for _ in range(240)], amp=0.03, h=1e-6, elems=[0, 1], cols=[0, 3, 5, 6],
                 ops=[["algo", algo, 0.05, 0.2], ["stress", "pointwise", 3, None, True]], pattern="scheme-sweep:" + algo, kind="pointwise",
                 eta=0.5, tau=0.0, T1=[1.0, 0.3, 0.0], T2=[-0.3, 1.0, 0.0])
        snippet = REPLAY_CASE % dict(case=json.dumps(c), fn="run_simfd", key="sim:A=-dF/du_np1", tol=FD_TOL)
        path = os.path.join(ctx.build, "cand_newton_%s.py" % algo)
        open(path, "w").write(snippet)
        rc, out, err = ctx.impl_python(path, timeout=300)
        if rc == 1:
            found.append(("newton-coef:%s:%s" % (algo, nm.split("/")[1]), what0 + "; confirmed on a NeoHookean-type simulation with Kelvin-Voigt viscosity", {"replay_py": snippet, "scheme": algo, "slope": str(slope), "coef": str(cv)}))
        else:
            found.append(("newton-coef:%s:%s" % (algo, nm.split("/")[1]), what0, {"scheme": algo, "slope": str(slope), "coef": str(cv)}))
    return found


def search_inv_defects(M):
    found = []
    for key, rec in M["state"]["inv"].items():
        ids = rec.get("ids") or H.inv_identities(rec)
        seen = set()
        for kind, j, k, rem in ids["bad"]:
            order = 1 if kind == "d1" else 2
            if order in seen:
                continue
            seen.add(order)
            Ckm = [1.3, 0.9, 1.1, 0.15, -0.2, 0.25]
            what = ("invariant I%d%s: %s entry %s is not the derivative of %s w.r.t. Kelvin-Mandel component %d (exact polynomial comparison modulo r2^2 = 2)"
                    % (key[0], list(key[1]), "dI%ddC" % key[0] if order == 1 else "d2I%ddC" % key[0],
                       [k] if order == 1 else [j, k], "I%d" % key[0] if order == 1 else "dI%ddC[%d]" % (key[0], j), k))
            rep = {"replay_py": REPLAY_INV % dict(k=key[0], order=order, Ckm=Ckm, A=[2 / 7, 3 / 7, 6 / 7], B=[-6 / 7, 2 / 7, 3 / 7]),
                   "invariant": key[0], "directions": list(key[1]), "entry": [j, k]}
            found.append(("invariant:I%d%s:d%d" % (key[0], "".join(key[1]), order), what, rep))
    return found


# ----------------------------------------------------------------------------------------
def run(ctx):
    ctx.assumptions += [
        "translator/hyper.py maps the accepted Python grammar of _laws.py/_state.py to Coq faithfully (I3**(p/q) -> Rpower I3 (p/q), np.sqrt -> sqrt, np.log -> ln, np.exp -> exp); checked on every run against the real law objects on random deformation states",
        "derivatives w.r.t. the invariants are Coquelicot is_derive statements; derivatives of the invariants w.r.t. C are the formal derivative pd of EFLib.PolyQ scaled by the Kelvin-Mandel factor (km_pd)",
        "the multivariate chain rule dW/dE = 2 sum_k dW/dIk dIk/dC is standard calculus and not formalised; its assembly (which coefficient multiplies which tensor) is what is translated and proved; end-to-end it is sampled (stress vs central difference of the energy on the real code)",
        "tangent = derivative of residual for the finite-element operators (pointwise, discrete-gradient, path-quadrature, active stress, Kelvin-Voigt, follower pressure, penalty contact) is a SAMPLED central-difference check, not a proof",
        "midpoint_energy_partial assumes exact Newton convergence and the assembled discrete-gradient identity; energy drift of real runs is sampled",
        "Coq 8.16.1 kernel + vm_compute; stdlib real-number axioms and Classical_Prop.classic (used by Coquelicot) as listed in trusted_base",
    ]
    ok_static, log = ctx.ensure_static()
    if not ok_static:
        ctx.obligation("static-lib", False, log[-1500:])
        ctx.violation("static-lib-build", "coq/lib or coq/model does not build", {"log": log[-3000:]}, found_input=False)
        return
    # ---- 1. translate ---------------------------------------------------------------
    try:
        M = H.read_all(ctx.repo)
        texts = {"Gen_HyperLaws.v": H.emit_laws(M), "Gen_HyperInv.v": H.emit_inv(M)}
        texts.update(H.emit_ref(M))
        # composite chain rule (assembled stress = gradient of the composite energy) for the laws without direction invariants
        iso = [n for n, L in M["laws"].items() if set(L["invs"]) <= {1, 2, 3} and all(k in (1, 2, 3) for (k, a) in L["dW"])]
        grad_chains = []
        for n in iso:
            if ctx.tier == "thorough":
                # stress gradient + rows 0-2 of the tangent, rows 3-5 (shear rows) in a second file
                texts["Gen_HyperGrad_%s.v" % n] = H.emit_grad(M, M["laws"][n], True, rows=(0, 1, 2))
                texts["Gen_HyperGradB_%s.v" % n] = H.emit_grad(M, M["laws"][n], True, rows=(3, 4, 5), with_stress=False)
                grad_chains += [["Gen_HyperGrad_%s.v" % n], ["Gen_HyperGradB_%s.v" % n]]
            else:
                texts["Gen_HyperGrad_%s.v" % n] = H.emit_grad(M, M["laws"][n], tangent_block=False)
        if ctx.tier != "thorough":
            grad_chains = [["Gen_HyperGrad_%s.v" % n for n in iso]]
        # laws with direction invariants (HolzapfelOgden): composite chain rule proved term by term of W (thorough tier)
        termwise = [n for n in M["laws"] if n not in iso] if ctx.tier == "thorough" else []
        term_chains = []
        for n in termwise:
            texts["Gen_HyperGradT_%s.v" % n] = H.emit_grad_termwise(M, M["laws"][n])[0]
            term_chains.append(["Gen_HyperGradT_%s.v" % n])
            for i, rows in enumerate(((0, 1), (2, 3), (4, 5))):
                texts["Gen_HyperTanT_%s_%d.v" % (n, i)] = H.emit_tangent_termwise(M, M["laws"][n], rows=rows)
                term_chains.append(["Gen_HyperTanT_%s_%d.v" % (n, i)])
        for n, L in M["laws"].items():
            texts["Gen_Law_%s.v" % n] = H.emit_law_thms(L)
    except (TranslateError, SyntaxError, OSError, RecursionError) as ex:
        ctx.obligation("translate", False, str(ex))
        ctx.violation("translate", "translator rejected the source: %s" % ex, {"construct": str(ex)}, found_input=False)
        return
    # the discrete-gradient stress and the midpoint update: translated separately so that a rejected
    # rewrite there still lets the rest of the check (and the sampled energy checks) run
    energy_ok = True
    try:
        M["gonzalez"] = H.read_gonzalez(ctx.repo)
        M["midpoint"] = H.read_midpoint(ctx.repo)
        e0 = M["gonzalez"]["eps0"]
        open(os.path.join(ctx.build, "Gen_Gonzalez.v"), "w").write(
            (H.HDR % "EasyFEA/FEM/Operators/NonLinear.py GonzalezStressTensor") +
            "From Coq Require Import Reals.\nOpen Scope R_scope.\nDefinition gz_eps0 : R := %d / %d.\n" % (e0.numerator, e0.denominator))
        ctx.obligation("translate:discrete-gradient+midpoint", True, "eps0 = %s; lines %s" % (e0, M["gonzalez"]["lines"]))
    except (TranslateError, SyntaxError, OSError) as ex:
        energy_ok = False
        ctx.obligation("translate:discrete-gradient+midpoint", False, str(ex))
        ctx.violation("translate:energy", "the discrete-gradient stress / midpoint update is no longer the formula the theorems are about: %s" % ex,
                      {"construct": str(ex), "theorems": "gonzalez_discrete_gradient, midpoint_energy_partial"}, found_input=False)
    de_ok = True
    try:
        open(os.path.join(ctx.build, "Gen_De.v"), "w").write(H.emit_de(ctx.repo))
        ctx.obligation("translate:build-de", True, "__Build_De rows (2-D and 3-D)")
    except (TranslateError, SyntaxError, OSError, IndexError, AttributeError) as ex:
        de_ok = False
        ctx.obligation("translate:build-de", False, str(ex))
        ctx.violation("translate:build-de", "HyperElasticState.__Build_De is outside the translated grammar: %s" % ex,
                      {"construct": str(ex), "theorems": "De3_is_sym_GT_grad, element_midpoint_strain_increment"}, found_input=False)
    NC, schemes = None, ["newmark", "hht", "midpoint", "hht_newmark"]
    try:
        NC, hyp = H.read_newton_coefs(ctx.repo)
        schemes = list(NC)          # every hyperbolic scheme a nonlinear simulation accepts, read from AlgoType
        open(os.path.join(ctx.build, "Gen_NewtonCoefs.v"), "w").write(H.emit_newton_coefs(NC))
        ctx.obligation("translate:newton-coefs", True, "schemes %s (AlgoType.Get_Hyperbolic_Types = %s)" % (schemes, hyp))
    except (TranslateError, SyntaxError, OSError, KeyError, IndexError, AttributeError) as ex:
        ctx.obligation("translate:newton-coefs", False, str(ex))
        ctx.violation("translate:newton-coefs", "time-scheme evaluation / coefficient tables are outside the translated grammar: %s" % ex,
                      {"construct": str(ex)}, found_input=False)
    ctx.cov["time_schemes"] = schemes
    cc_files = []
    try:
        cct = H.emit_cc(ctx.repo, ctx.tier)
        for n, t in cct.items():
            open(os.path.join(ctx.build, n), "w").write(t)
        cc_files = sorted(n for n in cct if n != "Gen_CC_defs.v")
        ctx.obligation("translate:clenshaw-curtis", True, "rules nPoints = 1..33 executed symbolically")
    except (TranslateError, SyntaxError, OSError, RecursionError, IndexError, TypeError, KeyError, ZeroDivisionError) as ex:
        ctx.obligation("translate:clenshaw-curtis", False, str(ex))
        ctx.violation("translate:clenshaw-curtis", "__clenshaw_curtis is outside the translated grammar: %s" % ex, {"construct": str(ex)}, found_input=False)
    laws = list(M["laws"])
    ctx.obligation("translate", True, "%d laws (%s), %d invariant tables, skipped %s" % (len(laws), ", ".join(laws), len(M["state"]["inv"]), M["skipped"]))
    ctx.cov["laws"] = laws
    ctx.cov["laws_correspondence_only"] = M["skipped"]
    ctx.cov["translated_scalar_formulas"] = sum(len(H.law_defs(L)) for L in M["laws"].values())
    for n, t in texts.items():
        open(os.path.join(ctx.build, n), "w").write(t)
    stray = {n: H.stray_atoms(L) for n, L in M["laws"].items() if H.stray_atoms(L)}
    ctx.obligation("chain-rule-directions", not stray, "every dIkdC tensor is taken in the direction of the invariant the energy reads" if not stray else str(stray))
    model = Model(M)
    if stray:
        for n, s in stray.items():
            for key, what, rep in search_law_defects(ctx, M, model, only=[n]):
                ctx.violation(key, what + " (the law sums %s)" % s, rep, True)
    # ---- 3a. correspondence inputs; the implementation side runs while Coq compiles ----------------
    quick = ctx.tier == "quick"
    all_laws = laws + (["AutoDiff"] if "AutoDiff" in M["skipped"] and "MooneyRivlin" in M["laws"] else [])
    scases = gen_state_cases(ctx, all_laws, 4 if quick else 16)
    fcases = gen_fd_cases(ctx, laws, 6 if quick else 24)
    pcases = gen_surface_cases(ctx, 3 if quick else 9)
    dcases = gen_drift_cases(ctx)
    tcases = gen_simfd_cases(ctx, laws, schemes)
    qcases = gen_quad_cases(ctx, laws)
    # scaled twins (change of units): same scenario, lengths x {1e-6, 1e3}, moduli x 2^(+-40), time x 2^-30
    scases = add_state_twins(scases, 5 if quick else 4)
    fcases += [twin(c, i, "u") for i, c in enumerate(fcases[: (2 if quick else 6)])]
    pick = [c for c in tcases if c["kind"] in ("gonzalez", "quadrature", "adaptive") and c["pattern"] in ("scheme-then-stress", "scheme-changed-after-stress")]
    pick += [c for c in tcases if c["pattern"].startswith("scheme-sweep")][:2]
    tcases += [twin(c, i, "u") for i, c in enumerate(pick[: (4 if quick else 10)])]
    dcases += [twin(c, i, "u") for i, c in enumerate([c for c in dcases if c["id"] in ("h0", "d4", "h1", "h2")][: (2 if quick else 4)])]
    req = {"states": scases, "fd": fcases, "surface": pcases, "drift": dcases, "simfd": tcases, "quad": qcases}
    impl_pool = ThreadPoolExecutor(max_workers=1)
    impl_future = impl_pool.submit(ctx.impl_python, os.path.join(common.VERIF, "corr", "C18_impl.py"), (), 1500, json.dumps(req))
    # ---- 2. proofs --------------------------------------------------------------------
    # C18_tac, C18_kinematics, C18_energy, C18_InvDefs, C18_pdderive, C18_gradtac are static (independent of the repo):
    # they live in coq/model and are built once by ensure_static (logical path EFModel)
    ctx.copy_props("C18/C18_invariants.v", "C18/C18_gonzalez.v", "C18/C18_element.v", "C18/C18_element_energy.v")
    # the per-invariant tables of the termwise laws are needed by several parallel chains: compile them first
    r0 = ctx.coq(["Gen_HyperLaws.v", "Gen_HyperComp.v"] + ["Gen_Law_%s.v" % n for n in termwise], timeout=900)
    chains = [["Gen_HyperInv.v", "C18_invariants.v"]]
    if energy_ok:
        chains.append(["Gen_Gonzalez.v", "C18_gonzalez.v"] + (["Gen_De.v", "C18_element.v", "C18_element_energy.v"] if de_ok else []))
    elif de_ok:
        chains.append(["Gen_De.v", "C18_element.v"])
    if NC is not None and r0.ok:
        chains.append(["Gen_NewtonCoefs.v"])
    if r0.ok:
        chains += [["Gen_Law_%s.v" % n] for n in laws if n not in termwise] + term_chains + [["Gen_HyperRef.v"]]
        chains += grad_chains
    rcc = ctx.coq(["Gen_CC_defs.v"], timeout=300, count=False) if cc_files else None
    if rcc is not None and rcc.ok:
        chains += [[f] for f in cc_files]
    # longest chains first (HolzapfelOgden tables, kinematics + reference state + element, Clenshaw-Curtis sums)
    weight = lambda fs: -sum({"Gen_Law_HolzapfelOgden.v": 45, "C18_kinematics.v": 35, "Gen_HyperRef.v": 12, "Gen_CC_sum.v": 47, "C18_element.v": 8}.get(f, (200 if f.startswith("Gen_HyperGradT") or f.startswith("Gen_HyperTanT") else 100 if ctx.tier == "thorough" and f.startswith("Gen_HyperGrad") else 12 if f.startswith("Gen_HyperGrad") else 6)) for f in fs)
    chains.sort(key=weight)
    with ThreadPoolExecutor(max_workers=min(6 if ctx.tier == "thorough" else 4, os.cpu_count() or 2)) as ex:
        results = list(ex.map(lambda fs: ctx.coq(fs, timeout=900), chains))
    allres = [r0] + ([rcc] if rcc is not None else []) + results
    proof_ok = all(r.ok for r in allres)
    failed = [r.failed_file for r in allres if not r.ok]
    ctx.sample({"theorem": "NeoHookean_dWdI3_correct : forall K I1 I2 I3 I4 I6 I8, 0 < I3 -> is_derive (fun x => NeoHookean_W K I1 I2 x I4 I6 I8) I3 (NeoHookean_S3 K I1 I2 I3 I4 I6 I8)",
                "proof": "auto_derive, I3 = t^6, Rpower (t^6) (n/6) = t^n, field"})
    ctx.sample({"theorem": "invariant_derivs : forall it, In it all_invs -> d1_spec it /\\ d2_spec it",
                "proof": "vm_compute of pe_eqb (table - km_pd k I) (cofactor * (r2*r2 - 2)) through Qnorm_sound"})
    # ---- 4. search (model level) when a proof broke --------------------------------------
    if not proof_ok:
        ctx.log("proof obligations broke (%s); searching a failing state" % failed)
        found = search_inv_defects(M) + search_law_defects(ctx, M, model)
        if any(str(f).startswith("Gen_CC") for f in failed):
            found += search_cc_defects(ctx)
        if "Gen_NewtonCoefs.v" in failed and NC is not None:
            found += search_newton_coef_defects(ctx, NC, laws)
        for key, what, rep in found:
            ctx.violation(key, what, rep, "replay_py" in rep)
        cls = lambda f: "Gen_CC" if str(f).startswith("Gen_CC") else "newton" if str(f) == "Gen_NewtonCoefs.v" else "other"
        kcls = lambda k: "Gen_CC" if k.startswith("clenshaw") else "newton" if k.startswith("newton-coef") else "other"
        explained = set(kcls(k) for k, _, _ in found)
        if True:
            for f in [f for f in failed if cls(f) not in explained]:
                bad = [r for r in allres if r.failed_file == f][0]
                ctx.violation("proof-broken:" + str(f), "theorem file %s no longer checks and no failing state was found" % f,
                              {"obligation": f, "log": bad.log[-3000:]}, found_input=False)
    # ---- 3. correspondence (the implementation side was started before the proofs) -------------
    rc, out, err = impl_future.result()
    impl_pool.shutdown()
    if rc != 0:
        ctx.obligation("corr:impl", False, err[-1500:])
        ctx.violation("corr:impl-crash", "the implementation-side harness failed: " + (err.strip().splitlines()[-1][:200] if err.strip() else "rc=%d" % rc),
                      {"stderr": err[-3000:]}, found_input=False)
        return
    impl = json.loads(out)
    mism = compare_states(ctx, M, model, scases, impl["states"])
    ctx.obligation("corr:laws-vs-translated-formulas", not mism, "; ".join("%s %s %s" % m[:3] for m in mism[:4]), n=max(1, len(scases)))
    ctx.cov["state_cases"] = len(scases)
    if scases and "error" not in impl["states"][0]:
        ctx.sample({"state_case": {k: scases[0][k] for k in ("law", "elemType", "kind", "params")}, "impl_W": impl["states"][0]["W"][:2]})
    if mism:
        # decide model-wrong vs code-violates: replay the property's own predicate (derivative check) on the real object
        found = search_law_defects(ctx, M, model, only=sorted(set(M["laws"]) & set(m[1] for m in mism)))
        for key, what, rep in found:
            ctx.violation(key, what, rep, True)
        if not found:
            found = confirm_2d(ctx, M, [m for m in mism if len(m) > 3])
            for key, what, rep in found:
                ctx.violation(key, what, rep, True)
        if not found:
            m = mism[0]
            ctx.violation("corr:laws:%s" % m[1], "implementation and translated formulas disagree: %s %s" % (m[0], m[2]),
                          {"mismatches": ["%s %s %s" % x[:3] for x in mism[:20]], "case": m[3] if len(m) > 3 else None}, found_input=False)
    # operators (sampled)
    nfd = 0
    worst = {}
    for kind, cases, fn in (("fd", fcases, "run_fd"), ("surface", pcases, "run_surface")):
        for c, r in zip(cases, impl[kind]):
            if "error" in r:
                ctx.obligation("fd:%s" % c["id"], False, r["error"])
                ctx.violation("operator-raises:%s" % r["error"].split(":")[0], "operator evaluation raised on case %s: %s" % (c["id"], r["error"]),
                              {"replay_py": REPLAY_CASE % dict(case=json.dumps(c), fn=fn, key="__none__", tol=0), "trace": r.get("trace")}, True)
                continue
            if kind == "surface" and (r["contact:active_points"] == 0 or r["contact:min_abs_gap"] < 1e-4):
                r.pop("contact:K=-dR/du")     # kink of the Macaulay bracket within the difference step: not differentiable there
            for key, val in r.items():
                if ":" not in key or key.startswith("contact:active") or key.startswith("contact:min"):
                    continue
                tol = 1e-9 if key in ("gonzalez:R.du=dPi", "kelvinvoigt:R=C v", "pointwise:K symmetric") else FD_TOL
                nfd += 1
                worst[key.split("(")[0]] = max(worst.get(key.split("(")[0], 0.0), val)
                okv = val <= tol
                ctx.note_case("%s:%s:%s" % (key, c["elemType"], c.get("law", "")))
                if not okv:
                    ctx.obligation("fd:%s:%s" % (c["id"], key), False, "defect %.3g > %.1g" % (val, tol))
                    ctx.violation("operator:%s" % key.split("(")[0],
                                  "%s violated on %s %s: relative defect %.3g (tolerance %.1g, central differences h=%g)" % (key, c["elemType"], c.get("law", ""), val, tol, c["h"]),
                                  {"replay_py": REPLAY_CASE % dict(case=json.dumps(c), fn=fn, key=key, tol=tol), "defect": val}, True)
    ctx.obligation("corr:operators-vs-central-differences(sampled)", True, "%d tangent/residual comparisons" % nfd, n=1)
    ctx.cov["operator_fd_comparisons"] = nfd
    ctx.cov["operator_fd_worst_defect"] = worst
    # assembled Newton matrix of the simulation after setter sequences (sampled)
    nsim, worst_sim, rejected, worst_asm = 0, 0.0, {}, {}
    for c, r in zip(tcases, impl["simfd"]):
        tag = "%s/%s" % (c["kind"], c["pattern"])
        if "error" in r:
            ctx.obligation("simfd:%s" % c["id"], False, r["error"])
            ctx.violation("assembly-raises:%s" % tag, "Construct_local_matrix_system raised after the setter sequence %s: %s" % (c["ops"], r["error"]),
                          {"replay_py": REPLAY_CASE % dict(case=json.dumps(c), fn="run_simfd", key="__none__", tol=0), "trace": r.get("trace")}, True)
            continue
        if "rejected" in r:
            rejected[tag] = r["rejected"]
            legit = c["kind"] == "gonzalez" or any(op[0] == "stress" and op[1] == "gonzalez" for op in c["ops"])
            ctx.obligation("simfd:%s" % c["id"], legit, "rejected: " + r["rejected"])
            if not legit:
                ctx.violation("setter-rejects:%s" % tag, "a valid setter sequence %s is rejected: %s" % (c["ops"], r["rejected"]),
                              {"replay_py": REPLAY_CASE % dict(case=json.dumps(c), fn="run_simfd", key="__none__", tol=0)}, True)
            continue
        for key in ("sim:K same as fresh simulation", "sim:F same as fresh simulation"):
            if key in r:
                ctx.note_case("simfd-history:%s:%s" % (tag, json.dumps(c["presteps"])))
                if not r[key] <= 1e-9:
                    ctx.obligation("simfd:%s:%s" % (c["id"], key), False, "defect %.3g" % r[key])
                    ctx.violation("assembled-vs-fresh:%s" % c["kind"],
                                  "after the history %s (setters %s) Construct_local_matrix_system returns a %s that differs from the one of a fresh simulation in the same state (u_n, v_n, a_n, u_{n+1}) by %.3g relative (%s, %s)"
                                  % (c["presteps"], c["ops"], "tangent" if key.startswith("sim:K") else "residual", r[key], c["elemType"], c["law"]),
                                  {"replay_py": REPLAY_CASE % dict(case=json.dumps(c), fn="run_simfd", key=key, tol=1e-9), "defect": r[key], "presteps": c["presteps"]}, True)
        for key, tolk in (("sim:assembled K,C,M = scatter-add of element matrices", 1e-12), ("sim:assembled A.d=-dF/du_np1.d", FD_TOL)):
            if key in r:
                worst_asm[key] = max(worst_asm.get(key, 0.0), r[key])
                if not r[key] <= tolk:
                    ctx.obligation("simfd:%s:%s" % (c["id"], key), False, "defect %.3g" % r[key])
                    ctx.violation("assembled-system:%s:%s" % ("scatter" if "scatter" in key else "tangent", c["kind"]),
                                  "%s violated after the setter sequence %s (final scheme %s, stress %s, %s %s%s): relative defect %.3g (tolerance %.1g)"
                                  % (key, c["ops"], r["algo"], r["stress"], c["elemType"], c["law"], ", units " + json.dumps(c["scale"]) if c.get("scale") else "", r[key], tolk),
                                  {"replay_py": REPLAY_CASE % dict(case=json.dumps(c), fn="run_simfd", key=key, tol=tolk), "defect": r[key], "ops": c["ops"]}, True)
        val = r["sim:A=-dF/du_np1"]
        nsim += 1
        worst_sim = max(worst_sim, val)
        ctx.note_case("simfd:%s:%s:%s" % (tag, r["algo"], c["elemType"]))
        if r["columns"] == 0:
            continue
        if not val <= FD_TOL:
            ctx.obligation("simfd:%s" % c["id"], False, "defect %.3g" % val)
            ctx.violation("assembled-tangent:%s" % tag,
                          "coefK K_e + coefC C_e + coefM M_e of Construct_local_matrix_system is not the derivative of the assembled residual w.r.t. u_{n+1} "
                          "after the setter sequence %s (final scheme %s, stress %s, %s %s): relative defect %.3g (central differences h=%g, tolerance %.1g)"
                          % (c["ops"], r["algo"], r["stress"], c["elemType"], c["law"], val, c["h"], FD_TOL),
                          {"replay_py": REPLAY_CASE % dict(case=json.dumps(c), fn="run_simfd", key="sim:A=-dF/du_np1", tol=FD_TOL), "defect": val, "ops": c["ops"]}, True)
    ctx.obligation("corr:assembled-newton-matrix-vs-central-differences(sampled)", True, "%d setter sequences" % nsim, n=1)
    ctx.cov["simfd_sequences"] = nsim
    ctx.cov["simfd_worst_defect"] = worst_sim
    ctx.cov["assembled_system_worst_defect"] = worst_asm
    ctx.cov["simfd_rejected_sequences"] = rejected
    # strain-path quadrature: discrete-gradient identity per number of points (sampled)
    qworst = {}
    for c, r in zip(qcases, impl["quad"]):
        if "error" in r:
            ctx.obligation("quad:%s" % c["id"], False, r["error"])
            ctx.violation("quadrature-raises:%s" % c["law"], "TimeQuadratureStressTensor raised: %s" % r["error"],
                          {"replay_py": REPLAY_QUAD % dict(case=json.dumps(c), n=0, bound=0.0), "trace": r.get("trace")}, True)
            continue
        for npts in c["nPoints"]:
            d = r["defect"][str(npts)]
            ws = r["wsum"][str(npts)]
            qworst[npts] = max(qworst.get(npts, 0.0), d)
            # rigorous criteria only: (a) an energy quadratic in E is integrated exactly by every rule; (b) the real weights
            # sum to 1; (c) on a small step the highest rule (33 points) has converged to the discrete-gradient identity.
            # No monotonicity in nPoints is assumed (Clenshaw-Curtis errors are not monotone for non-polynomial energies).
            bound = 1e-10 if c["quadratic"] else (1e-8 if npts == max(c["nPoints"]) else float("inf"))
            ok = d <= bound and abs(ws - 1.0) <= 1e-12
            ctx.note_case("quad:%s:%d" % (c["law"], npts))
            if not ok:
                ctx.obligation("quad:%s:n=%d" % (c["id"], npts), False, "defect %.3g bound %.3g, weights sum %.15g" % (d, bound, ws))
                ctx.violation("quadrature-discrete-gradient:n=%d:%s" % (npts, "even" if npts % 2 == 0 else "odd"),
                              "quadrature stress with nPoints=%d (%s, %s): R.du differs from W1-W0 by %.3g relative (bound %.3g: %s), Clenshaw-Curtis weights sum to %.12g"
                              % (npts, c["law"], c["elemType"], d, bound, "energy quadratic in E, every rule exact" if c["quadratic"] else "small step, 33-point rule converged", ws),
                              {"replay_py": REPLAY_QUAD % dict(case=json.dumps(c), n=npts, bound=bound if bound < 1e300 else 1e300), "defect": d, "weights_sum": ws}, True)
        # adaptive path against its own acceptance contract (unless the cap of 33 points was reached)
        for tol, a in r.get("adaptive", {}).items():
            ctx.note_case("quad-adaptive:%s:%s" % (c["law"], tol))
            if a["npts"] < 33 and not a["abs_defect"] <= float(tol) * a["ref"] * (1 + 1e-6) + 1e-12 * r["scale"]:
                ctx.obligation("quad:%s:energyTol=%s" % (c["id"], tol), False, str(a))
                ctx.violation("quadrature-adaptive-tolerance:%s" % c["law"],
                              "adaptive quadrature stress (energyTol=%s, accepted with %d points < 33): |R.du - (W1-W0)| = %.3g exceeds energyTol * integral|dW| = %.3g (%s, %s)"
                              % (tol, a["npts"], a["abs_defect"], float(tol) * a["ref"], c["law"], c["elemType"]),
                              {"replay_py": REPLAY_QUAD_ADAPT % dict(case=json.dumps(c), tol=float(tol)), "adaptive": a}, True)
    ctx.obligation("corr:quadrature-discrete-gradient(sampled)", True, "nPoints %s, %d laws" % (QUAD_NPOINTS, len(qcases)), n=1)
    ctx.cov["quadrature_defect_by_nPoints"] = qworst
    # energy drift (sampled)
    drifts = {}
    for c, r in zip(dcases, impl["drift"]):
        if "error" in r:
            ctx.obligation("drift:%s" % c["id"], False, r["error"])
            ctx.violation("drift-raises:%s:%s" % (c["stress"], c.get("program_kind", "save-every-step")), "free-vibration run raised: %s" % r["error"],
                          {"replay_py": REPLAY_CASE % dict(case=json.dumps(c), fn="run_drift", key="drift", tol=DRIFT_TOL), "trace": r.get("trace")}, True)
            continue
        E = r["energies"]
        # per step: from the state before each Solve to the state after it (robust to rewinds / unsaved steps)
        d = r["step_defect"] if c.get("program") else max(abs(x - E[0]) for x in E) / abs(E[0])
        drifts[c["id"] + ":" + c["law"] + ":" + c["stress"] + (":n=%d" % c["nPoints"] if c["stress"] == "quadrature" else "") + (":" + c["program_kind"] if c.get("program_kind") else "")] = d
        # tolerances that follow from the method: gonzalez and a rule that is exact for the energy conserve to solver accuracy;
        # the adaptive rule changes the energy by at most energyTol * integral|dW| <= 2 energyTol * E0 per step unless capped at 33
        # points; a fixed rule on a non-polynomial energy promises nothing quantitative and is only recorded
        if c["stress"] == "gonzalez" or c.get("exact_rule") or (c.get("energyTol") and c["energyTol"] <= 1e-9 and r.get("npts_max", 0) < 33):
            tol = DRIFT_TOL
        else:
            tol = float("inf")
        ctx.note_case("drift:%s:%s:%s" % (c["law"], c["stress"], c["elemType"]), traces=len(E))
        nontrivial = r["umax"] > 0.05 * c["L"][1]
        ctx.obligation("drift:%s" % c["id"], d <= tol, "relative drift %.3g over %d steps (umax %.3g)" % (d, len(E) - 1, r["umax"]))
        if d > tol:
            ctx.violation("energy-drift:%s%s:%s" % (c["stress"], ":" + c["program_kind"] if c.get("program_kind") else (":even-nPoints" if c.get("exact_rule") else ""), c["law"]),
                          "kinetic + stored energy changes by %.3g (relative, worst single Solve) over %d midpoint steps with the %s stress, %s, dt=%g, step program %s (tolerance %.1g)"
                          % (d, len(E) - 1, c["stress"], c["law"], c["dt"], c.get("program_kind", "save-every-step"), tol),
                          {"replay_py": REPLAY_CASE % dict(case=json.dumps(c), fn="run_drift", key="drift", tol=tol), "energies": E[:10]}, True)
    ctx.cov["energy_drift_relative"] = drifts
    ctx.cov["newton_iterations_recorded"] = {c["id"] + ":" + c["stress"]: r.get("newton_iters") for c, r in zip(dcases, impl["drift"]) if "error" not in r}
    # thorough: model-level derivative sweep as an independent cross-check of the Coq decision
    if ctx.tier == "thorough" and proof_ok:
        found = search_inv_defects(M) + search_law_defects(ctx, M, model)
        ctx.obligation("thorough:model-derivative-sweep", not found, "agreement between the Coq decision and the 60-digit numerical sweep")
        for key, what, rep in found:
            ctx.violation("sweep-vs-coq:" + key, "numerical sweep finds a defect although the proofs passed: " + what, rep, True)
