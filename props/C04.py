"""C04 — constraints hold exactly and the returned solution solves the stated system (partial on backends).

1. build coq/lib + coq/model (EFModel.C04_Solve: ring-generic model of the known/unknown split, r1
   elimination over ANY inner solve, Lagrange bordered system, orphan diagonal, Newton increments;
   EFModel.C04_Exec: its integer instance)
2. compile coq/props/C04/C04_theorems.v (theorems over R, all sizes / all BC lists / all iterations)
3. correspondence A ("plumbing"): generated INTEGER systems and BC sets (duplicated, unordered, Neumann
   duplicates, orphan nodes, Lagrange conditions, Newton mode) pushed through the real
   Solvers.Solve_simu with the linear backend intercepted; the captured reduced / bordered systems and
   the returned vectors are compared exactly with the model (vm_compute)
4. correspondence B ("physics", sampled): real Elastic / Thermal problems with dyadic data and BC sets
   given as constants / arrays / callables, overlapping and duplicated: constrained values exact, free
   residual <= 1e-10, Lagrange-vs-elimination agreement, each installed backend; named scenarios on
   Elastic+Lagrange, HyperElastic (Newton) and Beam connections.
"""
import concurrent.futures
import json
import os
import re

from vlib import common

IMPL = os.path.join(common.VERIF, "corr", "C04_impl.py")
BACKENDS = ["cg", "bicg", "gmres", "lgmres", "lsq_linear"]
ELEM = {"SEG2": 2, "SEG3": 3, "TRI3": 3, "QUAD4": 4}


# --------------------------------------------------------------------------------------
def gen_plumb(rng, cid):
    et = rng.choice(sorted(ELEM))
    nPe = ELEM[et]
    dof_n = rng.choice([1, 1, 2, 3])
    Ne = rng.randint(1, 3)
    Nn = rng.randint(nPe, nPe + 3)
    connect = [rng.sample(range(Nn), nPe) for _ in range(Ne)]
    n_e = nPe * dof_n
    K_e = []
    for _ in range(Ne):
        for i in range(n_e):
            for j in range(n_e):
                K_e.append(rng.randint(-5, 5) + (100 if i == j else 0))
    F_e = None if rng.random() < 0.2 else [rng.randint(-9, 9) for _ in range(Ne * n_e)]
    n = Nn * dof_n
    neumann = []
    for _ in range(rng.randint(0, 2)):
        k = rng.randint(1, 3)
        neumann.append([[rng.randrange(n) for _ in range(k)], [rng.randint(-9, 9) for _ in range(k)]])
    mode = rng.choice(["r1", "r1", "r1dup", "r1dup", "r2", "r2dup", "newton", "newtondup"])
    dup = mode.endswith("dup")
    dirichlet = []
    pool = list(range(n))
    rng.shuffle(pool)
    nd = rng.randint(1, max(1, min(n - 2, 4)))
    chosen = pool[:nd]
    # split into 1..3 conditions, any order
    cuts = sorted(rng.sample(range(1, nd), min(nd - 1, rng.randint(0, 2)))) if nd > 1 else []
    parts = [chosen[a:b] for a, b in zip([0] + cuts, cuts + [nd])]
    for p in parts:
        dirichlet.append([list(p), [rng.randint(-9, 9) for _ in p]])
    if dup:
        k = rng.randint(1, 2)
        extra = [rng.choice(chosen) for _ in range(k)]
        dirichlet.insert(rng.randint(0, len(dirichlet)), [extra, [rng.randint(-9, 9) for _ in extra]])
    lagrange = []
    if mode.startswith("r2"):
        # consistent, independent multi-point conditions: disjoint sets of dofs that carry no Dirichlet entry
        free = [d for d in range(n) if d not in chosen]
        rng.shuffle(free)
        for _ in range(rng.randint(1, 2)):
            k = rng.randint(1, 3)
            if len(free) < k:
                break
            ds, free = free[:k], free[k:]
            lagrange.append([ds, [rng.choice([-2, -1, 1, 2, 3]) for _ in range(k)], rng.randint(-9, 9)])
        if not lagrange:
            mode = "r1dup" if dup else "r1" 
    nonlinear = mode.startswith("newton")
    u = [rng.randint(-9, 9) for _ in range(n)] if nonlinear else []
    answer = [rng.randint(-9, 9) for _ in range(rng.randint(3, 7))]
    scales = [rng.choice([-60, -40, -30, -27, 30, 60])] if rng.random() < 0.5 else []
    return {"id": cid, "mode": mode, "Nn": Nn, "dof_n": dof_n, "type": et, "connect": connect, "K_e": K_e, "F_e": F_e,
            "neumann": neumann, "dirichlet": dirichlet, "lagrange": lagrange, "nonlinear": nonlinear, "u": u, "answer": answer, "scales": scales}


def zl(xs):
    return "[" + ";".join(str(int(x)) for x in xs) + "]"


def zll(xss):
    return "[" + ";".join(zl(x) for x in xss) + "]"


HEADER = """From Coq Require Import ZArith List. Import ListNotations. Open Scope Z_scope.
From EFModel Require Import C03_Csr C04_Solve C04_Exec C04_Rank.
"""


def flat_bc(entries):
    dofs, vals = [], []
    for d, v in entries:
        dofs += d
        vals += v
    return dofs, vals


def bezout(cs):
    """integers r with sum(c*r) = gcd(cs)"""
    def eg(a, b):
        if b == 0:
            return (abs(a), (1 if a >= 0 else -1), 0)
        g, x, y = eg(b, a % b)
        return (g, y, x - (a // b) * y)
    g, r = 0, []
    for c in cs:
        g2, x, y = eg(g, c)
        r = [v * x for v in r] + [y]
        g = g2
    return g, r


def right_inverse(ud, lags):
    """integer right inverse of the constraint rows (Dirichlet lines on the sorted distinct dofs `ud`, then the
    multi-point rows) as sparse triples (dof, line, value); None if some row has no integer right inverse on dofs that
    no other row touches"""
    tr = [((d, k), 1) for k, d in enumerate(ud)]
    used = set(ud)
    for l, (ds, cs, _) in enumerate(lags):
        priv = [(d, c) for d, c in zip(ds, cs) if d not in used and sum(1 for x in ds if x == d) == 1]
        if len(priv) != len(ds):
            return None
        g, r = bezout([c for _, c in priv])
        if g != 1:
            return None
        tr += [((d, len(ud) + l), v) for (d, _), v in zip(priv, r) if v != 0]
        used |= set(ds)
    return tr


def emit_rank(tag, n, ud, lags, tr):
    lg = "[" + ";".join("(%s,%s,%d)" % (zl(d), zl(c), v) for d, c, v in lags) + "]"
    t = "[" + ";".join("((%d,%d),%d)" % (i, k, v) for (i, k), v in tr) + "]"
    return "Eval vm_compute in (%d, 3, rank_check %d %s %s %s).\n" % (tag, n, zl(ud), lg, t)


def emit_plumb(case, res):
    n = case["Nn"] * case["dof_n"]
    used = set(x for e in case["connect"] for x in e)
    orph = [nd * case["dof_n"] + d for nd in range(case["Nn"]) if nd not in used for d in range(case["dof_n"])]
    dN, vN = flat_bc(case["neumann"])
    dD, vD = flat_bc(case["dirichlet"])
    cid = case["id"]
    s = "Eval vm_compute in (%d, 0, check_split %d %s %s %s).\n" % (cid, n, zl(dD), zl(res["known"]), zl(res["unknown"]))
    common_args = "%d %s %s %s %s %s %s %s" % (n, zll(res["K"]), zl(res["F"]), zl(dN), zl(vN), zl(dD), zl(vD), zl(orph))
    if case["lagrange"]:
        lags = "[" + ";".join("(%s,%s,%d)" % (zl(d), zl(c), v) for d, c, v in case["lagrange"]) + "]"
        s += "Eval vm_compute in (%d, 2, check_r2 %s %s (%s, %s)).\n" % (cid, common_args, lags, zll(res["A_cap"]), zl(res["b_cap"]))
        # rank condition of C04_bordered_mpc_exists/unique on this instance's constraint rows
        ud = sorted(set(dD))
        tr = right_inverse(ud, case["lagrange"])
        if tr is not None:
            s += emit_rank(cid, n, ud, case["lagrange"], tr)
    else:
        N = len(res["unknown"])
        xi = [case["answer"][i % len(case["answer"])] for i in range(N)]
        s += "Eval vm_compute in (%d, 1, check_r1 %s %s %s %s (%s, %s, %s)).\n" % (
            cid, common_args, "true" if case["nonlinear"] else "false", zl(case["u"]), zl(xi), zll(res["A_cap"]), zl(res["b_cap"]), zl(res["x"]))
    return s


_RES = re.compile(r"=\s*\((\d+),\s*(\d),\s*([^:]*?)\)\s*:", re.S)

REPLAY = r'''
import json, sys, subprocess, os
req = json.loads(%(req)r)
here = os.environ.get("PYTHONPATH", "").split(os.pathsep)
script = [os.path.join(p, "corr", "C04_impl.py") for p in here if os.path.exists(os.path.join(p, "corr", "C04_impl.py"))][0]
p = subprocess.run([sys.executable, script], input=json.dumps(req), capture_output=True, text=True)
if p.returncode != 0:
    print(p.stderr[-2000:]); sys.exit(1)
res = json.loads(p.stdout[p.stdout.rindex("@@JSON@@") + 8:].split("\n", 1)[0])["results"][0]
bad = 0
if res.get("error"):
    print("implementation raised:", res["error"]); bad = 1
for c in res.get("checks", []):
    print(("ok   " if c["ok"] else "FAIL ") + c["name"], json.dumps(c["detail"])[:300])
    bad |= 0 if c["ok"] else 1
if res.get("scale_fail"):
    print("not homogeneous in the data (scaled twin):", json.dumps(res["scale_fail"])[:600]); bad = 1
pv = (res.get("pred") or {}).get("constrained_values")
if pv:
    print("constrained dofs do not hold the sum of the entered values: (dof, observed, expected) =", pv); bad = 1
expected = %(expected)r
if expected is not None and not bad:
    for k, v in expected.items():
        if res.get(k) != v:
            print("differs from the model prediction:", k, "observed", res.get(k), "expected", v); bad = 1
print("violation reproduces" if bad else "no violation"); sys.exit(bad)
'''


def split_obl(ctx, name, nbad, ntotal, detail=""):
    """one obligation per case: the passing cases are discharged, the failing ones are not"""
    nbad = min(nbad, ntotal)
    if ntotal - nbad > 0:
        ctx.obligation(name, True, "%d cases" % (ntotal - nbad), n=ntotal - nbad)
    if nbad > 0 or ntotal == 0:
        ctx.obligation(name, nbad == 0 and ntotal > 0, detail, n=max(1, nbad))


def run(ctx):
    ctx.assumptions += [
        "coq/model/C04_Solve.v transcribes Bc_dofs_known_unknown, __Solver_1, __Solver_2, __Solver_Get_Dirichlet_A_x and the Newton increment of _Solver_Apply_Dirichlet (checked exactly on generated integer systems with the backend intercepted, every run)",
        "the linear backends (scipy spsolve, cg, bicg, gmres, lgmres, lsq_linear) are NOT modelled: theorems assume an exact inner solve; backend agreement is sampled on small well-conditioned problems with tolerances scaled by cond(Aii)",
        "scipy csr_matrix construction sums duplicate (row, col) entries; csr/csc slicing, lil assignment (modelled, compared on every case)",
        "float arithmetic exact on the generated integer / dyadic data where equality is demanded",
    ]
    ok_static, log = ctx.ensure_static()
    if not ok_static:
        ctx.obligation("static-lib", False, log[-1500:])
        ctx.violation("static-lib-build", "coq/lib or coq/model does not build", {"log": log[-3000:]}, found_input=False)
        return
    files = ctx.copy_props("C04/C04_theorems.v")
    for extra in ("C04_unique.v", "C04_dense.v", "C04_saddle.v"):
        if os.path.exists(os.path.join(common.COQ, "props", "C04", extra)):
            files += ctx.copy_props("C04/" + extra)
    r = ctx.coq(files, timeout=600)
    ctx.sample({"theorem": "C04_r1_residual: forall n dofs values A b xi, (forall i in unknown, sum_{j in unknown} A i j * xi j = b i - sum_{c in known} A i c * entered_sum dofs values c) -> forall i in unknown, sum_{j<n} A i j * x_r1 j = b i",
                "proof": "split of the sum over range(n) by the mask filter; ring"})
    if not r.ok:
        ctx.violation("proof-broken:" + str(r.failed_file), "theorem file %s no longer checks" % r.failed_file,
                      {"obligation": r.failed_file, "log": r.log[-3000:]}, found_input=False)
    plumbing(ctx)
    physics(ctx)


# --------------------------------------------------------------------------------------
def call_impl(ctx, mode, cases, nchunk=4):
    chunks = [cases[i::nchunk] for i in range(nchunk) if cases[i::nchunk]]

    def one(chunk):
        return ctx.impl_python(IMPL, input=json.dumps({"mode": mode, "cases": chunk}), timeout=1500)
    results = {}
    with concurrent.futures.ThreadPoolExecutor(nchunk) as ex:
        for rc, out, err in ex.map(one, chunks):
            if rc != 0:
                return None, err
            for res in json.loads(out[out.rindex("@@JSON@@") + 8:].split("\n", 1)[0])["results"]:
                results[res["id"]] = res
    return results, ""


def plumbing(ctx):
    rng = ctx.rng
    ncases = 240 if ctx.tier == "quick" else 2400
    cases = [gen_plumb(rng, i) for i in range(ncases)]
    byid = {c["id"]: c for c in cases}
    results, err = call_impl(ctx, "plumb", cases)
    if results is None:
        ctx.obligation("corrA:impl-run", False, err[-1500:])
        ctx.violation("corrA:impl-crash", "implementation-side harness failed: " + (err.strip().splitlines()[-1][:300] if err.strip() else "?"), {"stderr": err[-3000:]}, found_input=False)
        return
    ctx.log("plumbing: implementation ran %d cases" % len(results))
    # --- property predicate on the implementation itself
    reported = set()
    pred_bad = {}
    errors = []
    for cid, res in sorted(results.items()):
        case = byid[cid]
        if res.get("error"):
            errors.append((cid, res["error"]))
            continue
        pv = res["pred"]["constrained_values"]
        if pv:
            key = {"newton": "newton-incremental-duplicate-dirichlet", "newtondup": "newton-incremental-duplicate-dirichlet",
                   "r2dup": "lagrange-duplicate-dirichlet", "r2": "lagrange-constraints", "r1": "r1-constraints", "r1dup": "r1-constraints"}[case["mode"]]
            if key == "lagrange-duplicate-dirichlet" and not any(isinstance(t[1], float) and t[1] != t[1] for t in pv):
                key = "lagrange-constraints"     # wrong values, not the singular (NaN) system of a duplicated dof
            pred_bad.setdefault(key, []).append((cid, pv))
    for key, lst in pred_bad.items():
        cid, pv = lst[0]
        case = byid[cid]
        what = {"newton-incremental-duplicate-dirichlet": "Newton increment: a Dirichlet dof entered twice does not reach the sum of its entered values after the update (u[dofs] is subtracted once per entry, then the entries are summed)",
                "lagrange-duplicate-dirichlet": "Lagrange path (__Solver_2): a Dirichlet dof entered twice gets two identical multiplier lines, the bordered matrix is singular and the solution is NaN",
                }.get(key, "constrained dofs do not hold the sum of the entered values")
        ctx.violation(key, "%s; plumbing case %d (%s): (dof, observed, expected) = %s; %d cases" % (what, cid, case["mode"], pv[:2], len(lst)),
                      {"replay_py": REPLAY % dict(req=json.dumps({"mode": "plumb", "cases": [case]}), expected=None), "case": case}, found_input=True)
        reported.add(key)
    sc_bad = [(cid, res["scale_fail"]) for cid, res in sorted(results.items()) if not res.get("error") and res.get("scale_fail")]
    nsc = sum(1 for c in cases if c["scales"])
    split_obl(ctx, "corrA:scaled-twins-exactly-homogeneous", len(sc_bad), nsc, "; ".join("%d %s" % (c, f[0]["what"]) for c, f in sc_bad[:3]))
    ctx.cov["plumbing_scaled_twins"] = nsc
    if sc_bad:
        cid, f = sc_bad[0]
        ctx.violation("scale-dependence:" + byid[cid]["mode"].replace("dup", ""), "plumbing case %d (%s) with every prescribed value, load and backend answer multiplied by 2^%d: %s (%s); %d cases. The solve is homogeneous of degree 1 in the data (C04_r1_homogeneous): an absolute threshold has entered" % (
                      cid, byid[cid]["mode"], f[0]["k"], f[0]["what"], json.dumps({k: v for k, v in f[0].items() if k not in ("k", "what")}), len(sc_bad)),
                      {"replay_py": REPLAY % dict(req=json.dumps({"mode": "plumb", "cases": [byid[cid]]}), expected=None), "case": byid[cid]}, found_input=True)
    for cid, e in errors[:2]:
        ctx.violation("plumbing-raises", "plumbing case %d (%s) raised %s" % (cid, byid[cid]["mode"], e),
                      {"replay_py": REPLAY % dict(req=json.dumps({"mode": "plumb", "cases": [byid[cid]]}), expected=None), "case": byid[cid], "trace": results[cid].get("trace")}, found_input=True)
    nbadpred = sum(len(v) for v in pred_bad.values())
    split_obl(ctx, "corrA:impl-constrained-dofs-hold-summed-values", nbadpred + len(errors), len(results),
              "%d cases fail (%s); %d raised" % (nbadpred, ", ".join(sorted(pred_bad)), len(errors)))
    # --- model comparison
    ids = [i for i in sorted(results) if not results[i].get("error")]
    per_file = 80
    files = []
    for k in range(0, len(ids), per_file):
        files.append(("casesA_%03d.v" % (k // per_file), HEADER + "".join(emit_plumb(byid[i], results[i]) for i in ids[k:k + per_file])))

    def run_coq(fb):
        return fb[0], ctx.coq_eval(fb[0], fb[1], timeout=900)
    verdict = {}
    with concurrent.futures.ThreadPoolExecutor(4) as ex:
        for fname, (rc, out) in ex.map(run_coq, files):
            if rc != 0:
                ctx.obligation("corrA:model-eval:" + fname, False, out[-1500:])
                ctx.violation("corrA:model-eval", "generated cases file %s does not compile" % fname, {"log": out[-3000:]}, found_input=False)
                return
            for m in _RES.finditer(out):
                cid, kind = int(m.group(1)), int(m.group(2))
                verdict.setdefault(cid, {})[kind] = [t == "true" for t in re.findall(r"true|false", m.group(3))]
    ctx.checker_cmds.append("coqc -Q coq/lib EFLib -Q coq/model EFModel build/C04/casesA_*.v (Eval vm_compute in check_split / check_r1 / check_r2 ...)")
    missing = [i for i in ids if i not in verdict or 0 not in verdict[i] or (1 not in verdict[i] and 2 not in verdict[i])]
    ctx.obligation("corrA:all-cases-evaluated", not missing, "missing %s" % missing[:5])
    mism = {}
    for i in ids:
        v = verdict.get(i, {})
        case = byid[i]
        if 0 in v and not all(v[0]):
            mism.setdefault("split", []).append(i)
        if 1 in v and not all(v[1]):
            parts = [nm for nm, okk in zip(("Aii", "bi", "x"), v[1]) if not okk]
            mism.setdefault("r1:" + case["mode"] + ":" + "+".join(parts), []).append(i)
        if 2 in v and not all(v[2]):
            parts = [nm for nm, okk in zip(("A", "b"), v[2]) if not okk]
            mism.setdefault("r2:" + case["mode"] + ":" + "+".join(parts), []).append(i)
    rank_cases = [i for i in ids if 3 in verdict.get(i, {})]
    rank_bad = [i for i in rank_cases if not all(verdict[i][3])]
    split_obl(ctx, "corrA:rank-condition-right-inverse-checked", len(rank_bad), len(rank_cases), "cases %s" % rank_bad[:5])
    ctx.cov["rank_condition_instances_plumbing"] = len(rank_cases)
    ctx.cov["lagrange_cases_without_integer_right_inverse"] = sum(1 for i in ids if byid[i]["lagrange"]) - len(rank_cases)
    if rank_bad:
        ctx.violation("corrA:rank-check", "the integer right inverse built for the constraint rows of plumbing case %d does not pass rank_check (harness/model disagreement on the row layout)" % rank_bad[0],
                      {"case": byid[rank_bad[0]]}, found_input=False)
    nmis = sum(len(v) for v in mism.values())
    split_obl(ctx, "corrA:captured-systems-equal-model", len({i for v in mism.values() for i in v}), len(ids), "; ".join("%s: %d cases" % (k, len(v)) for k, v in sorted(mism.items())))
    for k, lst in sorted(mism.items()):
        case = byid[lst[0]]
        # mismatches explained by an already reported genuine defect are not reported twice
        if (case["mode"] in ("newtondup",) and "newton-incremental-duplicate-dirichlet" in reported) or \
           (case["mode"] == "r2dup" and "lagrange-duplicate-dirichlet" in reported):
            continue
        ctx.violation("corrA:model-vs-impl:" + k.split(":")[0] + ":" + case["mode"],
                      "plumbing case %d (%s): the captured %s differs from the model although the constrained dofs of this case hold their values; the model tie no longer checks (%d cases)" % (lst[0], case["mode"], k, len(lst)),
                      {"case": case, "impl": results[lst[0]], "replay_py": REPLAY % dict(req=json.dumps({"mode": "plumb", "cases": [case]}), expected=None)}, found_input=False)
    dist = {}
    for c in cases:
        dist[c["mode"]] = dist.get(c["mode"], 0) + 1
        ndup = len(flat_bc(c["dirichlet"])[0]) - len(set(flat_bc(c["dirichlet"])[0]))
        ctx.note_case("A:%d:%s:%d" % (c["id"], c["mode"], ndup))
    ctx.cov["plumbing_modes"] = dist
    ctx.cov["plumbing_cases"] = len(results)
    ex = cases[0]
    ctx.sample({"plumbing_case": {k: ex[k] for k in ("mode", "Nn", "dof_n", "type", "connect", "neumann", "dirichlet", "lagrange", "nonlinear", "u", "answer")}})


# --------------------------------------------------------------------------------------
def dy(rng, lo=-8, hi=8, den=16):
    return rng.randint(lo, hi) / den


def gen_value(rng, nodes):
    r = rng.random()
    if r < 0.4:
        return {"kind": "const", "v": dy(rng)}
    if r < 0.7:
        return {"kind": "array", "v": [dy(rng) for _ in nodes]}
    return {"kind": "func", "abc": [dy(rng, -4, 4, 8), dy(rng, -4, 4, 8), dy(rng)]}


def gen_phys(rng, cid, tier):
    kind = rng.choice(["elastic", "thermal"])
    elem = rng.choice(["QUAD4", "TRI3"])
    nx, ny = rng.randint(2, 3), rng.randint(1, 2)
    orphans = rng.choice([0, 0, 0, 1, 2])
    unk = ["x", "y"] if kind == "elastic" else ["t"]
    node = lambda i, j: j * (nx + 1) + i
    left = [node(0, j) for j in range(ny + 1)]
    right = [node(nx, j) for j in range(ny + 1)]
    bottom = [node(i, 0) for i in range(nx + 1)]
    top = [node(i, ny) for i in range(nx + 1)]
    dirichlet = [{"nodes": left, "unknowns": list(unk), "values": [{"kind": "const", "v": 0.0} for _ in unk]}]
    # further conditions: overlapping sets, subsets, duplicates, any order
    for _ in range(rng.randint(1, 3)):
        base = rng.choice([right, bottom, top, left])
        nodes = list(base) if rng.random() < 0.5 else rng.sample(base, rng.randint(1, len(base)))
        rng.shuffle(nodes)
        us = rng.sample(unk, rng.randint(1, len(unk)))
        dirichlet.append({"nodes": nodes, "unknowns": us, "values": [gen_value(rng, nodes) for _ in us]})
    rng.shuffle(dirichlet)
    neumann = []
    for _ in range(rng.randint(0, 2)):
        nodes = rng.sample(range((nx + 1) * (ny + 1) + orphans), rng.randint(1, 3))
        us = rng.sample(unk, 1)
        neumann.append({"nodes": nodes, "unknowns": us, "values": [gen_value(rng, nodes)]})
    backends = []
    if rng.random() < (0.35 if tier == "quick" else 0.5):
        backends = ["cg", "bicg", "gmres", "lgmres", "lsq_linear"]
    lag_as = rng.randrange(len(dirichlet)) if rng.random() < 0.5 else None
    scales = [[rng.choice([-60, -40, -30, -27, 30]), rng.choice([0, 0, 20, -20, 40])]] if rng.random() < 0.6 else []
    return {"id": cid, "kind": kind, "elem": elem, "nx": nx, "ny": ny, "orphans": orphans, "dirichlet": dirichlet,
            "neumann": neumann, "backends": backends, "lag_as": lag_as, "scales": scales}


def gen_multi(rng, cid):
    """several solves on one simulation object with boundary-condition changes in between"""
    kind = rng.choice(["elastic", "thermal"])
    elem = rng.choice(["QUAD4", "TRI3"])
    nx, ny = rng.randint(2, 4), rng.randint(2, 3)
    unk = ["x", "y"] if kind == "elastic" else ["t"]
    allnodes = list(range((nx + 1) * (ny + 1)))

    def conds(k1, k2, us2):
        nodes = rng.sample(allnodes, k1 + k2)
        a, b = nodes[:k1], nodes[k1:]
        return [{"nodes": a, "unknowns": list(unk), "values": [{"kind": "const", "v": 0.0} for _ in unk]},
                {"nodes": b, "unknowns": us2, "values": [gen_value(rng, b) for _ in us2]}]
    k1, k2 = rng.randint(2, 3), rng.randint(1, 3)
    us2 = rng.sample(unk, 1)
    first = conds(k1, k2, us2)
    load = [{"nodes": rng.sample(allnodes, 2), "unknowns": rng.sample(unk, 1), "values": [{"kind": "const", "v": dy(rng)}]}]
    stages = [{"kind": "first", "bc_init": False, "dirichlet": first, "neumann": load}]
    cur = first
    for _ in range(rng.randint(2, 4)):
        k = rng.choice(["reinit-other-nodes-equal-counts", "reinit-other-nodes-equal-counts", "reinit-values-only", "add-condition"])
        if k == "reinit-other-nodes-equal-counts":
            cur = conds(k1, k2, us2)          # same number of conditions and entries, other nodes
            stages.append({"kind": k, "bc_init": True, "dirichlet": cur, "neumann": load})
        elif k == "reinit-values-only":
            cur = [cur[0], {"nodes": cur[1]["nodes"], "unknowns": cur[1]["unknowns"], "values": [gen_value(rng, cur[1]["nodes"]) for _ in cur[1]["unknowns"]]}] + cur[2:]
            stages.append({"kind": k, "bc_init": True, "dirichlet": cur, "neumann": load})
        else:
            b = rng.sample(allnodes, rng.randint(1, 2))
            extra = {"nodes": b, "unknowns": rng.sample(unk, 1), "values": [gen_value(rng, b)]}
            cur = cur + [extra]
            stages.append({"kind": k, "bc_init": False, "dirichlet": [extra], "neumann": []})
    return {"id": cid, "kind": kind, "elem": elem, "nx": nx, "ny": ny, "orphans": 0, "stages": stages}


SPECIAL_KEYS = {
    "r2:duplicate-dirichlet-holds-sum": "lagrange-duplicate-dirichlet",
    "r2:mpc-holds": "lagrange-duplicate-dirichlet",
    "newton:duplicate-dirichlet-holds-sum": "newton-incremental-duplicate-dirichlet",
    "beam:solution-finite": "lagrange-duplicate-dirichlet",
}


def physics(ctx):
    rng = ctx.rng
    ncases = 40 if ctx.tier == "quick" else 300
    cases = [gen_phys(rng, i, ctx.tier) for i in range(ncases)]
    results, err = call_impl(ctx, "phys", cases)
    if results is None:
        ctx.obligation("corrB:impl-run", False, err[-1500:])
        ctx.violation("corrB:impl-crash", "physics harness failed: " + (err.strip().splitlines()[-1][:300] if err.strip() else "?"), {"stderr": err[-3000:]}, found_input=False)
        return
    special = [{"id": 0, "scenario": "elastic-lagrange-duplicate", "v1": 0.5, "v2": 0.25},
               {"id": 1, "scenario": "elastic-lagrange-duplicate", "v1": dy(rng), "v2": 0.0},
               {"id": 2, "scenario": "hyperelastic-newton-duplicate", "v1": 0.125, "v2": 0.0},
               {"id": 3, "scenario": "hyperelastic-newton-duplicate", "v1": 0.0625, "v2": 0.0625},
               {"id": 4, "scenario": "beam-connection", "F": 0.5},
               {"id": 5, "scenario": "beam-connection", "F": 0.25, "duplicate": True},
               # problems WITH Lagrange conditions, every installed backend configured on the simulation
               {"id": 6, "scenario": "beam-connection-backends", "nel": 100, "F": 0.5, "elem": "SEG3", "backends": BACKENDS},
               {"id": 7, "scenario": "beam-connection-backends", "nel": rng.choice([60, 80, 120]), "F": dy(rng, 1, 8), "elem": rng.choice(["SEG2", "SEG3"]), "backends": BACKENDS},
               # every kind of simulation (incl. the two-field PhaseField one, both problems) on meshes WITH orphan nodes
               {"id": 9, "scenario": "orphan-nodes", "kind": "phasefield", "nx": rng.randint(3, 5), "ny": rng.randint(2, 3), "elem": "TRI3", "orphans": rng.randint(1, 3),
                "split": "Amor", "regu": "AT2", "loads": [0.0625, 0.125]},
               {"id": 10, "scenario": "orphan-nodes", "kind": "phasefield", "nx": rng.randint(2, 4), "ny": rng.randint(2, 3), "elem": rng.choice(["TRI3", "QUAD4"]), "orphans": rng.randint(1, 2),
                "split": rng.choice(["Bourdin", "Amor", "Miehe"]), "regu": rng.choice(["AT1", "AT2"]), "loads": [dy(rng, 1, 4)], "damage_bc": rng.random() < 0.5},
               {"id": 11, "scenario": "orphan-nodes", "kind": "hyperelastic", "orphans": rng.randint(1, 2), "v1": dy(rng, 1, 3)},
               {"id": 12, "scenario": "orphan-nodes", "kind": "beam", "orphans": rng.randint(1, 2), "F": dy(rng, 1, 8), "connection": True},
               {"id": 13, "scenario": "orphan-nodes", "kind": "beam", "orphans": rng.randint(1, 2), "F": dy(rng, 1, 8)},
               {"id": 8, "scenario": "elastic-mpc-backends", "nx": rng.randint(6, 10), "ny": rng.randint(4, 6), "v1": dy(rng, 1, 8), "v2": dy(rng), "backends": BACKENDS}]
    sres, err = call_impl(ctx, "special", special, nchunk=4)
    if sres is None:
        ctx.obligation("corrB:special-run", False, err[-1500:])
        ctx.violation("corrB:impl-crash", "special-scenario harness failed: " + (err.strip().splitlines()[-1][:300] if err.strip() else "?"), {"stderr": err[-3000:]}, found_input=False)
        return
    mcases = [gen_multi(rng, i) for i in range(30 if ctx.tier == "quick" else 200)]
    mres, err = call_impl(ctx, "multi", mcases)
    if mres is None:
        ctx.obligation("corrB:multi-run", False, err[-1500:])
        ctx.violation("corrB:impl-crash", "multi-solve harness failed: " + (err.strip().splitlines()[-1][:300] if err.strip() else "?"), {"stderr": err[-3000:]}, found_input=False)
        return
    ctx.log("physics: %d generated problems, %d named scenarios, %d multi-solve histories (%d solves)" % (len(results), len(sres), len(mres), sum(len(c["stages"]) for c in mcases)))
    # rank condition on the real connection rows (Beam add_connection_* / MPC scenarios): integer right inverse checked by vm_compute
    body, nrows = HEADER, 0
    for cid, res in sorted(sres.items()):
        rows = res.get("rows")
        if not rows:
            continue
        ud = sorted(set(rows["dirichlet"]))
        tr = right_inverse(ud, rows["lagrange"])
        if tr is not None:
            body += emit_rank(cid, rows["n"], ud, rows["lagrange"], tr)
            nrows += 1
    if nrows:
        rc, out = ctx.coq_eval("casesB_rank.v", body, timeout=600)
        oks = [all(t == "true" for t in re.findall(r"true|false", m.group(3))) for m in _RES.finditer(out)] if rc == 0 else []
        split_obl(ctx, "corrB:rank-condition-on-connection-rows", nrows - sum(oks), nrows, out[-500:] if rc else "")
        if rc != 0 or not all(oks) or len(oks) != nrows:
            ctx.violation("corrB:rank-check", "rank_check fails on the constraint rows of a Beam connection / MPC scenario", {"log": out[-2000:]}, found_input=False)
    ctx.cov["rank_condition_instances_real_rows"] = nrows
    byid = {c["id"]: c for c in cases}
    fails = {}
    nchecks = 0
    names = {}
    for mode, rs, cs in (("phys", results, byid), ("special", sres, {c["id"]: c for c in special}), ("multi", mres, {c["id"]: c for c in mcases})):
        for cid, res in sorted(rs.items()):
            case = cs[cid]
            if res.get("error"):
                fails.setdefault(("%s-raises" % mode) + (":" + case.get("scenario", case.get("kind", ""))), []).append((mode, case, {"name": "raises", "detail": res["error"]}))
                continue
            for c in res["checks"]:
                nchecks += 1
                base = re.sub(r"^(backend|lagrange-backends):[a-z_]+:", r"\1:", c["name"])
                base = re.sub(r"^multi:stage\d+:", "multi:", base)
                base = re.sub(r":step\d+:", ":", base)
                names[base] = names.get(base, 0) + 1
                if not c["ok"]:
                    key = SPECIAL_KEYS.get(c["name"]) if mode == "special" else None
                    if key is None and re.match(r"backend:[a-z_]+:runs$", c["name"]):
                        key = "backend-raises:" + c["name"].split(":")[1]
                    if key is None and c["name"].startswith("lagrange-backends:"):
                        key = "lagrange-backend:" + c["name"].split(":")[1]
                    if key is None and c["name"].startswith("scaled-twin:"):
                        key = "scale-dependence:physics:" + c["name"].split(":")[1]
                    if key is None and c["name"].startswith("orphans:"):
                        key = "orphan-nodes:" + c["name"].split(":")[1] + ":" + c["name"].split(":")[-1]
                    if key is None and c["name"].startswith("multi:"):
                        key = "multi-solve:" + c["name"].split(":")[3]
                    if key is None and re.match(r"backend:[a-z_]+:agrees-with-direct$", c["name"]):
                        key = "backend-disagrees:" + c["name"].split(":")[1]
                    if key is None:
                        key = "phys:" + c["name"] + ":" + case.get("kind", case.get("scenario", ""))
                    fails.setdefault(key, []).append((mode, case, c))
            ctx.note_case("B:%s:%d:%s" % (mode, cid, case.get("kind", case.get("scenario"))), traces=1)
    split_obl(ctx, "corrB:property-predicates-on-real-problems", sum(len(v) for v in fails.values()), max(nchecks, sum(len(v) for v in fails.values())),
              "; ".join("%s: %d" % (k, len(v)) for k, v in sorted(fails.items())))
    already = {v["key"] for v in ctx.violations}
    for key, lst in sorted(fails.items()):
        mode, case, c = lst[0]
        if key in already:
            # same genuine defect already reported with a plumbing failing input: add nothing
            continue
        ctx.violation(key, "%s on %s: %s %s (%d failing checks)" % (c["name"], case.get("scenario", "%s %s %dx%d" % (case.get("kind"), case.get("elem"), case.get("nx", 0), case.get("ny", 0))), "observed/expected", json.dumps(c["detail"])[:300], len(lst)),
                      {"replay_py": REPLAY % dict(req=json.dumps({"mode": mode, "cases": [case]}), expected=None), "case": case, "check": c}, found_input=True)
    ctx.cov["physics_checks"] = names
    ctx.cov["physics_problems"] = len(results)
    ctx.cov["multi_solve_histories"] = len(mres)
    stage_kinds = {}
    for c in mcases:
        for st in c["stages"]:
            stage_kinds[st["kind"]] = stage_kinds.get(st["kind"], 0) + 1
    ctx.cov["multi_solve_stage_kinds"] = stage_kinds
    ctx.cov["lagrange_backend_scenarios"] = [{k: c[k] for k in c if k != "backends"} for c in special if "backends" in c]
    ctx.cov["backends_sampled"] = sorted({b for c in cases for b in c["backends"]})
    ctx.cov["backend_cases"] = sum(1 for c in cases if c["backends"])
    ctx.cov["rule"] = "A: integer systems through the real solver plumbing, distinct by (case, mode, #duplicate dofs); B: real Elastic/Thermal problems and named scenarios, one trace per problem; all choices from ctx.rng"
    ctx.sample({"physics_case": cases[0]})
