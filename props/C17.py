"""C17 - phase-field splits partition stress and energy; spectral projectors; history never decreases.

1. translator/splits.py regenerates Gen_Splits.v from ctx.repo (split branches as terms of an
   abstract matrix algebra, Rp/Rm, 2-D eigen formulas, 3-D Sylvester formulas, reaction/source/
   degradation, history / damage update rules).
2. coq/props/C17/*.v are compiled against it (each file separately, so one broken obligation does
   not hide the others).
3. correspondence: corr/C17_splits.py (Calc_C / Calc_Sigma_e_pg / Calc_psi_e_pg / eigen routine on
   generic and degenerate strain states, pure and mixed elements, all materials x splits x
   regularisations) and corr/C17_stagger.py (load/unload histories, 3 irreversibility solvers).
   They are also the search: every failure is a concrete input with an executable replay.
4. a theorem file that no longer compiles without any concrete failing input is reported as
   `no-failing-input-found`.
"""
import json
import os

from translator import splits as T
from translator.pyexpr import TranslateError

HERE = os.path.dirname(os.path.dirname(os.path.abspath(__file__)))

THEOREM_FILES = ["C17_splits.v", "C17_proj.v", "C17_assembly3d.v", "C17_scale.v", "C17_assembly.v", "C17_degenerate3d.v", "C17_miehe2d.v",
                 "C17_generic3d.v", "C17_trig3d.v", "C17_trig3d_end_to_end.v",
                 "C17_history.v", "C17_history_damage.v"]
# compile-order dependencies between the theorem files (all need Gen_Splits.v)
DEPS = {"C17_scale.v": ["C17_proj.v"], "C17_assembly.v": ["C17_scale.v"], "C17_degenerate3d.v": ["C17_proj.v"],
        "C17_miehe2d.v": ["C17_assembly.v", "C17_splits.v"], "C17_generic3d.v": ["C17_proj.v", "C17_assembly3d.v"],
        "C17_trig3d_end_to_end.v": ["C17_generic3d.v", "C17_trig3d.v"]}
# which concrete-failure key prefixes "explain" a broken theorem file
RELATED = {
    "C17_splits.v": ("partition:", "law:"),
    "C17_proj.v": ("eig:2d", "nonfinite:2d", "eig:3d:generic", "proj:2d"),
    "C17_scale.v": ("scale-invariance:",),
    "C17_assembly.v": ("proj:2d", "eig:2d", "scale-invariance:2d", "nonfinite:2d"),
    "C17_miehe2d.v": ("proj:2d", "partition:2d", "scale-invariance:2d", "eig:2d"),
    "C17_assembly3d.v": ("proj:3d", "scale-invariance:3d", "nonfinite:3d"),
    "C17_trig3d.v": ("eig:3d", "nonfinite:3d"),
    "C17_trig3d_end_to_end.v": ("eig:3d", "proj:3d", "nonfinite:3d"),
    "C17_generic3d.v": ("proj:3d", "eig:3d", "scale-invariance:3d", "nonfinite:3d"),
    "C17_degenerate3d.v": ("eig:3d", "proj:3d", "nonfinite:3d", "scale-invariance:3d"),
    "C17_history.v": ("history-", "damage-decreases:BoundConstrain", "damage-without-load", "damage-imposed-lost:BoundConstrain", "unit-change:"),
    "C17_history_damage.v": ("damage-decreases:HistoryDamage", "damage-not-stored:HistoryDamage", "damage-imposed-lost:HistoryDamage"),
    # the translator is fail-closed on any unrecognised statement: any NEW concrete failing input explains it
    "Gen_Splits.v": ("",),
}

REPLAY_SPLIT = r'''
import sys, json, warnings
import numpy as np
warnings.filterwarnings("ignore"); np.seterr(all="ignore")
from EasyFEA.Models.Elastic import Isotropic, TransverselyIsotropic, Anisotropic
from EasyFEA.Models._phasefield import PhaseField
from EasyFEA.FEM import FeArray
D = json.loads(%(data)r)
p = D["material"]
if p["kind"] == "iso":
    mat = Isotropic(2, E=p["E"], v=p["v"], planeStress=p["planeStress"]) if p["dim"] == 2 else Isotropic(3, E=p["E"], v=p["v"])
elif p["kind"] == "ti":
    kw = dict(El=p["El"], Et=p["Et"], Gl=p["Gl"], vl=p["vl"], vt=p["vt"], axis_l=(1, 0, 0), axis_t=(0, 1, 0))
    if p["dim"] == 2: kw["planeStress"] = p["planeStress"]
    mat = TransverselyIsotropic(p["dim"], **kw)
else:
    mat = Anisotropic(p["dim"], np.array(p["C"]), False)
split, kind, gp = D["split"], D["kind"], D["gp"]
pfm = PhaseField(mat, split, D["regu"], 1.0, 0.1)
eps = np.array([D["eps_elem"]])           # one element, its Gauss points (classes: %(classes)s)
dim = mat.dim; n = eps.shape[-1]; C = np.asarray(mat.C); s2 = np.sqrt(2.0)
def to_mat(v):
    if len(v) == 3: return np.array([[v[0], v[2]/s2], [v[2]/s2, v[1]]])
    return np.array([[v[0], v[5]/s2, v[4]/s2], [v[5]/s2, v[1], v[3]/s2], [v[4]/s2, v[3]/s2, v[2]]])
cP, cM = pfm.Calc_C(FeArray.asfearray(eps.copy()))
SP, SM = pfm.Calc_Sigma_e_pg(FeArray.asfearray(eps.copy()))
pP, pM = pfm.Calc_psi_e_pg(FeArray.asfearray(eps.copy()))
cP = np.broadcast_to(np.asarray(cP), (1, eps.shape[1], n, n))[0, gp]; cM = np.broadcast_to(np.asarray(cM), (1, eps.shape[1], n, n))[0, gp]
SP, SM, pP, pM = np.asarray(SP)[0, gp], np.asarray(SM)[0, gp], np.asarray(pP)[0, gp], np.asarray(pM)[0, gp]
x = eps[0, gp]; sig = C @ x
print("material", D["matname"], "split", split, "Gauss point", gp, "of an element with classes", D["classes"])
print("strain (Kelvin-Mandel)", x.tolist())
fin = all(np.isfinite(a).all() for a in (cP, cM, SP, SM, pP, pM))
print("finite:", fin)
bad = False
if kind in ("nonfinite", "eig-nonfinite", "proj-nonfinite"):
    bad = not fin
if fin:
    errC = np.linalg.norm(cP + cM - C) / np.linalg.norm(C)
    print("|cP + cM - C| / |C| =", errC, "(expected <= 1e-9);  psi+ + psi- =", float(pP + pM), " eps.C.eps/2 =", float(0.5 * x @ sig))
    if kind == "partition":
        bad = errC > 1e-9 or np.linalg.norm(SP + SM - sig) > 1e-9 * np.linalg.norm(C) * np.linalg.norm(x) or abs(pP + pM - 0.5 * x @ sig) > 1e-9 * np.linalg.norm(C) * (x @ x)
if kind == "scale-invariance" and fin:
    sc = D["extra"]["scale"]
    SP2, _ = pfm.Calc_Sigma_e_pg(FeArray.asfearray(eps.copy() * sc)); pP2, _ = pfm.Calc_psi_e_pg(FeArray.asfearray(eps.copy() * sc))
    SP2, pP2 = np.asarray(SP2)[0, gp], np.asarray(pP2)[0, gp]
    nC, nx = np.linalg.norm(C), np.linalg.norm(x)
    hs = np.linalg.norm(SP2 - sc * SP) if np.isfinite(SP2).all() else np.inf
    hp = abs(pP2 - sc * sc * pP) if np.isfinite(pP2) else np.inf
    print("s =", sc, " |eps| =", nx, " |s eps| =", sc * nx)
    print("Sigma+(eps) * s =", (sc * SP).tolist()); print("Sigma+(s eps)   =", SP2.tolist())
    print("|Sigma+(s eps) - s Sigma+(eps)| / (|C||s eps|) =", hs / (nC * nx * sc), " |psi+(s eps) - s^2 psi+(eps)| / (|C||s eps|^2) =", hp / (nC * nx * nx * sc * sc), "(expected <= 1e-9)")
    bad = not (max(hs / (nC * nx * sc), hp / (nC * nx * nx * sc * sc)) <= 1e-9)
fam = "He" if split == "He" else "stress" if (split in ("Stress", "Zhang") or "Stress" in split) else "strain" if (split == "Miehe" or "Strain" in split) else "none"
if fam != "none":
    T = C if fam == "stress" else mat.Get_sqrt_C_S()[0] if fam == "He" else np.eye(n)
    vec = np.einsum("ij,epj->epi", T, eps)
    A = to_mat(vec[0, gp]); w, V = np.linalg.eigh(A); Pref = (V * np.maximum(w, 0)) @ V.T; nA = np.linalg.norm(A)
    tol = 1e-9 if D["classes"][gp] == "generic" else 1e-6
    vals, lm, lM = pfm._Eigen_values_vectors_projectors(FeArray.asfearray(vec.copy()))
    lam = np.asarray(vals)[0, gp]; Ms = [np.asarray(M)[0, gp] for M in lM]
    print("decomposed tensor", A.tolist()); print("eigenvalues (implementation)", lam.tolist(), " numpy.linalg.eigh", w.tolist())
    okf = np.isfinite(lam).all() and all(np.isfinite(M).all() for M in Ms)
    if kind == "eig-nonfinite": bad = not okf
    if okf:
        e1 = np.linalg.norm(np.sort(lam) - w); e3 = np.linalg.norm(sum(l * M for l, M in zip(lam, Ms)) - A)
        e4 = np.linalg.norm(sum(max(l, 0) * M for l, M in zip(lam, Ms)) - Pref); e2 = np.linalg.norm(sum(Ms) - np.eye(dim))
        print("|dlambda| =", e1, " |sum l_i M_i - A| =", e3, " |sum <l_i>+ M_i - A+(eigh)| =", e4, " (tolerance", tol * nA, ")")
        if kind == "eig": bad = e1 > tol * nA or e3 > tol * nA or e4 > tol * nA or e2 > 1e-9
    PP, PM = getattr(pfm, "_PhaseField__Spectral_Decomposition")(FeArray.asfearray(vec.copy()))
    PP = np.asarray(PP)[0, gp]
    if np.isfinite(PP).all():
        e5 = np.linalg.norm(to_mat(PP @ vec[0, gp]) - Pref)
        print("|projP v - v+(eigh)| =", e5, " (tolerance", tol * nA, ")")
        if kind in ("proj", "sigma-plus"): bad = e5 > tol * nA
    elif kind in ("proj", "sigma-plus", "proj-nonfinite"):
        bad = True
print("VIOLATION reproduced" if bad else "not reproduced")
sys.exit(1 if bad else 0)
'''

REPLAY_LAW = r'''
import sys, json
print("hypothesis of the Coq partition theorems violated by the implementation:", %(what)r)
print("re-run: ./check C17  (law checks are part of corr/C17_splits.py: check_laws)")
import subprocess, os
inp = json.dumps({"seed": 1, "tier": "quick", "only": {"split": "none"}})
sys.path.insert(0, %(here)r)
from corr import C17_splits as H
import random
f = H.Fail(); st = dict(cases=0, by_class={}, by_decade={}, max_partition_err=0.0, max_eig_err={}, max_homogeneity_err=0.0, models=0)
H.check_laws(f, st, H.materials(random.Random(%(seed)d)))
for k, v in f.items.items(): print(k, v["what"])
sys.exit(1 if %(key)r in f.items else 0)
'''

REPLAY_STAGGER = r'''
import sys, json
sys.path.insert(0, %(here)r)
from corr import C17_stagger as H
cfg = json.loads(%(cfg)r)
fails = []; stats = dict(steps=0, runs=[], max_H_decrease=-1.0, max_d_decrease={})
if cfg.get("twin"):
    H.run_twin(cfg["split"], cfg["regu"], cfg["solver"], cfg["loads"], cfg["twin"][0], cfg["twin"][1], fails, stats, cfg.get("dim", 2))
else:
    H.run_one(cfg["split"], cfg["regu"], cfg["solver"], cfg["loads"], cfg["notch"], fails, stats, cfg.get("dim", 2), cfg.get("sL", 1.0), cfg.get("sE", 1.0))
print("configuration", cfg)
for r in stats["runs"]: print("max damage per saved step", r["dmax"])
for f in fails: print(f["key"], ":", f["what"])
print("expected: history field / saved damage never decrease between saved steps; no damage without load")
sys.exit(1 if any(f["key"] == %(key)r for f in fails) else 0)
'''

REPLAY_COQ = r'''
import sys
print("theorem file %(file)s no longer compiles against the model regenerated from the source:")
print(%(log)r)
print("no concrete failing input was found by the correspondence runs; the property is no longer shown.")
sys.exit(1)
'''


def run(ctx):
    ok, log = ctx.ensure_static()
    ctx.obligation("static coq libraries (EFLib.C17_MatAlg, C17_Mat3)", ok, log[-800:] if not ok else "")
    broken = {}     # file -> log
    gen_ok = False
    from concurrent.futures import ThreadPoolExecutor, wait, FIRST_COMPLETED
    pool = ThreadPoolExecutor(max_workers=3)
    # the correspondence runs do not depend on the proofs: they share the pool with the coqc jobs
    inp = json.dumps({"seed": ctx.rng.randrange(1 << 30), "tier": ctx.tier})
    inp2 = json.dumps({"seed": ctx.rng.randrange(1 << 30), "tier": ctx.tier})
    fut_splits = pool.submit(ctx.impl_python, os.path.join(HERE, "corr", "C17_splits.py"), (), 900, inp)
    fut_stagger = pool.submit(ctx.impl_python, os.path.join(HERE, "corr", "C17_stagger.py"), (), 900, inp2)
    # ---- 1. translate ----------------------------------------------------------------
    try:
        res = T.translate(ctx.repo)
        txt, index = T.emit_coq(res)
        open(os.path.join(ctx.build, "Gen_Splits.v"), "w").write(txt)
        ctx.obligation("translate Models/_phasefield.py + Simulations/_phasefield.py", True,
                       "%d split variants: %s; HistoryDamage maximum stored: %s" % (len(index), " ".join(n for _, n, _ in index), res["history"].get("hd_stored")))
        ctx.cov["split_variants"] = [n for _, n, _ in index]
        ctx.cov["translated_units"] = ["14 splits x (dim, planeStress, heterogeneous) configurations", "__Rp_Rm", "2-D eigen block", "3-D Sylvester block",
                                       "Get_r/f/g_e_pg", "history update", "HistoryDamage maximum", "Get_lb_ub lower bound", "Isotropic.get_bulk"]
        gen_ok = True
    except TranslateError as ex:
        ctx.obligation("translate Models/_phasefield.py + Simulations/_phasefield.py", False, str(ex))
        broken["Gen_Splits.v"] = "translator (fail-closed): " + str(ex)
    # ---- 2. theorems -----------------------------------------------------------------
    if gen_ok and ok:
        r = ctx.coq(["Gen_Splits.v"], timeout=300)
        if not r.ok:
            broken["Gen_Splits.v"] = r.log[-1500:]
        else:
            ctx.copy_props(*["C17/" + f for f in THEOREM_FILES])
            # independent files are compiled concurrently (at most 3 coqc at a time), dependents after
            # their prerequisites; a file whose prerequisite broke is skipped, not reported separately
            done, skipped, running = {}, set(), {}
            todo = list(THEOREM_FILES)
            ex = pool
            if True:
                while todo or running:
                    for f in list(todo):
                        deps = DEPS.get(f, [])
                        if any(d in skipped or (d in done and not done[d]) for d in deps):
                            todo.remove(f)
                            skipped.add(f)
                            ctx.obligation("coqc:" + f, False, "not compiled: prerequisite %s did not compile" % deps)
                        elif all(d in done for d in deps):
                            todo.remove(f)
                            running[ex.submit(ctx.coq, [f], 600)] = f
                    if not running:
                        continue
                    fin, _ = wait(list(running), return_when=FIRST_COMPLETED)
                    for fu in fin:
                        f = running.pop(fu)
                        r = fu.result()
                        done[f] = r.ok
                        if not r.ok:
                            broken[f] = r.log[-1500:]
            if skipped:
                ctx.log("skipped (prerequisite broken):", sorted(skipped))
    ctx.log("theorem files broken:", sorted(broken) or "none")
    # ---- 3. correspondence / search -----------------------------------------------------
    keys = []
    rc, out, err = fut_splits.result()
    if rc != 0:
        ctx.obligation("correspondence: splits harness ran", False, (out + err)[-1500:])
        ctx.violation("harness:splits", "corr/C17_splits.py failed to run: " + (err.strip().splitlines() or ["?"])[-1],
                      {"replay_py": REPLAY_COQ % dict(file="corr/C17_splits.py", log=(out + err)[-1500:])}, found_input=False)
    else:
        R = json.loads(out)
        st = R["stats"]
        ctx.obligation("correspondence: splits harness ran", True, "%d Gauss-point cases, %d models" % (st["cases"], st["models"]))
        for cl, n in st["by_class"].items():
            for i in range(min(n, 40)):
                ctx.note_case("splits:%s:%d" % (cl, i))
        ctx.cases += max(0, st["cases"] - ctx.cases)
        ctx.traces = ctx.cases
        ctx.cov["strain_state_classes"] = st["by_class"]
        ctx.cov["models_checked"] = st["models"]
        ctx.cov["strain_magnitude_decades"] = st["by_decade"]
        ctx.cov["max_homogeneity_error_rel"] = st["max_homogeneity_err"]
        ctx.cov["max_partition_error_rel"] = st["max_partition_err"]
        ctx.cov["max_eigen_error_rel_by_class"] = st["max_eig_err"]
        ctx.cov["failing_case_counts"] = R["counts"]
        ctx.cov["eig3d_branch_taken_by_class_and_boundary_gap"] = st.get("branch_table")
        ctx.obligation("correspondence: finite + partition + eigen/projector agreement on all cases", not R["failures"],
                       "; ".join("%s x%d" % (k, v) for k, v in sorted(R["counts"].items()))[:1500])
        for f in R["failures"]:
            d = f["data"]
            keys.append(f["key"])
            if d.get("kind") == "law":
                rp = REPLAY_LAW % dict(what=f["what"], here=HERE, seed=json.loads(inp)["seed"], key=f["key"])
            elif d.get("kind") in ("hook", "exception") and "material" not in d:
                rp = REPLAY_COQ % dict(file="corr/C17_splits.py", log=f["what"])
            else:
                rp = REPLAY_SPLIT % dict(data=json.dumps(d), classes=d.get("classes"))
            ctx.violation(f["key"], f["what"] + " [%d cases]" % R["counts"].get(f["key"], 1),
                          {"replay_py": rp, "input": {k: d.get(k) for k in ("matname", "split", "regu", "classes", "gp", "eps_elem", "extra")}},
                          found_input=d.get("kind") not in ("hook",))
        ctx.sample({"splits_stats": {k: st[k] for k in ("cases", "models", "max_partition_err")}})
    rc, out, err = fut_stagger.result()
    pool.shutdown()
    if rc != 0:
        ctx.obligation("correspondence: staggered histories ran", False, (out + err)[-1500:])
        ctx.violation("harness:stagger", "corr/C17_stagger.py failed to run: " + (err.strip().splitlines() or ["?"])[-1],
                      {"replay_py": REPLAY_COQ % dict(file="corr/C17_stagger.py", log=(out + err)[-1500:])}, found_input=False)
    else:
        R = json.loads(out)
        st = R["stats"]
        ctx.obligation("correspondence: staggered histories ran", True, "%d runs, %d saved steps" % (len(st["runs"]), st["steps"]))
        for i, r in enumerate(st["runs"]):
            c = r["cfg"]
            ctx.note_case("stagger:%s:%s:%s:%s" % (c["solver"], c["split"], c["regu"], c["notch"]), traces=len(r["dmax"]))
        ctx.cov["history_runs"] = len(st["runs"])
        ctx.cov["history_saved_steps"] = st["steps"]
        ctx.cov["max_history_decrease"] = st["max_H_decrease"]
        ctx.cov["max_damage_decrease"] = st["max_d_decrease"]
        ctx.cov["history_gauss_point_comparisons_exact"] = st.get("hist_points")
        ctx.cov["unit_change_twins_max_damage_diff"] = st.get("max_twin_damage_diff")
        ctx.cov["boundconstrain_unit_change_damage_diff_recorded_only"] = st.get("boundconstrain_twin_damage_diff")
        ctx.obligation("correspondence: history / damage monotone between saved steps, no damage without load", not R["failures"],
                       "; ".join(f["key"] for f in R["failures"]))
        for f in R["failures"]:
            keys.append(f["key"])
            ctx.violation(f["key"], f["what"], {"replay_py": REPLAY_STAGGER % dict(here=HERE, cfg=json.dumps(f["cfg"]), key=f["key"]), "input": f["cfg"]})
        if st["runs"]:
            ctx.sample({"history_run": st["runs"][0]})
    # ---- 4. broken theorem files without a concrete failing input -----------------------
    from vlib import common as _common
    known = _common.load_known()
    new_keys = [k for k in keys if (ctx.pid, k) not in known]      # a listed finding explains nothing new
    for f, lg in broken.items():
        rel = RELATED.get(f, ())
        if any(k.startswith(p) for k in new_keys for p in rel):
            ctx.log("%s does not compile; explained by concrete failing inputs" % f)
            continue
        if lg.startswith("translator (fail-closed)"):
            # nothing ill-formed was generated: the translator refused a source form it does not recognise
            ctx.violation("translator-rejected:" + f, "the translator rejected the source (fail-closed, nothing generated), the property is no longer shown: %s" % lg,
                          {"replay_py": REPLAY_COQ % dict(file="translator/splits.py", log=lg[-1200:]), "obligation": "translate"}, found_input=False)
            continue
        ctx.violation("coq:" + f, "%s no longer checks against the model regenerated from the source (no concrete failing input found): %s"
                      % (f, lg.strip().splitlines()[-1] if lg.strip() else ""),
                      {"replay_py": REPLAY_COQ % dict(file=f, log=lg[-1200:]), "obligation": f}, found_input=False)
    ctx.assumptions += [
        "Theorems are over exact reals; floating-point behaviour of the closed-form eigen routines is covered by the correspondence runs only.",
        "Scale invariance is proved for Rp/Rm, the 2-D eigenvalues/projectors and the assembled 2-D projP, the inputs of the 3-D case selection (g_neq_0 test, Lode argument), the Sylvester formulas and the assembled 3-D projP given a spectral resolution (generic branch); on the degenerate 3-D branches it is sampled over 14 decades of magnitude with exact power-of-two scalings.",
        "3-D assembly theorems (C17_assembly3d.v) hold for any rank-one orthogonal spectral resolution; they are instantiated on the generic branch only (C17_generic3d.v), given that the three values are distinct roots of the characteristic polynomial. The sums over the stacked axis (diag_sum, G_sum) and the moveaxis/None broadcasting are checked by statement templates, not interpreted.",
        "2-D assembly theorem: the routine receives the Kelvin-Mandel packing of A (Project_matrix_to_vector is translated; its inverse Project_vector_to_matrix is assumed to be the inverse packing, checked by the eigen correspondence).",
        "3-D degenerate branches: proved given the double-root Vieta relations; which branch the floating-point theta comparison selects, and the Frobenius normalisation of M1, M3, are not modelled.",
        "3-D: the projector formulas of all four branches are proved to be spectral resolutions given the characteristic-polynomial relations (proj3d_distinct_partial, proj3d_case2/3/4), and on the generic branch the arccos values are proved to be the ordered distinct roots (trig_values_are_roots, trig_values_ordered; g**(3/2) modelled as sqrt(g)^3, real arithmetic); the branch selection by the floating-point theta comparison, and the 3-D assembly of projP on the repeated-eigenvalue branches (where it is wrong: finding proj:3d:two_eq) are checked by correspondence, not proved.",
        "Hypotheses of the partition theorems about the material law (C = lamb IxI + 2 mu I, bulk, C^T S C = C, inv_sqrtC sqrtC = I, Stress-split compliance coefficients) are checked numerically on the implementation at 1e-10.",
        "Det/Trace of 2x2 and Project_vector_to_matrix are modelled by hand (checked by the eigen correspondence).",
        "BoundConstrain: scipy.optimize.lsq_linear is trusted to return a point within its bounds; the theorem quantifies over every admissible point.",
    ]
