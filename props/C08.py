"""C08 — geometry, orientation and point location are consistent across element groups (partial).

1. translate: shape tables (translator/elems.py), index tables `surfaces/faces/segments/triangles/
   origin`, the cost function `Eval` of _Get_Mapping and the statement form of the 3-D half-space
   test of Get_pointsInElem (translator/faces.py, ast, fail-closed) -> Gen_Elems.v, Gen_Faces.v;
   quadrature tables of the running code as exact rationals (corr/impl_gauss.py) -> Gen_Gauss.v
2. Coq: C08_defs, C08_faces (face_tables_close, segment_tables_close), C08_measure (measure_exact,
   measure_rigid_invariant), C08_invmap (affine_inverse_map, iterative cost: refuted / corrected),
   C08_pointin (point_in_elem_3d), C08_eval (eval_reproduces, interp_linear) — always expected to
   compile — and the two statements about the code AS FOUND: C08_cur_invmap.v
   (iterative_inverse_map_consistent) and C08_cur_pointin.v (point_in_elem_3d_exact)
3. correspondence on the implementation (corr/C08_impl.py): translated tables vs live properties;
   gmsh meshes of random polygons / extruded polygons: measure, centre, boundary normals before and
   after Translate / Rotate / Symmetry and embedded in 3-D; point location + evaluation in batches
   on gmsh meshes and on factory-built single elements (parallelogram and general), plain and
   mirrored; points outside an element
4. every failing obligation / case -> violation with an executable replay.
Sampled, not proved: KD-tree candidate search, least_squares convergence, 1e-12 slack membership."""
import json
import math
import os

from translator import elems as T_elems, faces as T_faces, gauss as T_gauss
from translator.pyexpr import TranslateError
from vlib import common

IMPL = os.path.join(common.VERIF, "corr", "C08_impl.py")

REPLAY = "import sys, json\nfrom corr import C08_impl as H\nsys.exit(H.replay(json.loads(%r), %r))\n"

DIM = {"SEG": 1, "TRI": 2, "QUAD": 2, "TETRA": 3, "HEXA": 3, "PRISM": 3}
ORDER = {"SEG2": 1, "SEG3": 2, "SEG4": 3, "SEG5": 4, "TRI3": 1, "TRI6": 2, "TRI10": 3, "TRI15": 4, "QUAD4": 1, "QUAD8": 2,
         "QUAD9": 2, "TETRA4": 1, "TETRA10": 2, "HEXA8": 1, "HEXA20": 2, "HEXA27": 2, "PRISM6": 1, "PRISM15": 2, "PRISM18": 2}


def fam(name):
    return [k for k in DIM if name.startswith(k)][0]


def rnd(rng, a, b, q=64):
    return round(rng.uniform(a, b) * q) / q


def star_polygon(rng, ccw):
    n = rng.randint(4, 6)
    ang = sorted(rng.uniform(0, 2 * math.pi) for _ in range(n))
    # keep it well shaped: angles spread, radii in [1.5, 2.5]
    ang = [2 * math.pi * k / n + rng.uniform(-0.25, 0.25) for k in range(n)]
    cx, cy = rnd(rng, -1, 1), rnd(rng, -1, 1)
    P = [[round((cx + rng.uniform(1.5, 2.5) * math.cos(a)) * 64) / 64, round((cy + rng.uniform(1.5, 2.5) * math.sin(a)) * 64) / 64] for a in ang]
    return P if ccw else P[::-1]


def motions(rng, dim):
    def vec():
        v = [rnd(rng, -1, 1), rnd(rng, -1, 1), rnd(rng, -1, 1) if dim == 3 else 0.0]
        return v if any(abs(x) > 0.2 for x in v) else [1.0, 0.5, 0.0]
    ms = [{"t": "translate", "d": [rnd(rng, -2, 2), rnd(rng, -2, 2), rnd(rng, -2, 2) if dim == 3 else 0.0]},
          {"t": "rotate", "theta": rnd(rng, 10, 170), "center": [rnd(rng, -1, 1), rnd(rng, -1, 1), 0.0],
           "dir": [0.0, 0.0, 1.0] if dim == 2 else vec()},
          {"t": "symmetry", "point": [rnd(rng, -1, 1), rnd(rng, -1, 1), 0.0], "n": vec()}]
    if dim == 2:  # finally embed the surface mesh in 3-D by a random out-of-plane rotation
        ms.append({"t": "rotate", "theta": rnd(rng, 20, 160), "center": [0.0, 0.0, 0.0], "dir": [rnd(rng, 0.3, 1), rnd(rng, 0.3, 1), rnd(rng, -0.5, 0.5)]})
    return ms


def field(rng, dim, deg):
    cs = []
    for a in range(deg + 1):
        for b in range(deg + 1 - a):
            for c in range((deg + 1 - a - b) if dim == 3 else 1):
                cs.append([rnd(rng, -2, 2, 8), [a, b, c]])
    return cs


def gen_cases(ctx):
    rng = ctx.rng
    thorough = ctx.tier == "thorough"
    cases = []
    geo = ["TRI3", "QUAD4", "TRI6", "TETRA4", "HEXA8", "PRISM6"]
    if thorough:
        geo = ["TRI3", "TRI6", "TRI10", "TRI15", "QUAD4", "QUAD8", "QUAD9", "TETRA4", "TETRA10", "HEXA8", "HEXA20", "HEXA27", "PRISM6", "PRISM15", "PRISM18"]
    for k, el in enumerate(geo):
        d = DIM[fam(el)]
        for ccw in ([k % 2 == 0] if not thorough else [True, False]):
            cases.append({"kind": "geom", "elem": el, "poly": star_polygon(rng, ccw), "h": 1.2 if d == 2 else 1.6, "ext": rnd(rng, 1, 2),
                          "layers": 2, "motions": motions(rng, d)})
    loc = [("TRI3", 1, False), ("TRI6", 2, False), ("QUAD4", 1, True), ("TETRA4", 1, False), ("HEXA8", 1, True)]
    if thorough:
        loc += [("TRI10", 3, False), ("QUAD8", 1, True), ("QUAD9", 1, True), ("TETRA10", 2, False), ("PRISM6", 1, False), ("HEXA20", 1, True), ("PRISM15", 1, False)]
    for el, deg, it in loc:
        d = DIM[fam(el)]
        cases.append({"kind": "locate_gmsh", "elem": el, "poly": star_polygon(rng, rng.random() < 0.5), "h": 1.3 if d == 2 else 1.8, "ext": 1.5, "layers": 2,
                      "seed": rng.randint(0, 10**6), "field": field(rng, d, deg), "iterative": it,
                      "motions": [m for m in motions(rng, d) if m["t"] == "symmetry"] if el in ("TRI3", "QUAD4", "TETRA4", "HEXA8") else [],
                      "sizes": [1, 2, 3, d, d + 1, 50]})
    sq = [[0, 0, 0], [2, 0, 0], [2, 1, 0], [0, 1, 0]]
    par = [[0, 0, 0], [2, 0.5, 0], [2.75, 2, 0], [0.75, 1.5, 0]]
    gen = [[0, 0, 0], [2, 0, 0], [2.5, 1.5, 0], [-0.25, 1, 0]]
    cube = [[0, 0, 0], [1, 0, 0], [1, 1, 0], [0, 1, 0], [0, 0, 1], [1, 0, 1], [1, 1, 1], [0, 1, 1]]
    ppd = [[p[0] + 0.25 * p[1] + 0.5 * p[2], 1.5 * p[1] + 0.25 * p[2], 0.25 * p[0] + 1.25 * p[2]] for p in cube]
    # planar-faced, non-parallelepiped hexahedron (skewed frustum)
    ghex = [[0, 0, 0], [2, 0, 0], [2, 2, 0], [0, 2, 0], [0.5, 0.25, 1], [1.5, 0.25, 1], [1.5, 1.25, 1], [0.5, 1.25, 1]]
    tri = [[0, 0, 0], [2, 0.25, 0], [0.5, 1.5, 0]]
    tet = [[0, 0, 0], [1, 0.25, 0], [0.25, 1, 0.125], [0.125, 0.25, 1]]
    pri = [[0, 0, 0], [1, 0.25, 0.25], [0.125, 1, 0.25], [0.5, 0.5, 1.25], [1.5, 0.75, 1.5], [0.625, 1.5, 1.5]]
    mir = {"point": [0.25, 0, 0], "n": [1.0, 0.5, 0.0]}
    singles = [("QUAD4", par, "parallelogram", False), ("QUAD4", gen, "general", True), ("TRI3", tri, "affine", False),
               ("TETRA4", tet, "affine", False), ("HEXA8", ppd, "parallelepiped", False), ("HEXA8", ghex, "general", True),
               ("PRISM6", pri, "affine", False)]
    if thorough:
        singles += [("QUAD8", gen, "general", True), ("QUAD9", gen, "general", True), ("QUAD9", par, "parallelogram", False), ("TRI6", tri, "affine", False),
                    ("TRI10", tri, "affine", False), ("TETRA10", tet, "affine", False), ("HEXA20", ppd, "parallelepiped", False),
                    ("HEXA27", ppd, "parallelepiped", False), ("HEXA20", ghex, "general", True), ("PRISM15", pri, "affine", False), ("PRISM18", pri, "affine", False)]
    for el, verts, shape, it in singles:
        d = DIM[fam(el)]
        deg = 1 if it else ORDER[el]
        for mirror in (None, mir):
            cases.append({"kind": "locate_single", "elem": el, "verts": verts, "shape": shape, "mirror": mirror, "seed": rng.randint(0, 10**6),
                          "field": field(rng, d, deg), "iterative": it, "sizes": [1, 2, 3, d, d + 1, 50]})
    # nearly-affine elements: a parallelogram / parallelepiped with ONE vertex moved by 1e-5 .. 3e-6 of its size — the isoparametric map is
    # not affine (Jacobian ratio off 1 by ~1e-6), so the affine shortcut of the inverse map is off by O(1e-6) while the iterative one is exact
    # (2-D only: moving one vertex of a hexahedron makes three faces non-planar, which the planar-face containment test does not claim to handle;
    #  the seeds of these cases come from their own generator so that every other case of the run is unchanged)
    import random as _random
    rng_na = _random.Random(808)
    for el, base_v, dlt in [("QUAD4", par, 1e-5), ("QUAD4", par, 3e-6)] + ([("QUAD9", par, 1e-5), ("QUAD8", par, 3e-6)] if thorough else []):
        d = DIM[fam(el)]
        near = [list(map(float, p)) for p in base_v]
        near[2] = [near[2][0] + dlt * 2.0, near[2][1] - dlt * 1.5, near[2][2] + (dlt if d == 3 else 0.0)]
        cases.append({"kind": "locate_single", "elem": el, "verts": near, "shape": "near-affine", "mirror": None, "seed": rng_na.randint(0, 10**6),
                      "field": field(rng_na, d, 1), "iterative": True, "sizes": [1, 2, 3, d, d + 1, 50]})
    outs = {"TETRA": [[0.3, 0.3, -0.05], [0.4, 0.4, 0.3], [-0.05, 0.3, 0.3]], "HEXA": [[0.2, 0.3, 1.1], [1.05, 0, 0], [0, -1.2, 0.5]],
            "PRISM": [[0.3, 0.3, 1.05], [0.3, 0.3, -1.1], [0.2, 0.2, 1.2], [0.6, 0.6, 0.0]]}
    # query / move / query sequences on the same mesh object (stale caches across moves)
    def steps(d):
        ms = motions(rng, d)[:3]
        tr, ro, sy = ms
        sy2 = {"t": "symmetry", "point": [rnd(rng, -1, 1), rnd(rng, -1, 1), 0.0], "n": [1.0, rnd(rng, -1, 1), 0.5 if d == 3 else 0.0]}
        return [tr, sy, ro, {"t": "setcoord", "via": sy2}, {"t": "deepcopy", "via": sy}, {"t": "setcoord", "via": tr}, sy2]
    seqs = [("TRI3", None, 1, False), ("QUAD4", None, 1, True), ("TETRA4", None, 1, False), ("HEXA8", ghex, 1, True), ("PRISM6", pri, 1, False)]
    if thorough:
        seqs += [("TRI6", None, 2, False), ("TETRA10", None, 2, False), ("HEXA8", None, 1, True), ("PRISM6", None, 1, False), ("QUAD9", gen, 1, True), ("HEXA27", ppd, 2, False), ("PRISM15", pri, 2, False)]
    for el, verts, deg, it in seqs:
        d = DIM[fam(el)]
        cases.append({"kind": "sequence", "elem": el, "verts": verts, "poly": star_polygon(rng, rng.random() < 0.5), "h": 1.5 if d == 2 else 2.0, "ext": 1.5, "layers": 1,
                      "seed": rng.randint(0, 10**6), "field": field(rng, d, deg), "iterative": it, "steps": steps(d)})
    # distorted quadrangles embedded in 3-D (dim != inDim): rotation about a non-z axis / reflection through a skew plane
    def embed_motions():
        return [{"t": "rotate", "theta": rnd(rng, 20, 160), "center": [rnd(rng, -1, 1), rnd(rng, -1, 1), 0.0], "dir": [rnd(rng, 0.3, 1), rnd(rng, 0.3, 1), rnd(rng, -0.5, 0.5)]},
                {"t": "symmetry", "point": [rnd(rng, -1, 1), rnd(rng, -1, 1), rnd(rng, -1, 1)], "n": [1.0, rnd(rng, 0.3, 1), rnd(rng, 0.3, 1)]}]
    embs = [("QUAD4", gen, "general", True, [0]), ("QUAD9", gen, "general", True, [1])]
    if thorough:
        embs += [("QUAD8", gen, "general", True, [0, 1]), ("QUAD4", par, "parallelogram", False, [0, 1]), ("QUAD9", gen, "general", True, [0]), ("TRI6", tri, "affine", False, [0, 1])]
    for el, verts, shape, it, which in embs:
        em = embed_motions()
        cases.append({"kind": "locate_single", "elem": el, "verts": verts, "shape": shape, "mirror": None, "seed": rng.randint(0, 10**6),
                      "field": field(rng, 3, 1 if it else ORDER[el]), "iterative": it, "sizes": [1, 2, 3, 50], "embed": [em[k] for k in which]})
    # scaled twins: the same scenario in another unit of length
    scl = [("TRI3", None, 1, False), ("QUAD4", None, 1, True), ("TETRA4", None, 1, False), ("HEXA8", ghex, 1, True)]
    if thorough:
        scl += [("TRI6", None, 2, False), ("QUAD9", gen, 1, True), ("TETRA10", None, 2, False), ("PRISM6", None, 1, False), ("HEXA8", None, 1, True), ("PRISM15", pri, 2, False)]
    for el, verts, deg, it in scl:
        d = DIM[fam(el)]
        cases.append({"kind": "scaled", "elem": el, "verts": verts, "poly": star_polygon(rng, rng.random() < 0.5), "h": 1.6 if d == 2 else 2.2, "ext": 1.5, "layers": 1,
                      "seed": rng.randint(0, 10**6), "field": field(rng, d, deg), "iterative": it, "scales": [1e-9, 1e-6, 1e-3, 1e3, 1e6],
                      "motions": ([] if not thorough else motions(rng, d)[:2])})
    # meshes whose groups do not use the coordinate rows in order (orphan rows, permuted numbering, two main groups)
    ren = [("QUAD4", 1, True, ["orphans", "mixed"]), ("TETRA4", 1, False, ["orphans"])]
    if thorough:
        ren += [("TRI3", 1, False, ["orphans", "permuted"]), ("TRI6", 2, False, ["orphans", "permuted"]), ("QUAD4", 1, True, ["permuted"]), ("QUAD9", 1, True, ["orphans", "mixed"] if False else ["orphans"]),
                ("TETRA10", 2, False, ["orphans", "permuted"]), ("HEXA8", 1, True, ["orphans", "mixed"]), ("PRISM6", 1, False, ["orphans", "permuted"])]
    for el, deg, it, variants in ren:
        d = DIM[fam(el)]
        cases.append({"kind": "renumber", "elem": el, "poly": star_polygon(rng, rng.random() < 0.5), "h": 1.6 if d == 2 else 2.2, "ext": 1.5, "layers": 1,
                      "seed": rng.randint(0, 10**6), "field": field(rng, d, deg), "iterative": it, "variants": variants})
    # order independence: integrate-then-locate vs locate-then-integrate, plain / moved / mirrored
    orders = [("TRI3", None), ("TETRA4", tet)] + ([("QUAD4", None), ("TRI6", None), ("TETRA4", None), ("HEXA8", ghex), ("PRISM6", pri), ("TETRA10", tet), ("HEXA8", None)] if thorough else [])
    for el, verts in orders:
        d = DIM[fam(el)]
        cases.append({"kind": "order", "elem": el, "verts": verts, "poly": star_polygon(rng, rng.random() < 0.5), "h": 1.8 if d == 2 else 2.2, "ext": 1.5, "layers": 1,
                      "seed": rng.randint(0, 10**6), "motions": motions(rng, d)[:3]})
    # purity of the geometry queries (with and without the deformed-configuration option) and the
    # deformed-configuration option against an explicitly moved mesh
    pur = [("TRI3", True), ("PRISM6", False)] + ([("QUAD4", False), ("TRI6", True), ("TETRA4", True), ("HEXA8", False), ("TETRA10", False)] if thorough else [])
    for el, ccw in pur:
        d = DIM[fam(el)]
        cases.append({"kind": "purity", "elem": el, "poly": star_polygon(rng, ccw), "h": 1.3 if d == 2 else 1.8, "ext": 1.5, "layers": 2, "seed": rng.randint(0, 10**6)})
    dfm = [("QUAD4", False), ("TETRA4", False)] + ([("TRI3", True), ("TRI6", False), ("HEXA8", True), ("PRISM6", False), ("TETRA10", True)] if thorough else [])
    for el, ccw in dfm:
        d = DIM[fam(el)]
        cases.append({"kind": "deformed", "elem": el, "poly": star_polygon(rng, ccw), "h": 1.3 if d == 2 else 1.8, "ext": 1.5, "layers": 2, "seed": rng.randint(0, 10**6)})
    # orientation / closure of the volume `faces` tables, every 3-D type, as built / moved / mirrored
    for el, verts in [("TETRA4", tet), ("TETRA10", tet), ("HEXA8", ppd), ("HEXA20", ppd), ("HEXA27", ppd), ("PRISM6", pri), ("PRISM15", pri), ("PRISM18", pri)]:
        ms = [m for m in motions(rng, 3)]
        cases.append({"kind": "faces", "elem": el, "verts": verts, "motions": ms})
    for el in (("TETRA4", "HEXA8", "PRISM6", "TETRA10", "HEXA20", "PRISM15") if thorough else ("TETRA4", "PRISM6")):
        if True:
            cases.append({"kind": "faces", "gmsh": True, "elem": el, "poly": star_polygon(rng, False), "h": 1.8, "ext": 1.5, "layers": 2, "motions": motions(rng, 3)})
    for el, verts in [("TETRA4", tet), ("HEXA8", ppd), ("PRISM6", pri), ("PRISM15", pri)] + ([("TETRA10", tet), ("HEXA20", ppd), ("HEXA27", ppd), ("PRISM18", pri)] if thorough else []):
        cases.append({"kind": "outside", "elem": el, "verts": verts, "seed": 1, "xi_out": outs[fam(el)]})
    return cases


ORIENT = {"v": "tables"}


def stable_key(r):
    k = r["key"]
    if k.startswith("locate-crash") and "shape mismatch" in r["what"]:
        return "locate-crash:affine-branch:points-in-element==dim"
    if (k.startswith("locate-value") and "gmsh" in k and ": got 0, exact" in r["what"]
            and not ("after-symmetry" in k and ORIENT["v"] == "tables" and k.split(":")[1].startswith(("TETRA", "HEXA", "PRISM")))):
        # a point of the closed mesh that no element claimed (candidate elements = those around the nearest mesh node)
        return "locate-miss:nearest-node-candidates:%s" % k.split(":")[1]
    if k.startswith("locate-value"):
        el, tag = k.split(":")[1], ":".join(k.split(":")[2:])
        if "mirrored" in tag or "after-symmetry" in tag:
            return "locate-mirrored:%s:%s" % (el, "general" if "general" in tag else "affine" if "gmsh" not in tag else "gmsh")
        return "locate-value:%s:%s" % (el, tag.replace(":initial", ""))
    return k


def run(ctx):
    ctx.assumptions += [
        "translator/elems.py + translator/faces.py map the element classes' shape and index tables, the Eval cost function and the statement form of the 3-D half-space test to Coq faithfully (index tables are compared with the live properties on every run; shape tables validated in C06)",
        "quadrature tables are the doubles of the running Gauss class as exact rationals (corr/impl_gauss.py)",
        "theorems are over exact reals/rationals; KD-tree candidate search, scipy least_squares convergence and the 1e-12 tolerance membership are sampled by the correspondence, not proved",
        "mesh level: interior faces/edges of a conforming mesh cancel in the boundary sums — not formalised, checked per generated instance",
    ]
    ok_static, log = ctx.ensure_static()
    if not ok_static:
        ctx.obligation("static-lib", False, log[-1500:])
        ctx.violation("static-lib-build", "coq/lib or coq/model does not build", {"log": log[-3000:]}, found_input=False)
        return
    # ---- 1. translate (each reader on its own: a rejected construct is reported and the run goes on) ----
    def attempt(name, fn):
        try:
            return fn()
        except (TranslateError, SyntaxError, OSError) as ex:
            ctx.obligation("translate:" + name, False, str(ex))
            ctx.violation("translate" if name == "tables" else "translate:" + name, "translator rejected the source (%s): %s" % (name, ex),
                          {"construct": str(ex), "reader": name}, found_input=False)
            return None
    tabs = attempt("tables", lambda: (T_elems.read_elems(ctx.repo), T_faces.read_faces(ctx.repo)))
    E, FT = tabs if tabs is not None else (None, {})
    evr = attempt("Eval", lambda: T_faces.read_eval_form(ctx.repo))
    afr = attempt("affine-branch", lambda: T_faces.read_affine_branch(ctx.repo))
    pir = attempt("Get_pointsInElem", lambda: T_faces.read_pointin_form(ctx.repo))
    frr = attempt("_Get_sysCoord_e", lambda: T_faces.read_syscoord_form(ctx.repo))
    ev_form, ev_line = evr if evr is not None else ("tangent", 0)       # placeholders keep Gen_Faces.v well-formed;
    trim, orient, pie_line = pir if pir is not None else ("last1", "tables", 0)   # the C08_cur_* statements are then NOT compiled
    ORIENT["v"] = orient if pir is not None else "unknown"
    if tabs is not None and evr is not None and afr is not None and pir is not None and frr is not None:
        ctx.obligation("translate", True, "%d element classes; Eval form %s (line %d); Get_pointsInElem rows %s / normals %s" % (len(FT), ev_form, ev_line, trim, orient))
    ctx.cov["eval_form"] = ev_form if evr is not None else "rejected"
    ctx.cov["pointin_form"] = [trim, orient] if pir is not None else "rejected"
    dump = None
    if tabs is not None:
        rc, out, err = ctx.impl_python(os.path.join(common.VERIF, "corr", "impl_gauss.py"), timeout=300)
        if rc != 0:
            ctx.obligation("dump-gauss", False, err[-1500:])
            ctx.violation("dump-gauss", "cannot obtain the quadrature tables from the implementation", {"stderr": err[-3000:]}, found_input=False)
        else:
            dump = json.loads(out)
            open(os.path.join(ctx.build, "Gen_Gauss.v"), "w").write(T_gauss.emit_coq(dump))
            open(os.path.join(ctx.build, "Gen_Elems.v"), "w").write(T_elems.emit_coq(E))
            open(os.path.join(ctx.build, "Gen_Faces.v"), "w").write(T_faces.emit_coq(FT, ev_form, (trim, orient), frr))
    # ---- 3a/3b. correspondence (started first, collected after the proofs: it provides the replays for broken obligations) ----
    cases = gen_cases(ctx)
    ctx.log("translated; running %d correspondence cases" % len(cases))
    # the harness (1 core) runs while the theorem files are compiled (2 cores)
    from concurrent.futures import ThreadPoolExecutor
    corr_pool = ThreadPoolExecutor(max_workers=1)
    corr_fut = corr_pool.submit(ctx.impl_python, IMPL, input=json.dumps({"tables": True, "cases": cases}), timeout=1500)
    # ---- 2. Coq ------------------------------------------------------------------------------
    ctx.log("compiling the theorem files")
    proofs = {}
    if dump is not None:
        ctx.copy_props("C08/C08_defs.v", "C08/C08_faces.v", "C08/C08_measure.v", "C08/C08_subparam.v", "C08/C08_invmap.v", "C08/C08_pointin.v",
                       "C08/C08_pointin2d.v", "C08/C08_eval.v", "C08/C08_conform.v", "C08/C08_locate.v", "C08/C08_locate2d.v", "C08/C08_evalpoly.v", "C08/C08_scale.v", "C08/C08_frame.v", "C08/C08_cur_invmap.v", "C08/C08_cur_pointin.v", "C08/C08_measure_thorough.v", "C08/C08_moments_thorough.v")
        r0 = ctx.coq(["C08_defs.v", "Gen_Elems.v", "Gen_Gauss.v", "Gen_Faces.v"], timeout=300, count=False)
        if not r0.ok:
            ctx.obligation("generated files compile", False, r0.log[-1500:])
            ctx.violation("gen-compile", "generated Coq tables do not compile", {"log": r0.log[-3000:]}, found_input=False)
        else:
            # two independent dependency chains, compiled side by side (2 cores)
            def chain(files):
                prev_ok = True
                for f, need in files:
                    if need is not None and not (proofs.get(need) is not None and proofs[need].ok):
                        proofs[f] = None
                        continue
                    proofs[f] = ctx.coq([f], timeout=1500 if "thorough" in f else 900)
                    ctx.log("  %s %s %.1fs" % (f, "ok" if proofs[f].ok else "FAILED", proofs[f].files[-1][2] if proofs[f].files else 0))
            # statements about the source AS FOUND (C08_cur_*): only when the corresponding reader recognised the
            # source (otherwise the `translate:<reader>` violation already says that the property is not shown)
            chain_a = [("C08_faces.v", None), ("C08_measure.v", "C08_faces.v"), ("C08_scale.v", "C08_measure.v")] + \
                      ([("C08_frame.v", "C08_measure.v")] if frr is not None else []) + [("C08_subparam.v", "C08_measure.v")]
            chain_b = [("C08_pointin.v", None), ("C08_locate.v", "C08_pointin.v")] + ([("C08_cur_pointin.v", "C08_locate.v")] if pir is not None else []) + \
                      [("C08_pointin2d.v", "C08_pointin.v"), ("C08_locate2d.v", "C08_pointin2d.v"), ("C08_conform.v", None),
                       ("C08_invmap.v", None), ("C08_eval.v", "C08_invmap.v"), ("C08_evalpoly.v", "C08_eval.v")] + \
                      ([("C08_cur_invmap.v", "C08_invmap.v")] if evr is not None else [])
            chains = [chain_a, chain_b]
            with ThreadPoolExecutor(max_workers=2) as ex:
                list(ex.map(chain, chains))
            if ctx.tier == "thorough":
                # general (non-affine) straight-sided hexahedra / prisms, 24 / 18 symbolic vertex coordinates:
                # volumes (~4 min) and per-vertex first moments (~7 min), side by side
                with ThreadPoolExecutor(max_workers=2) as ex:
                    list(ex.map(chain, [[("C08_measure_thorough.v", "C08_subparam.v")], [("C08_moments_thorough.v", "C08_subparam.v")]]))
    ctx.log("theorem files done; collecting the correspondence results")
    rc, out, err = corr_fut.result()
    corr_pool.shutdown()
    results, tables = [], {}
    if rc != 0:
        ctx.obligation("corr:impl", False, err[-1500:])
        ctx.violation("corr:impl-crash", "the implementation-side harness failed: " + (err.strip().splitlines() or ["rc=%d" % rc])[-1][:200], {"stderr": err[-3000:]}, found_input=False)
    else:
        resp = json.loads(out)
        results, tables = resp["results"], resp["tables"]
    # tables: translator vs live
    mism = []
    for name, r in FT.items():
        live = tables.get(name)
        if live is None:
            if tables:
                mism.append("%s missing in the implementation" % name)
            continue
        exp = {"surfaces": r["surfaces"], "segments": r["segments"], "triangles": r["triangles"],
               "faces": r["faces"] if r["dim"] != 2 else r["faces"][0], "origin": [int(x) for x in r["origin"]]}
        for p, v in exp.items():
            lv = live[p]
            if p == "origin" and isinstance(lv, list) and len(lv) == 1:
                lv = lv * r["dim"]
            if lv != v:
                mism.append("%s.%s: translated %s, live %s" % (name, p, v, lv))
            ctx.note_case("%s.%s" % (name, p))
    if tables:
        ctx.obligation("corr:index tables vs live properties", not mism, "; ".join(mism[:4]))
        if mism:
            ctx.violation("corr:tables", "translated index tables differ from the live properties: " + mism[0], {"mismatches": mism[:20]}, found_input=False)
    ctx.sample({"theorem": "face_tables_close : forall t, In t all_ftabs -> fdim t = 3 -> forall l, sum of area vectors = 0 /\\ sum of 2*flux = 6 * measure_star (parent)",
                "proof": "vm_compute on the regenerated tables through Qnorm_sound"})
    # ---- 4. violations --------------------------------------------------------------------------
    fails = [r for r in results if not r["ok"]]
    by_key = {}
    for r in fails:
        by_key.setdefault(stable_key(r), []).append(r)
    for r in results:
        ctx.note_case(r["cls"])
    ctx.cov["corr_checks"] = len(results)
    ctx.cov["corr_cases"] = len(cases)
    ctx.cov["case_kinds"] = {k: sum(1 for c in cases if c["kind"] == k) for k in ("geom", "locate_gmsh", "locate_single", "outside", "purity", "deformed", "faces", "sequence", "renumber", "order", "scaled")}
    ctx.cov["element_types_sampled"] = sorted(set(c["elem"] for c in cases))
    ctx.obligation("corr:geometry/location cases", not fails, "%d of %d checks fail; keys %s" % (len(fails), len(results), sorted(by_key)[:8]))
    if results:
        ctx.sample({"case": cases[0]["kind"], "elem": cases[0]["elem"], "poly": cases[0]["poly"], "first_check": results[0]["what"][:200]})

    def replay_for(pred, key):
        for k, rs in by_key.items():
            for r in rs:
                if pred(k, r):
                    return {"replay_py": REPLAY % (json.dumps(cases[r["case"]]), r["key"]), "observed": r["observed"], "expected": r["expected"], "example": r["what"]}
        return None
    used = set()
    # broken proof obligations about the code as found
    if proofs.get("C08_cur_invmap.v") is not None and not proofs["C08_cur_invmap.v"].ok:
        rp = replay_for(lambda k, r: k.startswith("locate-value") and "general" in k, None) or replay_for(lambda k, r: k.startswith("locate-value") and "gmsh" in k, None)
        used |= {k for k in by_key if k.startswith("locate-value") and ("general" in k or k.split(":")[1].startswith(("QUAD", "HEXA")))}
        what = ("iterative_inverse_map_consistent does not hold for the cost function of _Get_Mapping.Eval (line %d): x0 + (xi - xiOrigin) @ F(xi) is not the isoparametric map "
                "(theorem iterative_inverse_map_refuted: QUAD4 (0,0),(1,0),(2,2),(0,1) at xi=(0,0) has residual (1/4,1/4)); wrong values on non-parallelogram QUAD/HEXA" % ev_line)
        ctx.violation("inverse-map-cost:tangent", what + ("" if rp is None else " — e.g. " + rp["example"][:160]), rp or {"obligation": "C08_cur_invmap.v"}, found_input=rp is not None)
    if proofs.get("C08_cur_pointin.v") is not None and not proofs["C08_cur_pointin.v"].ok:
        if orient == "tables":
            rp = replay_for(lambda k, r: k.startswith("locate-mirrored") and k.split(":")[1].startswith(("TETRA", "HEXA", "PRISM")), None)
            used |= {k for k in by_key if k.startswith("locate-mirrored") and k.split(":")[1].startswith(("TETRA", "HEXA", "PRISM"))}
            ctx.violation("pointin-orientation:3D",
                          "Get_pointsInElem (dim 3, line %d) tests (x - p0).n <= tol with the normal the `surfaces` tables give: correct only for det J > 0 (point_in_elem_3d + sign_neg); "
                          "after Mesh.Symmetry no point is located in TETRA/HEXA/PRISM elements (zeros returned)" % pie_line + ("" if rp is None else " — e.g. " + rp["example"][:160]),
                          rp or {"obligation": "C08_cur_pointin.v"}, found_input=rp is not None)
        if trim == "last1":
            rp = replay_for(lambda k, r: k.startswith("pointin-accepts-outside:PRISM1"), None)
            used |= {k for k in by_key if k.startswith("pointin-accepts-outside:PRISM1")}
            ctx.violation("pointin-degenerate:PRISM15-PRISM18",
                          "Get_pointsInElem (dim 3): `surfaces[3, :-1]` leaves p2 == p0 on the padded triangular rows of PRISM15/PRISM18 (zero normal): the end faces are not tested "
                          "(Example last1_trim_fails_on_quadratic_prisms)" + ("" if rp is None else " — e.g. " + rp["example"][:200]),
                          rp or {"obligation": "C08_cur_pointin.v"}, found_input=rp is not None)
        if orient != "tables" and trim != "last1":
            ctx.violation("proof-broken:C08_cur_pointin.v", "point_in_elem_3d_exact no longer checks", {"obligation": "C08_cur_pointin.v", "log": proofs["C08_cur_pointin.v"].log[-3000:]}, found_input=False)
    for f, r in proofs.items():
        if r is not None and not r.ok and not f.startswith("C08_cur_"):
            rp = None
            if f in ("C08_faces.v", "C08_pointin.v"):
                # numeric witness of a wrong index table: boundary rebuilt from the `faces` tables / points outside
                rp = replay_for(lambda k, r: k.startswith("faces-table-"), None) if f == "C08_faces.v" else replay_for(lambda k, r: k.startswith("pointin-accepts-outside") or k.startswith("locate-"), None)
            what = "theorem file %s no longer checks against the regenerated tables" % f
            if rp is not None:
                rp = dict(rp, obligation=f, log=r.log[-1500:])
                what += " — e.g. " + rp["example"][:220]
            ctx.violation("proof-broken:" + f, what, rp or {"obligation": f, "log": r.log[-3000:]}, found_input=rp is not None)
    # remaining correspondence failures
    for k, rs in sorted(by_key.items()):
        if k in used:
            continue
        r = rs[0]
        if r.get("harness_error"):
            # the harness itself failed: the property is not shown for this case, but this is no failing input of the library
            ctx.violation(k, "the correspondence harness failed on a generated case: " + r["what"][:400],
                          {"replay_py": REPLAY % (json.dumps(cases[r["case"]]), r["key"]), "harness_error": True}, found_input=False)
            continue
        ctx.violation(k, "%s (%d failing checks with this key)" % (r["what"][:400], len(rs)),
                      {"replay_py": REPLAY % (json.dumps(cases[r["case"]]), r["key"]), "observed": r["observed"], "expected": r["expected"]}, found_input=True)
