"""C20 — any partition of a mesh is a true partition and assembles row-complete systems;
Merge is the inverse bookkeeping.

1. static Coq: model coq/model/C20_Partition.v (+ proofs, scatter, merge), property theorems
   coq/props/C20/C20_theorems.v (for every Nproc, element->rank map and mesh).
2. correspondence: gmsh meshes of several element types (single group, TRI+QUAD, PRISM, PRISM+HEXA)
   split by Mesher._Mesh_Get_Meshes(Nproc); the element->rank map is READ BACK from the
   implementation's output and fed to the Gallina model (both variants: as written / proposed
   fix); the five arrays of every (group, part) and the owned-node sets are compared exactly
   inside Coq (vm_compute).
3. the property's own predicates are evaluated on the implementation's output (ownership,
   row-completeness, stiffness rows on owned dofs, energies and reactions summed over parts).
4. Mesh.Merge(..., return_mapping=True) against the Gallina model on integer-coordinate meshes.

Serial paths only: MPI is not available here (MPI_SIZE == 1), Reduce_sum/_Gather/PETSc are outside.
"""
import json
import os
import re

from vlib import common

CORR = os.path.join(common.VERIF, "corr", "C20_partition.py")
TOL = 1e-10          # relative; mismatches between 1e-12 and 1e-10 are logged as "margin used"
TIGHT = 1e-12

REPLAY = r'''
import sys, json
from corr.C20_partition import run_case
case = %(case)r
res = run_case(case)
kind = %(kind)r
print("case", case)
if "error" in res:
    print("implementation raised:", res["error"]); sys.exit(1)
bad = False
if kind in ("row", "any"):
    print("row-incomplete (rank, type, element, row, owned nodes hit):")
    for r in res["row_incomplete"][:6]:
        print("   ", r)
    print("count =", res["row_incomplete_count"], " expected 0")
    bad = bad or res["row_incomplete_count"] > 0
    K = res.get("K") or {}
    if "max_row_diff" in K:
        print("max |K_part - K_global| on owned rows =", K["max_row_diff"], "(scale %%g) at" %% K["scale"], K["worst_at"], " expected 0")
        print("sum over parts of owned-row energies =", K["E_sum_parts"], " global energy =", K["E_global"])
        bad = bad or K["max_row_diff"] > 1e-10 * K["scale"] or abs(K["E_sum_parts"] - K["E_global"]) > 1e-10 * abs(K["E_global"])
if kind in ("roundtrip", "any"):
    print("partition data after Save/Load_Mesh, deepcopy, pickle:", res.get("roundtrip_problems"), " expected []")
    bad = bad or bool(res.get("roundtrip_problems"))
if kind in ("support", "any"):
    S = (res.get("K") or {}).get("support") or {}
    if S:
        print("support reaction: sum over parts", S["sum_parts"], "global", S["global"], "; Calc_Reaction(empty) returned sizes", S["returned_sizes_for_empty_selection"], "on", S["parts_with_empty_selection"], "parts (expected all 0)")
        bad = bad or any(n != 0 for n in S["returned_sizes_for_empty_selection"]) or not (abs(S["sum_parts"] - S["global"]) <= 1e-10 * S["scale"])
if kind in ("energy", "any"):
    I = (res.get("K") or {}).get("impl") or {}
    if I:
        print("sum over parts of simu.Calc_Energy(K_part, u, dofs=owned) =", I["E_sum_parts"], " global simu.Calc_Energy =", I["E_global"], " 1/2 u.K u =", I["E_formula_global"])
        print("max |sum over parts of Calc_Reaction(owned dofs) - global Calc_Reaction| =", I["R_diff"], " |global reaction - K u| =", I["R_vs_Ku"], "(scale %%g)" %% I["R_scale"])
        bad = bad or abs(I["E_sum_parts"] - I["E_global"]) > 1e-10 * abs(I["E_global"]) or abs(I["E_global"] - I["E_formula_global"]) > 1e-10 * abs(I["E_formula_global"]) \
            or max(I["R_diff"], I["R_vs_Ku"]) > 1e-10 * I["R_scale"]
if kind in ("owners", "any"):
    ranks = {g["type"]: sorted(set(g["rank"])) for g in res["groups"] if g["main"]}
    print("owner ranks seen per main group (-1 none, -2 several):", ranks, " nodes partitioned:", res["nodes_partitioned"])
    bad = bad or (not res["nodes_partitioned"]) or any(min(v) < 0 for v in ranks.values() if v)
if kind in ("numbering", "any"):
    print("rows kept = global rows:", res["rows_ok"], " coordinates kept:", res["coords_ok"], " problems:", res["problems"])
    print("arrays not in canonical (sorted, consistent) form:", res["not_canonical"], " expected []")
    bad = bad or not (res["rows_ok"] and res["coords_ok"]) or bool(res["problems"]) or bool(res["not_canonical"])
sys.exit(1 if bad else 0)
'''

REPLAY_MERGE_SEAM = r'''
import sys
from corr.C20_partition import run_merge
case = %(case)r
res = run_merge(case)
if "error" in res:
    print("Mesh.Merge raised:", res["error"]); sys.exit(1)
p = case["perturb"]
print("cell size", case["coord_scale"], "seam distance", p["delta"], "(documented absolute tolerance 1e-12): merged nodes", res["Nn"], "expected", %(expected)r)
sys.exit(1 if res["Nn"] != %(expected)r else 0)
'''

REPLAY_MERGE = r'''
import sys
from corr.C20_partition import run_merge
case = %(case)r
res = run_merge(case)
bad = "error" in res
if bad:
    print("Mesh.Merge raised:", res["error"])
else:
    print("merged: %%d nodes, elements %%s" %% (len(res["coords"]), {t: len(r) for t, r in res["groups"].items()}))
    pts = [tuple(p) for p in res["coords"]]
    # 1. mapping composed with the merged coordinates recovers each input mesh
    for m, mp in zip(case["meshes"], res["mapping"]):
        for j, p in enumerate(m["coords"]):
            if res["coords"][mp[j]] != p:
                print("node", j, "coords", p, "mapped to", mp[j], "with coords", res["coords"][mp[j]]); bad = True
    if case["mergePoints"]:
        # 2. coincident nodes identified: no duplicated point, coincident inputs -> same output id
        ndistinct = len(set(tuple(p) for m in case["meshes"] for p in m["coords"]))
        print("merged nodes:", len(pts), " distinct input points:", ndistinct)
        bad = bad or len(pts) != ndistinct or len(set(pts)) != len(pts)
        ids = {}
        for m, mp in zip(case["meshes"], res["mapping"]):
            for j, p in enumerate(m["coords"]):
                if ids.setdefault(tuple(p), mp[j]) != mp[j]:
                    print("coincident input nodes at", p, "are mapped to different merged nodes", ids[tuple(p)], mp[j]); bad = True; break
    else:
        bad = bad or len(pts) != sum(len(m["coords"]) for m in case["meshes"])
    # 3. elements: every input element is present; with duplicate removal each geometric element once
    for t in set(t for m in case["meshes"] for t in m["groups"]):
        geo_in = [frozenset(tuple(m["coords"][n]) for n in row) for m in case["meshes"] for row in m["groups"].get(t, [])]
        geo_out = [frozenset(pts[n] for n in row) for row in res["groups"].get(t, [])]
        expect = len(set(geo_in)) if (case["unique"] and case["mergePoints"]) else None
        print(t, ": input elements", len(geo_in), "distinct", len(set(geo_in)), "merged", len(geo_out))
        bad = bad or set(geo_in) != set(geo_out) or (expect is not None and len(geo_out) != expect) or (not case["unique"] and len(geo_out) != len(geo_in))
    if not all(res.get("inputs_recovered", [True])):
        print("merged.coord[mapping[i]] == mesh_i.coord per input:", res["inputs_recovered"]); bad = True
    if res.get("two_step"):
        print("merge of merges:", res["two_step"]); bad = bad or not (res["two_step"]["points_equal"] and res["two_step"]["elements_equal"])
    if "area_expected" in case and res.get("area") is not None:
        print("area", res["area"], "expected", case["area_expected"])
        bad = bad or abs(res["area"] - case["area_expected"]) > 1e-10 * max(1.0, case["area_expected"])
sys.exit(1 if bad else 0)
'''


# --------------------------------------------------------------------------------------
def gen_cases(ctx):
    rng = ctx.rng
    quick = ctx.tier == "quick"
    meshes = []
    # single main group, several types (TRI10: the boundary group SEG4 is processed AFTER the main one)
    for et, ms in [("TRI3", 3.4), ("QUAD4", 3.4), ("TRI6", 5.0), ("QUAD8", 5.0), ("TRI10", 5.0), ("QUAD9", 5.0)]:
        meshes.append(("2d", {"elemType": et, "ms": ms, "organised": bool(rng.random() < 0.3)}))
    meshes.append(("2d", {"elemType": "TRI3", "ms": rng.choice([2.0, 2.5, 3.0])}))
    # quadratic 3-D types: one of them in the quick rotation too (ghost layer through mid-side nodes, >= 3 parts)
    for et in ["TETRA4", "HEXA8", "PRISM6"] + ([rng.choice(["TETRA10", "PRISM15", "HEXA20"])] if quick else ["TETRA10", "PRISM15", "HEXA20"]):
        coarse = quick and et in ("TETRA10", "PRISM15", "HEXA20")
        meshes.append(("3d", {"elemType": et, "ms": 4.0 if coarse else 2.0, "layers": 1 if coarse else rng.choice([1, 2]), "organised": et.startswith("HEXA")}))
    # several main-dimension groups
    mixed = [("mixed2d", {"w": 5, "ms": 5}), ("mixed2d", {"w": rng.choice([3, 5, 7]), "ms": rng.choice([3.4, 2.5])}),
             ("mixed3d", {"w": 3, "ms": 2.0, "layers": 1})]
    if not quick:
        mixed += [("mixed2d", {"w": w, "ms": ms}) for w in (3, 5, 7) for ms in (5, 3.4, 2.5)]
        mixed += [("mixed3d", {"w": 2, "ms": 1.5, "layers": 2})]
    # scaled twins: the same meshes with the mesher's length coefficient 2^-20 (~1e-6) and 2^10: the partition
    # arrays are coordinate-free, the K rows / energies / reactions are compared relative to their own scale
    twins = [(k, dict(p_, coef=cf)) for (k, p_), cf in zip([meshes[0], mixed[0], meshes[-2]], [2.0 ** -20, 2.0 ** 10, 2.0 ** -20])]
    if not quick:
        twins += [(k, dict(p_, coef=2.0 ** -30)) for k, p_ in (meshes[1], mixed[-1])]
    cases = []
    cid = 0
    for kind, params in meshes + mixed + twins:
        if quick:
            nps = sorted(set([1, rng.choice([2, 3]), rng.choice([4, 5, 6]), rng.choice([7, 8, 9, 10, 11, 12])]))
            if kind.startswith("mixed"):
                nps = sorted(set(nps + [3, 4]))
            if params.get("elemType") in ("TETRA10", "PRISM15", "HEXA20"):
                nps = [3, rng.choice([4, 5])]        # quick: a coarse quadratic 3-D mesh, >= 3 parts
            if "coef" in params:
                nps = [rng.choice([2, 3]), rng.choice([4, 5])]
        else:
            nps = list(range(1, 13))
        for n in nps:
            cases.append({"id": cid, "kind": kind, "params": params, "Nproc": n, "assemble": True,
                          "seed": rng.randrange(1 << 30)})
            cid += 1
    return cases


def gen_merge(ctx):
    rng = ctx.rng
    n = 12 if ctx.tier == "quick" else 60
    cases = []
    for i in range(n):
        nm = rng.choice([1, 2, 2, 3])
        meshes = []
        relation = rng.choice(["share-edge", "disjoint", "same", "overlap"])
        for k in range(nm):
            nx, ny = rng.randint(1, 3), rng.randint(1, 2)
            if relation == "share-edge":
                ox, oy = 8 * 3 * k if False else 0, 0
                ox = sum(8 * m["nx"] for m in meshes)
            elif relation == "disjoint":
                ox, oy = 80 * k, 8 * rng.randint(0, 2)
            elif relation == "same":
                ox, oy = 0, 0
                if meshes:
                    nx, ny = meshes[0]["nx"], meshes[0]["ny"]
            else:
                ox, oy = 8 * k, 0
            pts = [(ox + 8 * a, oy + 8 * b, 0) for b in range(ny + 1) for a in range(nx + 1)]
            perm = list(range(len(pts)))
            rng.shuffle(perm)            # node numbering of each input mesh is arbitrary
            inv = [0] * len(perm)
            for newi, old in enumerate(perm):
                inv[old] = newi
            coords = [list(pts[old]) for old in perm]
            quads, tris = [], []
            use_tri = rng.random() < 0.5
            for b in range(ny):
                for a in range(nx):
                    n0 = b * (nx + 1) + a
                    q = [n0, n0 + 1, n0 + nx + 2, n0 + nx + 1]
                    q = [inv[v] for v in q]
                    if use_tri and (a + b) % 2 == 0:
                        tris += [[q[0], q[1], q[2]], [q[0], q[2], q[3]]]
                    else:
                        quads.append(q)
            groups = {}
            if quads:
                groups["QUAD4"] = quads
            if tris:
                groups["TRI3"] = tris
            meshes.append({"coords": coords, "groups": groups, "nx": nx, "ny": ny})
        cases.append({"id": i, "meshes": meshes, "mergePoints": rng.random() < 0.8, "unique": rng.random() < 0.5,
                      "relation": relation})
    cases += gen_merge_structured(ctx, len(cases))
    cases += gen_merge_mixed_dims(ctx, len(cases))
    # scaled twins of some lists: spacing 2^-23 (~1e-7) and 2^7 in physical units, far from Merge's ABSOLUTE
    # tolerance 1e-12 (below a spacing of ~1e-12 distinct nodes are identified by documentation: not claimed)
    import copy as _copy
    twins = []
    plain = [c for c in cases if not c.get("perturb")]
    for c0 in rng.sample(plain, min(len(plain), 4 if ctx.tier == "quick" else 16)):
        c1 = _copy.deepcopy(c0)
        c1["id"] = len(cases) + len(twins)
        c1["coord_scale"] = rng.choice([2.0 ** -20, 2.0 ** 10])
        c1["relation"] = c0["relation"] + ":scaled"
        twins.append(c1)
    cases += twins
    for c in cases:
        # Mesh.coord is "global in its indexing only": rows of nodes no element group uses are never
        # written and read as (0, 0, 0) (documented in Mesh.coord) - that is the input Merge sees
        for m in c["meshes"]:
            used = set(n for rows in m["groups"].values() for row in rows for n in row)
            m["coords"] = [p if j in used else [0, 0, 0] for j, p in enumerate(m["coords"])]
        c["area_expected"] = merge_expected_area(c)
    return cases


def _grid_mesh(rng, nx, ny, ox, oy, use_tri=False, permute=True, keep=None, extra_pts=()):
    """nx x ny cells of size 8 at offset (ox, oy); keep = set of cell indices kept (None = all); all grid
    points (+ extra_pts) are in the coordinate array even when no kept cell uses them."""
    pts = [(ox + 8 * a, oy + 8 * b, 0) for b in range(ny + 1) for a in range(nx + 1)] + list(extra_pts)
    perm = list(range(len(pts)))
    if permute:
        rng.shuffle(perm)
    inv = [0] * len(perm)
    for newi, old in enumerate(perm):
        inv[old] = newi
    coords = [list(pts[old]) for old in perm]
    quads, tris = [], []
    for b in range(ny):
        for a in range(nx):
            if keep is not None and (b * nx + a) not in keep:
                continue
            n0 = b * (nx + 1) + a
            q = [inv[v] for v in (n0, n0 + 1, n0 + nx + 2, n0 + nx + 1)]
            if use_tri and (a + b) % 2 == 0:
                tris += [[q[0], q[1], q[2]], [q[0], q[2], q[3]]]
            else:
                quads.append(q)
    groups = {}
    if quads:
        groups["QUAD4"] = quads
    if tris:
        groups["TRI3"] = tris
    return {"coords": coords, "groups": groups, "nx": nx, "ny": ny}


def gen_merge_structured(ctx, first_id):
    """lists of >= 3 meshes with points shared by three or more of them."""
    rng = ctx.rng
    quick = ctx.tier == "quick"
    fams = []
    for rep in range(1 if quick else 4):
        n = rng.randint(1, 2)
        tri = rng.random() < 0.5
        # four quadrants sharing the centre node (4 coincident points), edges shared pairwise
        fams.append(("quadrants", [_grid_mesh(rng, n, n, 8 * n * i, 8 * n * j, use_tri=tri and (i + j) % 2 == 0) for j in (0, 1) for i in (0, 1)]))
        # the same mesh k times, each copy with its own node numbering
        k = rng.choice([3, 4])
        nx, ny = rng.randint(1, 3), rng.randint(1, 2)
        fams.append(("repeat-%d" % k, [_grid_mesh(rng, nx, ny, 0, 0, use_tri=tri) for _ in range(k)]))
        # 3-4 parts of a split: every part carries ALL global coordinate rows, owns a slice of the
        # cells plus one ghost cell of the next part (duplicated elements)
        nx, ny = rng.randint(2, 4), rng.randint(1, 2)
        k = rng.choice([3, 4])
        cells = list(range(nx * ny))
        parts = []
        for r in range(k):
            own = set(cells[r::k])
            ghost = {cells[(min(own) + 1) % len(cells)]} if own else set()
            parts.append(_grid_mesh(rng, nx, ny, 0, 0, use_tri=tri, permute=bool(rep % 2), keep=own | ghost))
        fams.append(("split-%d-parts" % k, [p for p in parts if p["groups"]]))
        # chain: mesh i overlaps mesh i+1 and i+2
        k = rng.choice([3, 4, 5])
        fams.append(("chain-%d" % k, [_grid_mesh(rng, 3, 1, 8 * i, 0, use_tri=tri and i % 2 == 0) for i in range(k)]))
        # star: k meshes touching in ONE corner point only
        fams.append(("corner-star", [_grid_mesh(rng, 1, 1, 8 * i, 8 * j) for (i, j) in ((0, 0), (1, 1), (1, 0))] +
                     [_grid_mesh(rng, 1, 1, 0, 8, extra_pts=[(8, 8, 0)])]))
    cases = []
    for name, meshes in fams:
        flags = [(True, True), (True, False)] + ([(False, rng.random() < 0.5)] if rng.random() < 0.5 or not quick else [])
        for mp, un in flags:
            cases.append({"id": first_id + len(cases), "meshes": meshes, "mergePoints": mp, "unique": un, "relation": name})
    return cases


def gen_merge_mixed_dims(ctx, first_id):
    """lists mixing dimensions with DISJOINT nodes (plate + free-standing SEG2 strut / POINT-free), merge of merges,
    and seams perturbed by an absolute distance below / above the documented tolerance 1e-12."""
    rng = ctx.rng
    quick = ctx.tier == "quick"
    cases = []

    def strut(x0, y0, n, horizontal=True):
        pts = [[x0 + 8 * k * (1 if horizontal else 0), y0 + 8 * k * (0 if horizontal else 1), 0] for k in range(n + 1)]
        perm = list(range(len(pts)))
        rng.shuffle(perm)
        inv = {old: new for new, old in enumerate(perm)}
        return {"coords": [pts[o] for o in perm], "groups": {"SEG2": [[inv[k], inv[k + 1]] for k in range(n)]}, "nx": n, "ny": 0}

    for rep in range(1 if quick else 3):
        nx, ny = rng.randint(1, 3), rng.randint(1, 2)
        plate = _grid_mesh(rng, nx, ny, 0, 0, use_tri=rng.random() < 0.5)
        free = strut(8 * (nx + 2), 8, rng.randint(1, 3))                    # disjoint from the plate
        attached = strut(8 * nx, 0, 2)                                      # starts on a plate corner
        plate2 = _grid_mesh(rng, 2, 1, 8 * (nx + 6), 16)
        fams = [("plate+free-strut", [plate, free]), ("strut+plate", [free, plate]),
                ("plate+attached-strut+free-strut", [plate, attached, free]),
                ("plate+strut+plate", [plate, free, plate2]), ("struts-only", [free, strut(0, 80, 2, False), attached])]
        for name, meshes in fams:
            for mp, un in ((True, True), (False, False)) if not quick else ((True, rng.random() < 0.5),):
                c = {"id": first_id + len(cases), "meshes": meshes, "mergePoints": mp, "unique": un, "relation": "mixed-dim:" + name}
                if len(meshes) >= 3:
                    c["two_step"] = rng.choice([2, len(meshes) - 1]) if len(meshes) > 2 else 2
                cases.append(c)
    # merge of merges on same-dimension lists too
    for rep in range(2 if quick else 6):
        k = rng.choice([3, 4])
        meshes = [_grid_mesh(rng, 2, 1, 16 * i - (8 if rep % 2 else 0) * i, 0, use_tri=rng.random() < 0.5) for i in range(k)]
        cases.append({"id": first_id + len(cases), "meshes": meshes, "mergePoints": True, "unique": rng.random() < 0.5,
                      "relation": "merge-of-merges", "two_step": rng.randint(2, k - 1)})
    # absolute tolerance, as documented: seam nodes 1e-13 apart are glued, 1e-11 apart are not - at sizes 1e-3 and 1e3
    for size in (1e-3, 1e3):
        for delta, glue in ((1e-13, True), (1e-11, False)):
            a = _grid_mesh(rng, 2, 2, 0, 0, permute=False)
            b = _grid_mesh(rng, 2, 2, 16, 0, permute=False)
            seam = [j for j, p in enumerate(b["coords"]) if p[0] == 16]
            cases.append({"id": first_id + len(cases), "meshes": [a, b], "mergePoints": True, "unique": True, "relation": "seam-%g-at-size-%g" % (delta, size),
                          "coord_scale": size, "perturb": {"mesh": 1, "nodes": seam, "delta": delta, "glue": glue}})
    return cases


def merge_expected_area(c):
    """exact area (cells of side 1 in physical units): each distinct geometric element once when
    duplicates are removed after point merging, every input element otherwise."""
    geo = []
    for m in c["meshes"]:
        for t, rows in m["groups"].items():
            for row in rows:
                if t in ("QUAD4", "TRI3"):
                    geo.append((frozenset(tuple(m["coords"][n]) for n in row), 1.0 if t == "QUAD4" else 0.5))
    if c["unique"] and c["mergePoints"]:
        return float(sum(dict(geo).values()))
    if c["unique"]:
        # without point merging only elements with identical node ids (after offsets) coincide: none across meshes
        return float(sum(a for _, a in geo))
    return float(sum(a for _, a in geo))


# --------------------------------------------------------------------------------------
def L(xs):
    return "[" + "; ".join(str(int(x)) for x in xs) + "]"


PREAMBLE = r'''From Coq Require Import List Arith Bool PeanoNat ZArith.
From EFModel Require Import C20_Partition.
Import ListNotations.
Fixpoint list_eqb (a b : list nat) : bool :=
  match a, b with [], [] => true | x :: a', y :: b' => Nat.eqb x y && list_eqb a' b' | _, _ => false end.
Fixpoint all2 {A} (f : A -> A -> bool) (a b : list A) : bool :=
  match a, b with [], [] => true | x :: a', y :: b' => f x y && all2 f a' b' | _, _ => false end.
Definition b2n (b : bool) : nat := if b then 1 else 0.
Definition out_bits (o p : out) : nat :=
  b2n (negb (list_eqb (o_elements o) (o_elements p))) + 2 * b2n (negb (list_eqb (o_ghosts o) (o_ghosts p)))
  + 4 * b2n (negb (list_eqb (o_nodes o) (o_nodes p))) + 8 * b2n (negb (list_eqb (o_ghostNodes o) (o_ghostNodes p)))
  + 16 * b2n (negb (list_eqb (o_global o) (o_global p))).
Fixpoint map2 {A B} (f : A -> A -> B) (a b : list A) : list B :=
  match a, b with x :: a', y :: b' => f x y :: map2 f a' b' | _, _ => [] end.
Definition diff_bits (a b : list (list out)) : list (list nat) := map2 (map2 out_bits) a b.
Definition same_shape (a b : list (list out)) : bool :=
  Nat.eqb (length a) (length b) && all2 (fun x y => Nat.eqb (length x) (length y)) a b.
Definition all_zero (l : list (list nat)) : bool := forallb (forallb (Nat.eqb 0)) l.
Definition report (N : nat) (gs : list group) (impl : list (list out)) (owned : list (list nat)) :=
  let pa := partition N false gs in
  let pb := partition N true gs in
  let oa := map (owned_nodes gs pa) (seq 0 N) in
  let ob := map (owned_nodes gs pb) (seq 0 N) in
  ( [ b2n (same_shape pa impl && all_zero (diff_bits pa impl)); b2n (same_shape pb impl && all_zero (diff_bits pb impl));
      b2n (all2 list_eqb oa owned); b2n (all2 list_eqb ob owned);
      b2n (row_complete_b N gs pa (owned_nodes gs pa)); b2n (row_complete_b N gs pb (owned_nodes gs pb)) ],
    diff_bits pa impl, diff_bits pb impl ).
(* merge comparison *)
Definition lmem (r : list nat) (l : list (list nat)) : bool := existsb (list_eqb r) l.
Fixpoint nodupb (l : list (list nat)) : bool := match l with [] => true | r :: t => negb (lmem r t) && nodupb t end.
Definition rows_of_tag (t : nat) (rm : list (list (nat * list (list nat)))) : list (list nat) :=
  flat_map (fun gl => flat_map (fun tg : nat * list (list nat) => if Nat.eqb (fst tg) t then snd tg else []) gl) rm.
Definition rows_match (unique : bool) (model impl : list (list nat)) : bool :=
  if unique then
    let km := map canon model in let ki := map canon impl in
    forallb (fun k => lmem k ki) km && forallb (fun k => lmem k km) ki && nodupb ki
    && forallb (fun r => lmem r model) impl
  else all2 list_eqb model impl.
'''


def coq_case(c, res):
    """Coq text evaluating the report of one case; None if the case cannot be fed to the model."""
    N = c["Nproc"]
    gs = []
    for g in res["groups"]:
        els = []
        for row, rk in zip(g["connect"], g["rank"]):
            if rk == -2:
                return None
            els.append("(%s, %d)" % (L(row), N if rk < 0 else rk))
        gs.append("(%s, [%s])" % ("true" if g["main"] else "false", "; ".join(els)))
    impl = []
    for gi in range(len(res["groups"])):
        row = []
        for r in range(N):
            o = res["parts"][r][gi]
            row.append("mk_out %s %s %s %s %s" % (L(o["elements"]), L(o["ghosts"]), L(o["nodes"]), L(o["ghostNodes"]), L(o["global"])))
        impl.append("[" + "; ".join(row) + "]")
    owned = "[" + "; ".join(L(o) for o in res["owned"]) + "]"
    cid = c["id"]
    return ("Definition gs_%d : list group := [%s].\nDefinition impl_%d : list (list out) := [%s].\n"
            "Eval vm_compute in (%d%%Z, report %d gs_%d impl_%d %s).\n"
            % (cid, ";\n  ".join(gs), cid, ";\n  ".join(impl), 7000000 + cid, N, cid, cid, owned))


def parse_reports(out):
    """-> {cid: (flags[6], bitsA, bitsB)}"""
    res = {}
    txt = out.replace("\n", " ")
    for m in re.finditer(r"=\s*\((7\d{6})%Z,\s*\((\[[^()]*?\]),\s*(\[[^()]*?\]),\s*(\[[^()]*?\])\)\)", txt):
        cid = int(m.group(1)) - 7000000

        def lit(s):
            return json.loads(s.replace(";", ","))
        res[cid] = (lit(m.group(2)), lit(m.group(3)), lit(m.group(4)))
    return res


FIELDS = ["elements", "ghostElements", "nodes", "ghostNodes", "globalElements"]


def first_diff(bits, res):
    for gi, row in enumerate(bits):
        for r, b in enumerate(row):
            if b:
                f = [FIELDS[k] for k in range(5) if (b >> k) & 1]
                return res["groups"][gi]["type"], r, f
    return None


# --------------------------------------------------------------------------------------
def run(ctx):
    ctx.assumptions += [
        "gmsh's partitioner is an oracle: the element->rank map is read back from the implementation's own output and is an input of the model; gmsh mesh generation is assumed deterministic for identical options (checked: the rows of every part equal the reference rows)",
        "MPI execution is not available: only the serial entry point Mesher._Mesh_Get_Meshes(Nproc) is exercised; mpi4py scatter/gather, Reduce_sum and PETSc are outside every claim",
        "Merge model: coincidence of points = equality (exact on the integer/dyadic coordinates used; the implementation uses a 1e-12 distance and scipy connected components, assumed to label components by first occurrence)",
        "Coq 8.16.1 kernel + vm_compute; stdlib real-number axioms only in the scatter/energy theorems (Print Assumptions)",
    ]
    ok_static, log = ctx.ensure_static()
    if not ok_static:
        ctx.obligation("static-lib", False, log[-1500:])
        ctx.violation("static-lib-build", "coq/lib or coq/model does not build", {"log": log[-3000:]}, found_input=False)
        return
    files = ctx.copy_props("C20/C20_theorems.v")
    # body of _Simu.Calc_Energy, regenerated from ctx.repo (fail closed)
    try:
        from translator import C20_energy as T_energy
        ce = T_energy.read_calc_energy(ctx.repo)
        open(os.path.join(ctx.build, "Gen_CalcEnergy.v"), "w").write(T_energy.emit_coq(ce))
        cr = T_energy.read_calc_reaction(ctx.repo)
        open(os.path.join(ctx.build, "Gen_CalcReaction.v"), "w").write(T_energy.emit_coq_reaction(cr))
        ctx.cov["calc_reaction_translated_terms"] = [(m, e) for m, e, _ in cr["terms"]]
        ctx.obligation("translate:Calc_Energy", True, ce["tree"])
        ctx.cov["calc_energy_translated_form"] = ce["tree"]
        files = files + ["Gen_CalcEnergy.v", "Gen_CalcReaction.v"] + ctx.copy_props("C20/C20_calc_energy.v")
    except Exception as ex:
        ctx.obligation("translate:Calc_Energy", False, str(ex))
        ctx.violation("translate:Calc_Energy", "translator rejected the body of _Simu.Calc_Energy / Calc_Reaction (the energy/reaction theorems no longer apply to the source): %s" % ex,
                      {"construct": str(ex)}, found_input=False)
    # relabelling step of Mesh.Merge, structural translation (fail closed)
    try:
        from translator import C20_energy as T_energy2
        mr = T_energy2.read_merge_relabel(ctx.repo)
        open(os.path.join(ctx.build, "Gen_Merge.v"), "w").write(T_energy2.emit_coq_merge(mr))
        ctx.obligation("translate:Merge-relabel", True, "connected components by first occurrence")
        files = files + ["Gen_Merge.v"] + ctx.copy_props("C20/C20_merge_source.v")
    except Exception as ex:
        ctx.obligation("translate:Merge-relabel", False, str(ex))
        ctx.violation("translate:Merge-relabel", "the point relabelling step of Mesh.Merge is no longer the connected-components labelling the Merge theorems are about: %s" % ex,
                      {"construct": str(ex)}, found_input=False)
    res = ctx.coq(files, timeout=600)
    if not res.ok:
        if res.failed_file == "C20_calc_energy.v":
            # keep going: the correspondence below calls the real Calc_Energy on every part
            ctx.violation("coq:C20_calc_energy", "the body of _Simu.Calc_Energy / Calc_Reaction translated from the source is no longer the owned-rows x full-vector form the energy/reaction theorems are about (C20_calc_energy.v does not compile)",
                          {"log": res.log[-600:], "translated": ctx.cov.get("calc_energy_translated_form")}, found_input=False)
        else:
            ctx.violation("coq:C20_theorems", "the property theorems no longer compile", {"log": res.log[-3000:]}, found_input=False)
            return

    # ---------------- implementation runs ----------------
    cases = gen_cases(ctx)
    merges = gen_merge(ctx)
    req = {"cases": cases, "merge": [{k: v for k, v in m.items()} for m in merges]}
    rc, out, err = ctx.impl_python(CORR, input=json.dumps(req), timeout=1500)
    if rc != 0 or "@@C20JSON@@" not in out:
        ctx.obligation("corr:impl-run", False, (err or out)[-1500:])
        ctx.violation("corr:impl-crash", "the implementation-side partition script failed: %s" % ((err.strip().splitlines() or ["rc=%d" % rc])[-1][:300]),
                      {"stderr": err[-3000:]}, found_input=False)
        return
    data = json.loads(out.split("@@C20JSON@@")[1])
    by_id = {r["id"]: r for r in data["cases"]}
    ctx.obligation("corr:impl-run", True, "%d partition cases, %d merge cases" % (len(cases), len(merges)))

    # ---------------- model runs (Coq) ----------------
    chunks, cur, size = [], [], 0
    skipped = {}
    for c in cases:
        r = by_id.get(c["id"])
        if r is None or "error" in r or "skipped" in r:
            continue
        txt = coq_case(c, r)
        if txt is None:
            skipped[c["id"]] = "element with several owners"
            continue
        if size + len(txt) > 400000 or len(cur) >= 60:
            chunks.append(cur)
            cur, size = [], 0
        cur.append(txt)
        size += len(txt)
    if cur:
        chunks.append(cur)
    reports = {}
    for k, ch in enumerate(chunks):
        rc, o = ctx.coq_eval("cases_%d.v" % k, PREAMBLE + "\n".join(ch), timeout=900)
        if rc != 0:
            ctx.obligation("corr:model-eval-%d" % k, False, o[-1500:])
            ctx.violation("corr:model-eval", "the generated model cases do not evaluate", {"log": o[-3000:]}, found_input=False)
            return
        reports.update(parse_reports(o))
    ctx.checker_cmds.append("coqc cases_*.v (vm_compute: Gallina partition, both variants, vs implementation arrays)")

    # ---------------- judge ----------------
    matchA = matchB = total = 0
    n_impl_energy = n_impl_solved = n_empty_sel = 0
    dist = {}
    margin = []
    viol_keys = set()
    mixed_incomplete = []
    mismatch_cases = []
    for c in cases:
        r = by_id.get(c["id"])
        tag = "%s:%s" % (c["kind"], c["params"].get("elemType", "TRI3+QUAD4" if c["kind"] == "mixed2d" else "PRISM6+HEXA8"))
        if r is not None and "skipped" in r:
            continue
        if r is None or "error" in r:
            key = "impl-raises:%s" % tag
            if key not in viol_keys:
                viol_keys.add(key)
                ctx.violation(key, "partitioning %s in %d parts raises: %s" % (tag, c["Nproc"], (r or {}).get("error", "no result")),
                              {"replay_py": REPLAY % dict(case=c, kind="any"), "case": c, "traceback": (r or {}).get("traceback")})
            continue
        total += 1
        main_types = [g["type"] for g in r["groups"] if g["main"]]
        nmain = len(main_types)
        dist[tag] = dist.get(tag, 0) + 1
        nontrivial = c["Nproc"] > 1 and any(len(p[gi]["ghosts"]) for p in r["parts"] for gi in range(len(r["groups"])))
        ctx.note_case("%s:N%d" % (tag, c["Nproc"]) if nontrivial else None)
        # -- direct predicates on the implementation's output
        bad_owner = [g["type"] for g in r["groups"] if g["main"] and any(k < 0 for k in g["rank"])]
        if bad_owner or not r["nodes_partitioned"]:
            key = "owners:%s" % tag
            if key not in viol_keys:
                viol_keys.add(key)
                ctx.violation(key, "%s, Nproc=%d: %s" % (tag, c["Nproc"], ("main-dimension elements of %s without exactly one owner" % bad_owner) if bad_owner else "owned node sets do not partition the mesh nodes"),
                              {"replay_py": REPLAY % dict(case=c, kind="owners"), "case": c})
        if not (r["rows_ok"] and r["coords_ok"] and r["order_same"]) or r["problems"] or r["not_canonical"]:
            key = ("numbering:%s" if not r["not_canonical"] else "canonical:%s") % tag
            if key not in viol_keys:
                viol_keys.add(key)
                ctx.violation(key, "%s, Nproc=%d: parts do not keep the global rows/node ids/coordinates or the partition arrays are not sorted/consistent (%s)" % (tag, c["Nproc"], (r["problems"] + r["not_canonical"])[:2]),
                              {"replay_py": REPLAY % dict(case=c, kind="numbering"), "case": c})
        if r.get("roundtrip_problems"):
            key = "partition-data:save-load-copy"
            if key not in viol_keys:
                viol_keys.add(key)
                ctx.violation(key, "%s, Nproc=%d: the partition data of a part does not survive Save/Load_Mesh / deepcopy / pickle (groups carry %d tags): %s"
                              % (tag, c["Nproc"], r.get("roundtrip_tags_seen", 0), r["roundtrip_problems"][:3]),
                              {"replay_py": REPLAY % dict(case=c, kind="roundtrip"), "case": c, "problems": r["roundtrip_problems"]})
        K = r.get("K") or {}
        kbad = False
        if "error" in K:
            kbad = True
            kmsg = "assembling on a part raises: " + K["error"]
        elif K:
            rel = K["max_row_diff"] / max(K["scale"], 1e-300)
            erel = abs(K["E_sum_parts"] - K["E_global"]) / max(abs(K["E_global"]), 1e-300)
            rrel = K["R_diff"] / max(K["R_scale"], 1e-300)
            worst = max(rel, erel, rrel)
            if worst > TOL:
                kbad = True
                kmsg = "K assembled on part %s differs from the global K on an owned row (node %s): max diff %.3g (scale %.3g); energies summed over parts %.12g vs global %.12g" % (
                    (K["worst_at"] or {}).get("rank"), (K["worst_at"] or {}).get("node"), K["max_row_diff"], K["scale"], K["E_sum_parts"], K["E_global"])
            elif worst > TIGHT:
                margin.append((c["id"], worst))
            S = K.get("support") or {}
            if S and not (r["row_incomplete_count"] or kbad):
                bad_empty = any(n != 0 for n in S["returned_sizes_for_empty_selection"])
                bad_sum = not (abs(S["sum_parts"] - S["global"]) <= TOL * S["scale"])
                n_empty_sel += S["parts_with_empty_selection"]
                if bad_empty or bad_sum:
                    key = "calc-energy-reaction:empty-selection" if bad_empty else "calc-energy-reaction:support-reaction"
                    if key not in viol_keys:
                        viol_keys.add(key)
                        ctx.violation(key, "%s, Nproc=%d: reaction on the clamped side, every part passing the support dofs it owns (%d parts own none and pass an empty array): Calc_Reaction(empty) returned %s values (expected 0); sum over the parts %.12g, global %.12g"
                                      % (tag, c["Nproc"], S["parts_with_empty_selection"], S["returned_sizes_for_empty_selection"], S["sum_parts"], S["global"]),
                                      {"replay_py": REPLAY % dict(case=c, kind="support"), "case": c, "support": S})
            I = K.get("impl") or {}
            if I:
                # Calc_Energy(A, x, dofs=owned) and Calc_Reaction(owned dofs) of the IMPLEMENTATION, part by
                # part, summed here (serial Reduce_sum = identity) vs the global call: C20_energy_sum_fixed_general
                ie = abs(I["E_sum_parts"] - I["E_global"]) / max(abs(I["E_global"]), 1e-300)
                ig = abs(I["E_global"] - I["E_formula_global"]) / max(abs(I["E_formula_global"]), 1e-300)
                ir = max(I["R_diff"], I["R_vs_Ku"]) / I["R_scale"]
                iw = max(ie, ig, ir)
                n_impl_energy += 1
                n_impl_solved += bool(I["solved_field"])
                if iw > TOL and not (r["row_incomplete_count"] or kbad):
                    key = "calc-energy-reaction:%s" % ("energy" if max(ie, ig) > TOL else "reaction")
                    if key not in viol_keys:
                        viol_keys.add(key)
                        ctx.violation(key, "%s, Nproc=%d (%s field): sum over the parts of simu.Calc_Energy(K_part, u, dofs=owned) = %.12g, global Calc_Energy = %.12g (1/2 u.K u = %.12g); Calc_Reaction summed over parts differs from the global one by %.3g (scale %.3g)"
                                      % (tag, c["Nproc"], "solved" if I["solved_field"] else "random", I["E_sum_parts"], I["E_global"], I["E_formula_global"], I["R_diff"], I["R_scale"]),
                                      {"replay_py": REPLAY % dict(case=c, kind="energy"), "case": c, "impl": I, "theorem": "C20_energy_sum_fixed_general / C20_reaction_sum_fixed_general"})
                elif iw > TIGHT:
                    margin.append((c["id"], iw))
        if r["row_incomplete_count"] or kbad:
            if nmain > 1:
                mixed_incomplete.append((c, r, kmsg if kbad else ""))
            else:
                key = "row-complete:%s" % tag
                if key not in viol_keys:
                    viol_keys.add(key)
                    what = "%s, Nproc=%d: " % (tag, c["Nproc"])
                    what += ("%d (rank, element) pairs: element touches a node the rank owns but is not in its part, e.g. %s. " % (r["row_incomplete_count"], r["row_incomplete"][:1]) if r["row_incomplete_count"] else "")
                    what += kmsg if kbad else ""
                    ctx.violation(key, what, {"replay_py": REPLAY % dict(case=c, kind="row"), "case": c, "row_incomplete": r["row_incomplete"][:5], "K": K})
        # -- model vs implementation
        rep = reports.get(c["id"])
        if rep is None:
            if c["id"] not in skipped:
                mismatch_cases.append((c, r, "no model report parsed"))
            continue
        flags, bitsA, bitsB = rep
        a_ok = flags[0] == 1 and flags[2] == 1
        b_ok = flags[1] == 1 and flags[3] == 1
        matchA += a_ok
        matchB += b_ok
        impl_rc = (r["row_incomplete_count"] == 0)
        if a_ok and bool(flags[4]) != impl_rc:
            mismatch_cases.append((c, r, "model(as written) row-complete=%s but implementation row-complete=%s" % (bool(flags[4]), impl_rc)))
        if not a_ok and not b_ok:
            d = first_diff(bitsA, r)
            mismatch_cases.append((c, r, "first difference with the as-written model: group %s rank %s fields %s" % d if d else "owned-node sets differ"))
        if len(ctx.samples) < 3 and nontrivial:
            ctx.sample({"case": tag, "Nproc": c["Nproc"], "groups": [(g["type"], len(g["connect"])) for g in r["groups"]],
                        "matches_model_as_written": a_ok, "matches_model_fixed": b_ok, "row_incomplete": r["row_incomplete_count"],
                        "K_max_row_diff": K.get("max_row_diff")})

    nbok = sum(1 for c in cases if by_id.get(c["id"], {}).get("boundary_ok"))
    ctx.cov["hypothesis_boundary_ok_holds_on_cases"] = "%d/%d" % (nbok, total)
    variant = "as-written" if matchA == total else ("fixed" if matchB == total else "neither")
    ctx.cov.update({"parts_with_empty_support_selection": n_empty_sel, "calc_energy_reaction_cases": n_impl_energy, "calc_energy_cases_with_solved_field": n_impl_solved,
                    "partition_cases": total, "match_model_as_written": matchA, "match_model_fixed": matchB,
                    "implementation_variant": variant, "case_distribution": dist,
                    "Nproc_values": sorted(set(c["Nproc"] for c in cases)),
                    "margin_used_between_1e-12_and_1e-10": margin[:10],
                    "mixed_cases_row_incomplete": len(mixed_incomplete)})
    ctx.obligation("corr:partition-vs-model", variant != "neither" and not mismatch_cases,
                   "%d cases; %d match the as-written model, %d the fixed model" % (total, matchA, matchB), n=max(total, 1))
    if mismatch_cases:
        c, r, why = mismatch_cases[0]
        tag = "%s:N%d" % (c["kind"], c["Nproc"])
        # property predicates hold on the implementation's output? then it is a broken correspondence
        ctx.violation("correspondence:partition", "implementation and Gallina model disagree (%d cases), e.g. %s %s: %s" % (len(mismatch_cases), tag, c["params"], why),
                      {"replay_py": REPLAY % dict(case=c, kind="any"), "case": c, "why": why,
                       "note": "the replay evaluates the property's predicates on the implementation; exit 0 there means the model no longer corresponds to the code (theorems no longer apply)"},
                      found_input=False)
    # several main-dimension groups: the theorem that would be needed is refuted on the as-written model
    if variant == "as-written" or mixed_incomplete:
        if mixed_incomplete:
            mixed_incomplete.sort(key=lambda t: (len(t[1]["groups"][1]["connect"]) + t[0]["Nproc"]))
            c, r, kmsg = mixed_incomplete[0]
            what = ("mesh with several main-dimension element groups (%s), Nproc=%d: %d (rank, element) pairs where an element touches a node the rank owns but is missing from its part, e.g. %s; the ghost layer is built from the nodes claimed in the current element group only (C20_row_complete_refuted). %s"
                    % ("+".join(g["type"] for g in r["groups"] if g["main"]), c["Nproc"], r["row_incomplete_count"], r["row_incomplete"][:1], kmsg))
            ctx.violation("row-complete:mixed-main-groups:ghost-layer-current-group", what,
                          {"replay_py": REPLAY % dict(case=c, kind="row"), "case": c, "row_incomplete": r["row_incomplete"][:5], "K": r.get("K"),
                           "model_witness": "C20_row_complete_refuted (TRI3 (0 1 2) on rank 0, QUAD4 (1 3 4 2) on rank 1)",
                           "proposed_fix": "proposed_fixes/C20-ghost-layer-all-owned-nodes.diff"})
        else:
            ctx.violation("row-complete:mixed-main-groups:ghost-layer-current-group",
                          "the implementation matches the as-written model on every case, for which row-completeness on meshes with several main-dimension groups is refuted in Coq (C20_row_complete_refuted); no failing gmsh mesh was hit in this run",
                          {"theorem": "C20_row_complete_refuted"}, found_input=False)

    # ---------------- Merge ----------------
    run_merge(ctx, merges, data["merge"])


def merge_predicates(m, r):
    probs = []
    pts = [tuple(p) for p in r["coords"]]
    if not all(r["coords"][mp[j]] == p for mesh, mp in zip(m["meshes"], r["mapping"]) for j, p in enumerate(mesh["coords"])):
        probs.append(("mapping", "mapping composed with the merged coordinates does not recover the input nodes"))
    if m["mergePoints"]:
        nd = len(set(tuple(p) for mesh in m["meshes"] for p in mesh["coords"]))
        if len(pts) != nd or len(set(pts)) != len(pts):
            probs.append(("coincident-nodes-not-merged", "%d merged nodes for %d distinct input points (%d duplicated merged points)" % (len(pts), nd, len(pts) - len(set(pts)))))
        ids = {}
        for mesh, mp in zip(m["meshes"], r["mapping"]):
            for j, p in enumerate(mesh["coords"]):
                if ids.setdefault(tuple(p), mp[j]) != mp[j]:
                    probs.append(("coincident-nodes-different-ids", "coincident input nodes at %s are mapped to different merged nodes %d and %d" % (p, ids[tuple(p)], mp[j])))
                    break
            else:
                continue
            break
    elif len(pts) != sum(len(mesh["coords"]) for mesh in m["meshes"]):
        probs.append(("node-count", "mergePoints=False must keep every input node"))
    for t in sorted(set(t for mesh in m["meshes"] for t in mesh["groups"])):
        gin = [frozenset(tuple(mesh["coords"][n]) for n in row) for mesh in m["meshes"] for row in mesh["groups"].get(t, [])]
        gout = [frozenset(pts[n] for n in row) for row in r["groups"].get(t, [])]
        if set(gin) != set(gout):
            probs.append(("elements", "%s: merged elements are not the input elements" % t))
        elif m["unique"] and m["mergePoints"] and len(gout) != len(set(gin)):
            probs.append(("duplicate-elements-kept", "%s: %d merged elements for %d distinct input elements" % (t, len(gout), len(set(gin)))))
        elif not m["unique"] and len(gout) != len(gin):
            probs.append(("elements", "%s: %d merged elements for %d input elements without duplicate removal" % (t, len(gout), len(gin))))
    if not all(r.get("inputs_recovered", [True])):
        bad_i = [i for i, ok in enumerate(r["inputs_recovered"]) if not ok]
        probs.append(("coords-of-inputs", "merged.coord[mapping[i]] != mesh_i.coord for input(s) %s (groups %s)" % (bad_i, [sorted(m["meshes"][i]["groups"]) for i in bad_i])))
    ts = r.get("two_step")
    if ts and not (ts["points_equal"] and ts["elements_equal"]):
        probs.append(("merge-of-merges", "Merge([Merge(first %s), rest]) has %d nodes, the one-step merge %d; same points: %s, same elements: %s"
                      % (m.get("two_step"), ts["Nn_two_step"], ts["Nn_one_step"], ts["points_equal"], ts["elements_equal"])))
    if r.get("area") is not None and "area_expected" in m and abs(r["area"] - m["area_expected"]) > 1e-10 * max(1.0, m["area_expected"]):
        probs.append(("area", "area %.12g, expected %.12g" % (r["area"], m["area_expected"])))
    return probs


def judge_perturbed_seam(ctx, m, r):
    """the documented tolerance of Mesh.Merge is ABSOLUTE (mergePointsTol = 1e-12): seam nodes 1e-13 apart are one
    node, 1e-11 apart are two, whatever the size of the meshes."""
    pert = m["perturb"]
    na, nb = len(m["meshes"][0]["coords"]), len(m["meshes"][1]["coords"])
    nseam = len(pert["nodes"])
    expected = na + nb - nseam if pert["glue"] else na + nb
    # seam partners in mesh 0: same integer coordinates
    pos0 = {tuple(p): j for j, p in enumerate(m["meshes"][0]["coords"])}
    partners = [(pos0[tuple(m["meshes"][1]["coords"][j])], j) for j in pert["nodes"]]
    same = [r["mapping"][0][a] == r["mapping"][1][b] for a, b in partners]
    ok = r["Nn"] == expected and (all(same) if pert["glue"] else not any(same)) and all(r.get("inputs_recovered", [True]))
    ctx.note_case("merge:%s" % m["relation"])
    ctx.obligation("corr:merge-absolute-tolerance:%s" % m["relation"], ok, "%d nodes, expected %d" % (r["Nn"], expected))
    if not ok:
        ctx.violation("merge:absolute-tolerance:%s" % ("not-glued-within-tol" if pert["glue"] else "glued-beyond-tol"),
                      "Mesh.Merge of two 2x2 plates of cell size %g whose seam nodes are %g apart (documented ABSOLUTE tolerance 1e-12): %d merged nodes, expected %d (%s)"
                      % (m["coord_scale"], pert["delta"], r["Nn"], expected, "seam nodes must be identified" if pert["glue"] else "seam nodes must stay distinct"),
                      {"replay_py": REPLAY_MERGE_SEAM % dict(case=m, expected=expected), "case": m, "impl_Nn": r["Nn"]})


def run_merge(ctx, merges, results):
    by_id = {r["id"]: r for r in results}
    names = ["POINT", "SEG2", "TRI3", "QUAD4"]
    body = []
    ok_ids = []
    for m in merges:
        r = by_id.get(m["id"])
        if m.get("perturb") and r is not None and "error" not in r:
            judge_perturbed_seam(ctx, m, r)
            continue
        if r is None or "error" in r or not r.get("coords_exact", False):
            mixed = any(len(mesh["groups"]) > 1 for mesh in m["meshes"])
            err = str((r or {}).get("error", "inexact coordinates"))
            ctx.violation("merge:raises:%s:%s:%s" % (err.split(":")[0], "single-mesh" if len(m["meshes"]) == 1 else "several-meshes", "mixed-types" if mixed else "one-type"),
                          "Mesh.Merge(list of %d mesh(es)%s, return_mapping=True) raised or returned inexact coordinates on integer data: %s" % (len(m["meshes"]), " with TRI3+QUAD4 groups" if mixed else "", err),
                          {"replay_py": REPLAY_MERGE % dict(case=m), "case": m})
            continue
        ms = []
        for mesh in m["meshes"]:
            groups = "; ".join("(%d, [%s])" % (names.index(t), "; ".join(L(row) for row in rows)) for t, rows in mesh["groups"].items())
            ms.append("([%s], [%s])" % ("; ".join(L(p) for p in mesh["coords"]), groups))
        tags = [names.index(t) for t in r["groups"]]
        irows = "[" + "; ".join("[" + "; ".join(L(row) for row in rows) + "]" for rows in r["groups"].values()) + "]"
        cmp_rows = " && ".join("rows_match %s (rows_of_tag %d (remap (list nat) list_eqb %s ms_%d [])) [%s]" % (
            "true" if m["unique"] else "false", names.index(t), "true" if m["mergePoints"] else "false", m["id"],
            "; ".join(L(row) for row in rows)) for t, rows in r["groups"].items()) or "true"
        body.append("Definition ms_%d : list (mesh (list nat)) := [%s].\nEval vm_compute in (8%06d%%Z, [b2n (all2 list_eqb (new_coords (list nat) list_eqb %s ms_%d) [%s]); b2n (all2 list_eqb (mapping (list nat) list_eqb %s ms_%d []) [%s]); b2n (%s)]).\n"
                    % (m["id"], ";\n ".join(ms), m["id"], "true" if m["mergePoints"] else "false", m["id"], "; ".join(L(p) for p in r["coords"]),
                       "true" if m["mergePoints"] else "false", m["id"], "; ".join(L(mp) for mp in r["mapping"]), cmp_rows))
        ok_ids.append(m["id"])
    if not body:
        return
    rc, o = ctx.coq_eval("merge_cases.v", PREAMBLE + "\n".join(body), timeout=600)
    if rc != 0:
        ctx.obligation("corr:merge-model-eval", False, o[-1500:])
        ctx.violation("corr:merge-model-eval", "the generated merge cases do not evaluate", {"log": o[-3000:]}, found_input=False)
        return
    txt = o.replace("\n", " ")
    got = {int(m.group(1)) - 8000000: json.loads(m.group(2).replace(";", ",")) for m in re.finditer(r"=\s*\((8\d{6})%Z,\s*(\[[^\]]*\])\)", txt)}
    bad = []
    for m in merges:
        if m["id"] not in ok_ids:
            continue
        f = got.get(m["id"])
        rel = m["relation"] if len(m["meshes"]) > 1 else "single"
        ctx.note_case("merge:%s:%s:%s:%d" % (rel, m["mergePoints"], m["unique"], len(m["meshes"])))
        if f != [1, 1, 1]:
            bad.append((m, f))
    ctx.cov["merge_cases"] = len(ok_ids)
    ctx.obligation("corr:merge-vs-model", not bad, "%d merge cases (coords, mapping, remapped connectivity)" % len(ok_ids), n=max(len(ok_ids), 1))
    # the property's own predicates on the implementation's output
    pred_bad = set()
    for m in merges:
        if m["id"] not in ok_ids:
            continue
        r = by_id[m["id"]]
        probs = merge_predicates(m, r)
        for pb, msg in probs:
            key = "merge:%s:%s" % (pb, "3+meshes" if len(m["meshes"]) >= 3 else "%d-mesh" % len(m["meshes"]))
            if key in pred_bad:
                continue
            pred_bad.add(key)
            ctx.violation(key, "Mesh.Merge of %d meshes (%s, mergePoints=%s, constructUniqueElements=%s): %s"
                          % (len(m["meshes"]), m["relation"], m["mergePoints"], m["unique"], msg),
                          {"replay_py": REPLAY_MERGE % dict(case=m), "case": m, "impl": r, "theorems": "C20_merge_identifies / C20_merge_no_duplicate_points / C20_merge_inverse"})
    ctx.obligation("corr:merge-predicates", not pred_bad, "node count, coincident->same id, element sets, area, coordinates recovered", n=max(len(ok_ids), 1))
    if bad and not pred_bad:
        m, f = bad[0]
        r = by_id[m["id"]]
        # property predicate on the implementation output
        recovered = all(r["coords"][mp[j]] == p for mesh, mp in zip(m["meshes"], r["mapping"]) for j, p in enumerate(mesh["coords"]))
        ctx.violation("merge:mapping" if not recovered else "correspondence:merge",
                      "Mesh.Merge disagrees with the model (new coords ok=%s, mapping ok=%s, connectivity ok=%s) on %d meshes, relation %s, mergePoints=%s, unique=%s"
                      % (tuple(f or [None] * 3) + (len(m["meshes"]), m["relation"], m["mergePoints"], m["unique"])),
                      {"replay_py": REPLAY_MERGE % dict(case=m), "case": m, "impl": r}, found_input=not recovered)
