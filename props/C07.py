"""C07 — quadrature rules: inside, total weight, documented exactness, factory totality,
stiffness rule rich enough (thermal gradient rank on the reference element)."""
import itertools
import json
import math
import os
import re
from fractions import Fraction as F

from translator import elems as T_elems, gauss as T_gauss, pyexpr
from translator.pyexpr import TranslateError
from vlib import common

TOL = F(1, 10**14)
MEAS = {"Seg": F(2), "Tri": F(1, 2), "Quad": F(4), "Tet": F(1, 6), "Hex": F(8), "Prism": F(1)}
DIM = {"Seg": 1, "Tri": 2, "Quad": 2, "Tet": 3, "Hex": 3, "Prism": 3}
ELEM_OF = {"Seg": "SEG2", "Tri": "TRI3", "Quad": "QUAD4", "Tet": "TETRA4", "Hex": "HEXA8", "Prism": "PRISM6"}


def iseg(a):
    return F(2, a + 1) if a % 2 == 0 else F(0)


def fact(n):
    return math.factorial(n)


def iref(sh, e):
    if sh == "Seg":
        return iseg(e[0])
    if sh == "Tri":
        return F(fact(e[0]) * fact(e[1]), fact(e[0] + e[1] + 2))
    if sh == "Quad":
        return iseg(e[0]) * iseg(e[1])
    if sh == "Tet":
        return F(fact(e[0]) * fact(e[1]) * fact(e[2]), fact(sum(e) + 3))
    if sh == "Hex":
        return iseg(e[0]) * iseg(e[1]) * iseg(e[2])
    if sh == "Prism":
        return F(fact(e[0]) * fact(e[1]), fact(e[0] + e[1] + 2)) * iseg(e[2])


def exps(dim, n):
    return [v for v in itertools.product(range(n + 1), repeat=dim) if sum(v) <= n]


def doc_exps(sh, doc):
    if sh == "Prism":
        ox, oyz = doc
        return [ab + (c,) for ab in exps(2, oyz) for c in range(ox + 1)]
    return exps(DIM[sh], doc[0])


def inside(sh, p):
    if sh in ("Seg", "Quad", "Hex"):
        return all(-1 <= x <= 1 for x in p)
    if sh in ("Tri", "Tet"):
        return all(x >= 0 for x in p) and sum(p) <= 1
    return p[0] >= 0 and p[1] >= 0 and p[0] + p[1] <= 1 and -1 <= p[2] <= 1


REPLAY_RULE = r'''
import sys
from fractions import Fraction as F
from math import factorial as fact
from EasyFEA.FEM._gauss import Gauss
from EasyFEA.FEM._utils import ElemType
g = Gauss(getattr(ElemType, %(elem)r), %(npg)d)
kind = %(kind)r
if kind == "total":
    s = sum(F(float(w)) for w in g.weights)
    print("sum of weights", float(s), "reference measure", %(meas)r, "difference", float(s - F(%(meas)r)))
    sys.exit(1 if abs(s - F(%(meas)r)) > F(1, 10**14) else 0)
if kind == "inside":
    print("points", g.coord.tolist()); sys.exit(1)
e = %(exp)r
val = F(0)
for p, w in zip(g.coord, g.weights):
    m = F(1)
    for x, a in zip(p, e):
        m *= F(float(x)) ** a
    val += F(float(w)) * m
ref = F(%(ref)r)
print("rule", %(elem)r, %(npg)d, "monomial exponents", e, ": quadrature", float(val), "exact", float(ref), "error", float(val - ref))
sys.exit(1 if abs(val - ref) > F(1, 10**14) else 0)
'''

REPLAY_GROUP = r'''
import sys, numpy as np
from EasyFEA.FEM._gauss import Gauss
from EasyFEA.FEM._group_elem import GroupElemFactory
from EasyFEA.FEM._utils import ElemType, MatrixType
bad = 0
for order in (list(ElemType), list(ElemType)[::-1]):
    for et in order:
        if et == ElemType.POINT:
            continue
        gid, nPe, dim = GroupElemFactory.DICT_ELEMTYPE[et][:3]
        g = GroupElemFactory.GROUP_CLASS_MAP[et](gid, np.arange(nPe).reshape(1, -1), np.zeros((nPe, 3)))
        for mt in (MatrixType.rigi, MatrixType.mass):
            a, b = g.Get_gauss(mt), Gauss(et, mt)
            if a.nPg != b.nPg or not np.array_equal(a.coord, b.coord) or not np.array_equal(a.weights, b.weights):
                print(et.name, mt.name, "group rule", a.nPg, "points; factory", b.nPg); bad += 1
sys.exit(1 if bad else 0)
'''

REPLAY_RANK = r'''
import sys, numpy as np
from EasyFEA.FEM._group_elem import GroupElemFactory
from EasyFEA.FEM._utils import ElemType, MatrixType
et = getattr(ElemType, %(elem)r)
gid, nPe, dim = GroupElemFactory.DICT_ELEMTYPE[et][:3]
cls = GroupElemFactory.GROUP_CLASS_MAP[et]
g0 = cls(gid, np.arange(nPe).reshape(1, -1), np.zeros((nPe, 3)))
loc = np.asarray(g0.Get_Local_Coords(), dtype=float)
coords = np.zeros((nPe, 3)); coords[:, :dim] = loc
g = cls(gid, np.arange(nPe).reshape(1, -1), coords)
dN = g.Get_dN_e_pg(MatrixType.rigi)
wJ = g.Get_weightedJacobian_e_pg(MatrixType.rigi)
K = np.einsum("ep,epdi,epdj->ij", np.asarray(wJ), np.asarray(dN), np.asarray(dN))
ev = np.linalg.eigvalsh(K)
nz = int((ev < 1e-10 * ev.max()).sum())
print("reference %%s element, conduction matrix with the 'rigi' rule: %%d zero eigenvalues (expected 1: constants)" %% (%(elem)r, nz))
print("eigenvalues", ev)
sys.exit(1 if nz != 1 else 0)
'''


def search_rules(dump):
    found = []
    for r in dump["rules"]:
        sh, n = r["shape"], r["npg"]
        pts = [[T_gauss.fr(x) for x in p] for p in r["pts"]]
        ws = [T_gauss.fr(w) for w in r["w"]]
        base = dict(elem=ELEM_OF[sh], npg=n, meas=str(MEAS[sh]), exp=[], ref="0")
        if len(pts) != n or len(ws) != n or not all(len(p) == DIM[sh] and inside(sh, p) for p in pts):
            found.append(("inside:%s%d" % (sh, n), "rule %s(%d): a point lies outside the reference element or counts differ" % (sh, n),
                          {"replay_py": REPLAY_RULE % dict(base, kind="inside")}))
        if abs(sum(ws) - MEAS[sh]) > TOL:
            found.append(("total:%s%d" % (sh, n), "rule %s(%d): weights sum to measure %+.3e" % (sh, n, float(sum(ws) - MEAS[sh])),
                          {"replay_py": REPLAY_RULE % dict(base, kind="total"), "sum_minus_measure": str(sum(ws) - MEAS[sh])}))
        for e in doc_exps(sh, r["doc"]):
            val = sum(w * math.prod(x ** a for x, a in zip(p, e)) for p, w in zip(pts, ws))
            if abs(val - iref(sh, e)) > TOL:
                found.append(("exact:%s%d" % (sh, n), "rule %s(%d) documented order %s: monomial %s integrated with error %.3e" % (sh, n, r["doc"], list(e), float(val - iref(sh, e))),
                              {"replay_py": REPLAY_RULE % dict(base, kind="exact", exp=list(e), ref=str(iref(sh, e))), "monomial": list(e), "error": str(val - iref(sh, e))}))
                break
    return found


# --------------------------------------------------------------------------------------
# implementation level: lengths / areas / volumes / centroids / Integrate_e of polynomials on
# straight-sided (affine, and bilinear quadrangle) elements vs exact rational integrals
# --------------------------------------------------------------------------------------
def _padd(p, q):
    r = dict(p)
    for k, v in q.items():
        r[k] = r.get(k, 0) + v
    return r


def _pmul(p, q):
    r = {}
    for k1, v1 in p.items():
        for k2, v2 in q.items():
            k = tuple(a + b for a, b in zip(k1, k2))
            r[k] = r.get(k, 0) + v1 * v2
    return r


def _ppow(p, n, dim):
    r = {tuple([0] * dim): F(1)}
    for _ in range(n):
        r = _pmul(r, p)
    return r


REPLAY_INT = r"""
import json, os, subprocess, sys
req = json.loads(%(req)r)
exp = json.loads(%(exp)r)
p = subprocess.run([sys.executable, %(script)r], input=json.dumps(req), capture_output=True, text=True, env=os.environ)
if p.returncode != 0:
    print(p.stderr[-800:]); sys.exit(1)
r = json.loads(p.stdout)[0]
print("implementation:", {k: r.get(k) for k in ("measure", "center", "int_mass", "int_rigi", "raises")})
print("exact         :", exp)
bad = "raises" in r
if not bad:
    bad |= abs(r["measure"] - exp["measure"]) > 1e-10 * exp["measure"]
    bad |= any(abs(a - b) > 1e-10 * exp["L"] for a, b in zip(r["center"], exp["center"]))
    for mt in ("mass", "rigi"):
        bad |= any(e is not None and abs(a - e) > 1e-10 * s for a, e, s in zip(r["int_" + mt], exp["int_" + mt], exp["iscale"]))
sys.exit(1 if bad else 0)
"""


def impl_integration(ctx, dump, E):
    rng = ctx.rng
    ndoc = {}
    for f in dump["factory"]:
        rule = [r for r in dump["rules"] if (r["shape"], r["npg"]) == (f["shape"], f["npg"])]
        if rule:
            ndoc[(f["elem"], f["matrix"])] = min(rule[0]["doc"])
    cases, exact = [], []
    reps = 1 if ctx.tier == "quick" else 4
    for name, r in E.items():
        dim = r["dim"]
        for _ in range(reps):
            while True:
                A = [[F(rng.randint(-6, 6), 4) for _ in range(dim)] for _ in range(dim)]
                det = A[0][0] if dim == 1 else (A[0][0] * A[1][1] - A[0][1] * A[1][0] if dim == 2 else
                        sum(A[0][i] * (A[1][(i + 1) % 3] * A[2][(i + 2) % 3] - A[1][(i + 2) % 3] * A[2][(i + 1) % 3]) for i in range(3)))
                if abs(det) >= F(1, 8):
                    break
            b = [F(rng.randint(-8, 8), 4) for _ in range(dim)]
            # unit change: the same element in other length units (nano-scale .. kilometres)
            sL = rng.choice([F(1), F(1), F(1, 10**9), F(1, 10**6), F(10**3)])
            A = [[x * sL for x in row] for row in A]
            b = [x * sL for x in b]
            det = det * sL ** dim
            sh = {"SEG": "Seg", "TRI": "Tri", "QUAD": "Quad", "TETRA": "Tet", "HEXA": "Hex", "PRISM": "Prism"}[name.rstrip("0123456789")]
            dmax = max(ndoc.get((name, "mass"), 0), ndoc.get((name, "rigi"), 0))
            exps_ = [e for e in exps(dim, dmax)]
            rng.shuffle(exps_)
            exps_ = exps_[:8] + [tuple([0] * dim)]
            # x_k(xi) as polynomials in xi
            X = []
            for k in range(dim):
                pk = {tuple([0] * dim): b[k]}
                for d in range(dim):
                    e = [0] * dim
                    e[d] = 1
                    pk = _padd(pk, {tuple(e): A[d][k]})
                X.append(pk)

            def integral(ex):
                poly = {tuple([0] * dim): F(1)}
                for k in range(dim):
                    poly = _pmul(poly, _ppow(X[k], ex[k], dim))
                return abs(det) * sum(c * iref(sh, m) for m, c in poly.items())
            meas = abs(det) * MEAS[sh]
            cen = [integral(tuple(int(j == k) for j in range(dim))) / meas for k in range(dim)]
            ex3 = [list(e) + [0] * (3 - dim) for e in exps_]
            ints = {}
            for mt in ("mass", "rigi"):
                ints[mt] = [float(integral(e)) if sum(e) <= ndoc.get((name, mt), -1) else None for e in exps_]
            cases.append({"elem": name, "A": [[float(x) for x in row] for row in A], "b": [float(x) for x in b], "exps": ex3})
            L = float(sum(max(abs(A[d][k]) for k in range(dim)) for d in range(dim)) + max(abs(x) for x in b)) or float(sL)
            exact.append({"measure": float(meas), "center": [float(x) for x in cen] + [0.0] * (3 - dim), "int_mass": ints["mass"], "int_rigi": ints["rigi"],
                          "L": L, "iscale": [L ** sum(e) * float(meas) for e in exps_]})
    # straight-sided general quadrangles: area by the shoelace formula, centroid of the polygon
    for name in ("QUAD4", "QUAD8", "QUAD9"):
        r = E[name]
        for _ in range(reps):
            V = [(F(0) + F(rng.randint(-2, 2), 8), F(0) + F(rng.randint(-2, 2), 8)), (F(2) + F(rng.randint(-2, 2), 8), F(rng.randint(-2, 2), 8)),
                 (F(2) + F(rng.randint(-2, 6), 8), F(1) + F(rng.randint(-2, 6), 8)), (F(rng.randint(-2, 2), 8), F(1) + F(rng.randint(-2, 2), 8))]
            # bilinear image of every reference node (mid nodes at the bilinear images)
            nodes = []
            for (xr, xs) in r["nodes"]:
                w = [(1 - xr) * (1 - xs) / 4, (1 + xr) * (1 - xs) / 4, (1 + xr) * (1 + xs) / 4, (1 - xr) * (1 + xs) / 4]
                nodes.append([sum(wi * v[0] for wi, v in zip(w, V)), sum(wi * v[1] for wi, v in zip(w, V)), F(0)])
            area = sum(V[i][0] * V[(i + 1) % 4][1] - V[(i + 1) % 4][0] * V[i][1] for i in range(4)) / 2
            cx = sum((V[i][0] + V[(i + 1) % 4][0]) * (V[i][0] * V[(i + 1) % 4][1] - V[(i + 1) % 4][0] * V[i][1]) for i in range(4)) / (6 * area)
            cy = sum((V[i][1] + V[(i + 1) % 4][1]) * (V[i][0] * V[(i + 1) % 4][1] - V[(i + 1) % 4][0] * V[i][1]) for i in range(4)) / (6 * area)
            cases.append({"elem": name, "nodes": [[float(x) for x in nd] for nd in nodes], "exps": [[0, 0, 0]]})
            exact.append({"measure": float(area), "center": [float(cx), float(cy), 0.0], "int_mass": [float(area)], "int_rigi": [float(area)], "L": 4.0, "iscale": [float(area)]})
    rc, out, err = ctx.impl_python(os.path.join(common.VERIF, "corr", "impl_integrate.py"), input=json.dumps({"cases": cases}), timeout=900)
    if rc != 0:
        ctx.obligation("corr:impl-integration", False, err[-1200:])
        ctx.violation("corr:integration-impl-crash", "implementation-side integration run failed: " + ((err.strip().splitlines() or ["?"])[-1][:200]), {"stderr": err[-3000:]}, found_input=False)
        return
    res = json.loads(out)
    nbad = 0
    ncmp = 0
    for c, e, r in zip(cases, exact, res):
        probs = []
        if "raises" in r:
            probs.append("raises " + r["raises"])
        else:
            # relative tolerances only (no absolute floor): measure ~ meas, centre ~ L, integral of a degree-k monomial ~ L^k meas
            if abs(r["measure"] - e["measure"]) > 1e-10 * e["measure"] or abs(r["measure_total"] - e["measure"]) > 1e-10 * e["measure"]:
                probs.append("measure %r exact %r" % (r["measure"], e["measure"]))
            if any(abs(a - b) > 1e-10 * e["L"] for a, b in zip(r["center"], e["center"])):
                probs.append("centre %r exact %r" % (r["center"], e["center"]))
            for mt in ("mass", "rigi"):
                for a, x, ex, isc in zip(r["int_" + mt], e["int_" + mt], c["exps"], e["iscale"]):
                    ncmp += 1
                    if x is not None and abs(a - x) > 1e-10 * isc:
                        probs.append("Integrate_e(x^%d y^%d z^%d, %s, %d points) = %r exact %r" % (ex[0], ex[1], ex[2], mt, r["npg_" + mt], a, x))
        kind = "general" if c.get("nodes") else "affine"
        ctx.note_case("integrate:%s:%s" % (c["elem"], kind))
        if probs:
            nbad += 1
            ctx.violation("integration:%s:%s" % (c["elem"], kind), "%s element %s: %s" % (kind, c["elem"], "; ".join(probs[:3])),
                          {"case": c, "exact": e, "replay_py": REPLAY_INT % dict(req=json.dumps({"cases": [c]}), exp=json.dumps(e), script=os.path.join(common.VERIF, "corr", "impl_integrate.py"))}, True)
    ctx.cov["impl_integration_cases"] = len(cases)
    ctx.cov["impl_integrals_compared"] = ncmp
    ctx.obligation("corr:length/area/volume/centre/Integrate_e exact on straight-sided elements", nbad == 0, "%d of %d cases differ" % (nbad, len(cases)))


REPLAY_MESH = r"""
import json, os, subprocess, sys
req = json.loads(%(req)r)
exp = json.loads(%(exp)r)
p = subprocess.run([sys.executable, %(script)r], input=json.dumps(req), capture_output=True, text=True, env=os.environ)
if p.returncode != 0:
    print(p.stderr[-800:]); sys.exit(1)
r = json.loads(p.stdout)[0]
print("implementation:", r)
print("exact         :", exp)
bad = "raises" in r or len(r["obs"]) != len(exp["obs"])
for o, e in zip(r.get("obs", []), exp["obs"]):
    for k in ("length", "area", "volume"):
        if e[k] is not None:
            bad |= o[k] is None or not abs(o[k] - e[k]) <= 1e-10 * e[k]
    bad |= not all(abs(a - b) <= 1e-10 * exp["L"] for a, b in zip(o["center"], e["center"]))
sys.exit(1 if bad else 0)
"""

MIXED = [("SEG2", "SEG3"), ("SEG4", "SEG2", "SEG3"), ("TRI3", "QUAD4"), ("QUAD4", "TRI3"), ("TRI6", "QUAD8"), ("QUAD9", "TRI10", "TRI3"),
         ("SEG2", "TRI3", "QUAD4"), ("QUAD8", "SEG3", "TRI6"), ("TETRA4", "HEXA8"), ("PRISM6", "HEXA8", "TETRA4"), ("HEXA20", "TETRA10"),
         ("PRISM15", "HEXA20"), ("TRI3", "TETRA4", "PRISM6"), ("TRI3",), ("HEXA8",), ("SEG3",), ("QUAD4", "SEG2"), ("TETRA4", "QUAD4", "SEG3"), ("SEG2", "TRI6")]
QUATS = [(1, 0, 0, 0), (1, 1, 0, 0), (1, 2, 2, 0), (1, 1, 1, 1), (2, 1, 0, 1), (3, 1, 1, 0), (1, 2, 0, 2), (2, 3, 1, 1)]


def _rand_affine(rng, dim):
    while True:
        A = [[F(rng.randint(-6, 6), 4) for _ in range(dim)] for _ in range(dim)]
        det = A[0][0] if dim == 1 else (A[0][0] * A[1][1] - A[0][1] * A[1][0] if dim == 2 else
                sum(A[0][i] * (A[1][(i + 1) % 3] * A[2][(i + 2) % 3] - A[1][(i + 2) % 3] * A[2][(i + 1) % 3]) for i in range(3)))
        if abs(det) >= F(1, 8):
            return A, det, [F(rng.randint(-8, 8), 4) for _ in range(dim)]


def _rot(q):
    """exact rotation matrix of an integer quaternion (rows orthonormal, rational)"""
    a, b, c, d = q
    n = F(a * a + b * b + c * c + d * d)
    return [[(a * a + b * b - c * c - d * d) / n, 2 * (b * c - a * d) / n, 2 * (b * d + a * c) / n],
            [2 * (b * c + a * d) / n, (a * a - b * b + c * c - d * d) / n, 2 * (c * d - a * b) / n],
            [2 * (b * d - a * c) / n, 2 * (c * d + a * b) / n, (a * a - b * b - c * c + d * d) / n]]


def _mm(A, B):
    return [[sum(A[i][k] * B[k][j] for k in range(len(B))) for j in range(len(B[0]))] for i in range(len(A))]


def impl_mesh_measure(ctx, E):
    """Mesh.length/area/volume and Mesh.center of hand-made meshes with several element groups (any dict
    order; lower-dimensional groups embedded with exact rational frames; the whole mesh optionally tilted
    in 3-D; any length unit), observed on the SAME mesh object after read-only queries (with a displacement
    field) and after in-place Translate / Symmetry / Rotate(90 deg): exact measures = sum |det A| meas(ref)
    per dimension, exact centre = measure-weighted mean of the images of the reference centroids of the
    main-dimension groups, moved exactly."""
    rng = ctx.rng
    SH = {"SEG": "Seg", "TRI": "Tri", "QUAD": "Quad", "TETRA": "Tet", "HEXA": "Hex", "PRISM": "Prism"}
    cases, exact = [], []
    reps = 1 if ctx.tier == "quick" else 5
    # directed placements: meshes lying EXACTLY in a coordinate plane / on a coordinate axis other than the
    # default one (xz-plane, yz-plane; y-axis, z-axis): exact 90-degree rotations, no offset out of the plane
    PLACED = {1: [(1, 0, 0, 1), (1, 0, 1, 0)], 2: [(1, 1, 0, 0), (1, 0, 1, 0)]}
    plan = []
    for combo in MIXED:
        if any(n not in E for n in combo):
            continue
        dmax = max(E[n]["dim"] for n in combo)
        plan += [(combo, None)] * reps
        if dmax < 3 and (ctx.tier != "quick" or len(combo) <= 2):
            plan += [(combo, q) for q in PLACED[dmax]]
    for combo, placed in plan:
        if True:
            dmax = max(E[n]["dim"] for n in combo)
            sL = rng.choice([F(1), F(1), F(1, 10**9), F(1, 10**6), F(10**3)])
            tilt = _rot(placed) if placed else (_rot(rng.choice(QUATS)) if dmax < 3 and rng.random() < 0.5 else _rot((1, 0, 0, 0)))
            groups, tot, mom = [], {1: F(0), 2: F(0), 3: F(0)}, [F(0)] * 3
            for name in combo:
                dim, sh = E[name]["dim"], SH[name.rstrip("0123456789")]
                maps = []
                for _k in range(rng.randint(1, 3)):
                    A, det, b = _rand_affine(rng, dim)
                    # frame: the first `dim` rows of an exact rotation (lower-dimensional groups are embedded),
                    # composed with the tilt of the whole mesh; 2-D meshes stay in their plane before the tilt
                    Rf = _rot(rng.choice(QUATS)) if dim < dmax and dmax == 3 else (_rot(rng.choice([(1, 0, 0, 0), (2, 0, 0, 1), (3, 0, 0, 1), (1, 0, 0, 1)])) if dim < dmax else _rot((1, 0, 0, 0)))
                    A3 = _mm(_mm([[x * sL for x in row] for row in A], [Rf[i] for i in range(dim)]), tilt)
                    bext = [F(rng.randint(-8, 8), 4) if (not placed or k < dmax - dim) else F(0) for k in range(3 - dim)]
                    b3 = _mm([[x * sL for x in (b + bext)]], tilt)[0]
                    maps.append({"A3": [[float(x) for x in row] for row in A3], "b3": [float(x) for x in b3]})
                    meas = abs(det) * sL ** dim * MEAS[sh]
                    tot[dim] += meas
                    if dim == dmax:
                        cref = [iref(sh, tuple(int(j == k) for j in range(dim))) / MEAS[sh] for k in range(dim)]
                        cen = [b3[k] + sum(cref[d] * A3[d][k] for d in range(dim)) for k in range(3)]
                        mom = [m + meas * x for m, x in zip(mom, cen)]
                groups.append({"elem": name, "maps": maps})
            cen = [m / tot[dmax] for m in mom]
            t = [F(rng.randint(-8, 8), 4) * sL for _ in range(3)]
            pS = [F(rng.randint(-4, 4), 4) * sL for _ in range(3)]
            nS = _rot(rng.choice(QUATS[1:]))[0]
            pR = [F(rng.randint(-4, 4), 4) * sL for _ in range(3)]
            ops = [["observe"], ["queries"], ["observe"], ["translate", [float(x) for x in t]], ["observe"],
                   ["symmetry", [float(x) for x in pS], [float(x) for x in nS]], ["observe"], ["rotate90z", [float(x) for x in pR]], ["observe"],
                   ["scale", 2.5], ["observe"]]
            c1 = [a + b for a, b in zip(cen, t)]
            dd = sum((a - b) * n for a, b, n in zip(c1, pS, nS))
            c2 = [a - 2 * dd * n for a, n in zip(c1, nS)]
            c3 = [pR[0] - (c2[1] - pR[1]), pR[1] + (c2[0] - pR[0]), c2[2]]
            ms = {"length": float(tot[1]) if dmax >= 1 else None, "area": float(tot[2]) if dmax >= 2 else None, "volume": float(tot[3]) if dmax == 3 else None}
            obs = [dict(ms, center=[float(x) for x in cc]) for cc in (cen, cen, c1, c2, c3)]
            # non-rigid change through the coordinate setter (mesh.coord = mesh.coord * 5/2): measures x (5/2)^d
            sc = F(5, 2)
            obs.append({"length": float(tot[1] * sc) if dmax >= 1 else None, "area": float(tot[2] * sc ** 2) if dmax >= 2 else None,
                        "volume": float(tot[3] * sc ** 3) if dmax == 3 else None, "center": [float(x * sc) for x in c3]})
            cases.append({"groups": groups, "ops": ops})
            exact.append({"obs": obs, "L": float(sL) * 30.0})
    script = os.path.join(common.VERIF, "corr", "impl_meshmeasure.py")
    rc, out, err = ctx.impl_python(script, input=json.dumps({"cases": cases}), timeout=900)
    if rc != 0:
        ctx.obligation("corr:mesh-measure", False, err[-1200:])
        ctx.violation("corr:mesh-measure-impl-crash", "implementation-side mesh measure run failed: " + ((err.strip().splitlines() or ["?"])[-1][:200]), {"stderr": err[-3000:]}, found_input=False)
        return
    res = json.loads(out)
    nbad = 0
    STAGE = ["as built", "after read-only queries", "after Translate", "after Symmetry", "after Rotate(90)", "after mesh.coord = 2.5 * mesh.coord"]
    for c, e, r in zip(cases, exact, res):
        label = "+".join(g["elem"] for g in c["groups"])
        ctx.note_case("mesh-measure:" + label)
        probs = []
        if "raises" in r:
            probs.append("raises " + r["raises"])
        else:
            for st, o, x in zip(STAGE, r["obs"], e["obs"]):
                for k in ("length", "area", "volume"):
                    if x[k] is not None and (o[k] is None or not abs(o[k] - x[k]) <= 1e-10 * x[k]):
                        probs.append("%s: %s %r exact %r" % (st, k, o[k], x[k]))
                if not all(abs(a - b) <= 1e-10 * e["L"] for a, b in zip(o["center"], x["center"])):
                    probs.append("%s: centre %r exact %r" % (st, o["center"], x["center"]))
                if probs:
                    break
        if probs:
            nbad += 1
            ctx.violation("mesh-measure:" + label, "mesh with groups %s: %s" % (label, "; ".join(probs[:3])),
                          {"case": c, "exact": e, "replay_py": REPLAY_MESH % dict(req=json.dumps({"cases": [c]}), exp=json.dumps(e), script=script)}, True)
    ctx.cov["impl_mesh_measure_cases"] = len(cases)
    ctx.obligation("corr:Mesh.length/area/volume/center exact on multi-group, embedded, moved straight-sided meshes (any length unit)", nbad == 0, "%d of %d cases differ" % (nbad, len(cases)))


def run(ctx):
    ctx.assumptions += [
        "closed-form reference integrals of monomials (a!b!/(a+b+2)! etc., EFLib.QuadDefs.iref) are the specification of 'exact'",
        "tables are the doubles returned by the running Gauss class, as exact rationals; tolerance 1e-14 absolute is what that representation allows",
        "rank is computed modulo the prime 2^31-1 (EFLib.ModRank, native ints): a lower bound of the rational rank — this number-theoretic fact is not formalised; upper bound nPe-1 from partition of unity (C06)",
    ]
    ok_static, log = ctx.ensure_static()
    if not ok_static:
        ctx.obligation("static-lib", False, log[-1500:])
        ctx.violation("static-lib-build", "coq/lib or coq/model does not build", {"log": log[-3000:]}, found_input=False)
        return
    rc, out, err = ctx.impl_python(os.path.join(common.VERIF, "corr", "impl_gauss.py"), timeout=300)
    if rc != 0:
        ctx.obligation("dump-gauss", False, err[-1500:])
        ctx.violation("dump-gauss", "cannot obtain the quadrature tables from the implementation: " + (err.strip().splitlines() or ["?"])[-1][:200], {"stderr": err[-3000:]}, found_input=False)
        return
    dump = json.loads(out)
    try:
        E = T_elems.read_elems(ctx.repo)
    except (TranslateError, SyntaxError, OSError) as ex:
        ctx.obligation("translate", False, str(ex))
        ctx.violation("translate", "translator rejected the source: %s" % ex, {"construct": str(ex)}, found_input=False)
        return
    for e in dump["errors"]:
        ctx.violation("factory-error:" + re.sub(r"\W+", "_", e)[:60], e, {"error": e}, found_input=True)
    incons = T_gauss.factory_consistency(dump)
    ctx.obligation("factory tables are the per-count tables (bitwise)", not incons, "; ".join(incons[:3]))
    for m in incons:
        ctx.violation("factory-table:" + re.sub(r"\W+", "_", m)[:60], m, {"detail": m}, found_input=True)
    # rules as the element groups obtain them, every type in one process, in two orders
    fac = {(f["elem"], f["matrix"]): f for f in dump["factory"]}
    gbad = []
    for order in ("fwd", "rev"):
        if order == "fwd":
            dd = dump
        else:
            rc2, out2, err2 = ctx.impl_python(os.path.join(common.VERIF, "corr", "impl_gauss.py"), args=["rev"], timeout=300)
            if rc2 != 0:
                gbad.append("reverse-order dump failed: " + (err2.strip().splitlines() or ["?"])[-1][:150])
                continue
            dd = json.loads(out2)
        for gentry in dd.get("group", []):
            f = fac.get((gentry["elem"], gentry["matrix"]))
            ctx.note_case("group-rule:%s/%s:%s" % (gentry["elem"], gentry["matrix"], order))
            if f is None or f["pts"] != gentry["pts"] or f["w"] != gentry["w"] or gentry["w_pg"] != f["w"]:
                gbad.append("%s/%s (%s order): the group's rule has %d points, Gauss(elemType, matrixType) has %s" % (
                    gentry["elem"], gentry["matrix"], order, gentry["npg"], f["npg"] if f else "none"))
    ctx.obligation("element groups obtain exactly the factory's rule (both creation orders, one process)", not gbad, "; ".join(gbad[:3]))
    for m in gbad[:8]:
        key = "group-rule:" + re.sub(r"\W+", "_", m.split(":")[0])[:50]
        ctx.violation(key, m, {"detail": m, "replay_py": REPLAY_GROUP}, True)
    ctx.cov["rules"] = len(dump["rules"])
    ctx.cov["factory_pairs"] = len(dump["factory"])
    for r in dump["rules"]:
        ctx.note_case("%s%d" % (r["shape"], r["npg"]))
    for f in dump["factory"]:
        ctx.note_case("%s/%s" % (f["elem"], f["matrix"]))
    ctx.sample({"rule": "Tri 6", "weights_as_exact_rationals": [r for r in dump["rules"] if (r["shape"], r["npg"]) == ("Tri", 6)][0]["w"][:2]})
    open(os.path.join(ctx.build, "Gen_Gauss.v"), "w").write(T_gauss.emit_coq(dump))
    open(os.path.join(ctx.build, "Gen_Elems.v"), "w").write(T_elems.emit_coq(E))
    ctx.copy_props("C07/C07_rules.v", "C07/C07_factory.v")
    r0 = ctx.coq(["Gen_Gauss.v", "Gen_Elems.v"], timeout=300, count=False)
    if not r0.ok:
        ctx.obligation("generated files compile", False, r0.log[-1500:])
        ctx.violation("gen-compile", "generated Coq tables do not compile", {"log": r0.log[-3000:]}, found_input=False)
        return
    # C07_rules (long vm_compute) in a second thread; factory then the exact-rank file here
    import threading
    box = {}
    def _rules():
        box["r1"] = ctx.coq(["C07_rules.v"], timeout=900)
        if box["r1"].ok:
            ctx.copy_props("C07/C07_measure.v")
            box["r4"] = ctx.coq(["C07_measure.v"], timeout=600)
    th = threading.Thread(target=_rules)
    th.start()
    r2 = ctx.coq(["C07_factory.v"], timeout=900)
    ctx.copy_props("C07/C07_rank_exact.v")
    r3 = ctx.coq(["C07_rank_exact.v"], timeout=1200) if r2.ok else None
    th.join()
    r1 = box["r1"]
    if "r4" in box and not box["r4"].ok:
        ctx.violation("proof-broken:C07_measure.v", "a tabulated rule no longer documents exactness for all monomials of degree <= 1 (measure / centre corollaries)",
                      {"obligation": "C07_measure.v", "log": box["r4"].log[-3000:]}, found_input=False)
    if r3 is not None and not r3.ok:
        ctx.violation("proof-broken:C07_rank_exact.v", "the exact (over Q) kernel certificate of the stiffness rule's gradient samples no longer checks although the rank modulo p is full",
                      {"obligation": "C07_rank_exact.v", "log": r3.log[-3000:]}, found_input=False)
    if not r1.ok:
        found = search_rules(dump)
        for key, what, rep in found:
            ctx.violation(key, what, rep, True)
        if not found:
            ctx.violation("proof-broken:C07_rules.v", "C07_rules.v no longer checks; no failing rule found by the exact search",
                          {"obligation": "C07_rules.v", "log": r1.log[-3000:]}, found_input=False)
    if not r2.ok:
        # diagnose inside Coq: which element's rigi rule is not rich enough / factory hole
        body = ("From Coq Require Import QArith List String Ring_polynom Bool.\nFrom EFLib Require Import PolyQ ElemDefs QuadDefs ModRank.\n"
                "From EFP Require Import Gen_Elems Gen_Gauss.\n")
        src = open(os.path.join(ctx.build, "C07_factory.v")).read()
        defs = src[src.index("Definition find_elem"):src.index("Lemma all_rigi_rich")]
        defs = re.sub(r"Theorem C07_factory_total.*?Qed\.", "", defs, flags=re.S)
        body += "Import ListNotations.\nOpen Scope string_scope.\n" + defs + "\nEval vm_compute in chk_factory_total.\nEval vm_compute in rigi_diag.\n"
        rc, outd = ctx.coq_eval("C07_diag.v", body, timeout=900)
        found = False
        txt = re.sub(r"\s+", " ", outd).replace("%nat", "")
        if "= false : bool" in txt.split("rigi_diag")[0] if "rigi_diag" in txt else "= false : bool" in txt[:200]:
            ctx.violation("factory-total", "the factory has no tabulated rule of the right dimension for some (element, matrix type)", {"diag": outd[-2000:]}, True)
            found = True
        for m in re.finditer(r'\("([A-Z0-9]+)", \((\d+), (true|false), (\d+), (\d+)\)\)', txt):
            name, npg, pos, rk, want = m.group(1), int(m.group(2)), m.group(3), int(m.group(4)), int(m.group(5))
            if pos != "true" or rk != want:
                found = True
                ctx.violation("rigi-rank:%s" % name,
                              "%s: the rule selected for stiffness integrals (%d points) gives gradient rank %d on the reference element, %d needed (positive weights: %s) — conduction matrix is rank deficient beyond constants" % (name, npg, rk, want, pos),
                              {"replay_py": REPLAY_RANK % dict(elem=name), "element": name, "npg": npg, "rank": rk, "needed": want}, True)
        if not found:
            ctx.violation("proof-broken:C07_factory.v", "C07_factory.v no longer checks; diagnosis found no failing element",
                          {"obligation": "C07_factory.v", "log": r2.log[-3000:], "diag": outd[-2000:]}, found_input=False)
    impl_integration(ctx, dump, E)
    impl_mesh_measure(ctx, E)
    # independent exact sweep (python Fractions) of what Coq decided, as cross-check of the tie
    sw = search_rules(dump)
    ctx.obligation("python exact sweep agrees with the Coq decision on the rules", bool(sw) == (not r1.ok), "sweep found %d" % len(sw))
    if bool(sw) != (not r1.ok):
        ctx.violation("sweep-vs-coq", "python exact sweep and Coq decision disagree on the rules", {"sweep": [s[1] for s in sw][:5]}, found_input=False)
    if ctx.tier == "thorough" and r1.ok and r2.ok:
        # C07_rules is a 40 s vm_compute that coqchk re-does with its slow lazy machine (> 20 min): factory only
        ctx.coqchk(["C07_factory"], timeout=1500)
    if ctx.tier == "thorough":
        # measured exactness degrees (reported, not demanded beyond the documented order)
        deg = {}
        for r in dump["rules"]:
            sh = r["shape"]
            pts = [[T_gauss.fr(x) for x in p] for p in r["pts"]]
            ws = [T_gauss.fr(w) for w in r["w"]]
            d = -1
            for k in range(0, 17):
                if all(abs(sum(w * math.prod(x ** a for x, a in zip(p, e)) for p, w in zip(pts, ws)) - iref(sh, e)) <= TOL for e in exps(DIM[sh], k) if sum(e) == k):
                    d = k
                else:
                    break
            deg["%s%d" % (sh, r["npg"])] = d
        ctx.cov["measured_total_degree"] = deg
